#!/bin/bash
# Builds the framework offline from files on disk only.
set -e
cd /verif
export CARGO_NET_OFFLINE=true
mkdir -p target/logs target/partials target/scratch evidence
for ws in harness sched; do
  [ -d "$ws" ] || continue
  [ -f "$ws/Cargo.lock" ] || cp /repo/Cargo.lock "$ws/Cargo.lock"
  ( cd "$ws" && cargo build --release --offline )
done
echo "setup ok"
