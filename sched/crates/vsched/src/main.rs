//! vsched: engine SCHED — preemption-bounded exhaustive exploration of real threads
//! (`vsched <Cxx> [--tier quick|thorough] [--replay file]`).
//! For C20 this binary decides the property and writes the evidence itself; for C03 / C01 it
//! writes a partial report that the harness binary merges.
mod runner;
mod scen;
mod sched;

use runner::{Scenario, replay_scenario, run_scenario};
use serde_json::json;
use vcore::{Report, Tier};

fn install_hooks() {
    // H1/H7: yield points inside lock-free check-then-act sequences become scheduling points
    grafeo_common::verif_hooks::set_yield_hook(Some(Box::new(|_tag| shuttle::thread::yield_now())));
}

/// `--shard k/n`: this process runs the scenarios whose position in the (deterministic) global work list is k mod n.
static SHARD: std::sync::OnceLock<(usize, usize)> = std::sync::OnceLock::new();
static WORK_INDEX: std::sync::atomic::AtomicUsize = std::sync::atomic::AtomicUsize::new(0);

fn run_all<O: Send + Sync + 'static>(scs: Vec<Scenario<O>>, bound: usize, cap: u64, rep: &mut Report, only: Option<&str>) {
    for sc in scs {
        if only.is_some_and(|o| o != sc.name) {
            continue;
        }
        let idx = WORK_INDEX.fetch_add(1, std::sync::atomic::Ordering::Relaxed);
        if let Some((k, n)) = SHARD.get() {
            if idx % n != *k {
                continue;
            }
        }
        let name = sc.name;
        let t0 = rep.elapsed_s();
        let st = run_scenario(sc, bound, cap, rep);
        eprintln!("{name}: bound {bound}: {} schedules, {} outcomes ({} sequential), max {} points, {:.1}s", st.schedules, st.outcomes, st.seq_outcomes, st.max_points, rep.elapsed_s() - t0);
    }
}

fn main() {
    let argv: Vec<String> = std::env::args().skip(1).collect();
    if argv.is_empty() {
        eprintln!("usage: vsched <Cxx> [--tier quick|thorough] [--replay file]");
        std::process::exit(2);
    }
    let prop = argv[0].clone();
    let args = vcore::parse_args(&argv[1..]);
    vcore::quiet_panics();
    install_hooks();
    runner::install_deterministic_hashing();
    let tier = args.tier;
    if let Some(p) = args.replay.as_deref() {
        let case = vcore::read_replay_case(p);
        if case["engine"] != "SCHED" {
            // not ours: let the harness binary replay it
            std::process::exit(0);
        }
        let name = case["scenario"].as_str().unwrap_or("").to_string();
        let choices: Vec<usize> = case["choices"].as_array().map(|a| a.iter().filter_map(|x| x.as_u64()).map(|x| x as usize).collect()).unwrap_or_default();
        let bound = case["bound"].as_u64().unwrap_or(2) as usize;
        let three = case["threads"].as_array().map_or(false, |t| t.len() >= 3);
        let mut viols = None;
        macro_rules! try_family {
            ($f:expr) => {
                for sc in $f {
                    if sc.name == name && viols.is_none() {
                        viols = Some(replay_scenario(sc, choices.clone(), bound));
                    }
                }
            };
        }
        try_family!(scen::lpg_scenarios(three));
        try_family!(scen::lpg_matrix_scenarios());
        try_family!(scen::lpg_matrix_scenarios_three());
        try_family!(scen::rdf_scenarios(three));
        try_family!(scen::rdf_matrix_scenarios());
        try_family!(scen::txm_scenarios(three));
        try_family!(scen::bm_scenarios(three));
        try_family!(scen::cat_scenarios(three));
        try_family!(scen::hn_scenarios(three));
        try_family!(scen::db_scenarios());
        let Some(viols) = viols else { vcore::machinery_failure("unknown scenario in replay file") };
        if viols.is_empty() {
            println!("REPLAY property={prop}: no violation reproduced");
            std::process::exit(0);
        }
        for v in &viols {
            println!("REPLAY property={prop}: reproduced sig=[{}] :: {}", v.sig_string(), v.detail);
        }
        std::process::exit(1);
    }
    let only = args.rest.iter().position(|a| a == "--only").and_then(|i| args.rest.get(i + 1)).cloned();
    let only = only.as_deref();
    let shard = args.rest.iter().position(|a| a == "--shard").and_then(|i| args.rest.get(i + 1)).cloned();
    if let Some(s) = &shard {
        let (k, n) = s.split_once('/').and_then(|(a, b)| Some((a.parse::<usize>().ok()?, b.parse::<usize>().ok()?))).unwrap_or_else(|| vcore::machinery_failure("bad --shard k/n"));
        let _ = SHARD.set((k, n));
    }
    let mut rep = Report::new(&prop, tier, "model_checking");
    rep.max_samples = 12;
    let shard_path = |k: usize| vcore::verif_root().join(format!("target/partials/{prop}.shard-{k}.json"));
    // Parent: one execution of the controlled scheduler is single-threaded, and the deterministic hash-seed source is
    // process-global, so the work list is split over child processes (one slice each) and the partial reports are merged.
    let sharded_parent = shard.is_none() && only.is_none();
    if sharded_parent {
        let n = vcore::cores().clamp(1, 16);
        let exe = std::env::current_exe().unwrap_or_else(|e| vcore::machinery_failure(&format!("current_exe: {e}")));
        let mut kids = vec![];
        for k in 0..n {
            let _ = std::fs::remove_file(shard_path(k));
            let mut c = std::process::Command::new(&exe);
            c.arg(&prop).arg("--tier").arg(if tier == Tier::Quick { "quick" } else { "thorough" }).arg("--shard").arg(format!("{k}/{n}"));
            kids.push((k, c.spawn().unwrap_or_else(|e| vcore::machinery_failure(&format!("spawn shard {k}: {e}")))));
        }
        for (k, mut kid) in kids {
            let st = kid.wait().unwrap_or_else(|e| vcore::machinery_failure(&format!("wait shard {k}: {e}")));
            if !st.success() {
                vcore::machinery_failure(&format!("shard {k} of the scenario list exited with {st} (an engine crash, not a verdict)"));
            }
        }
        for k in 0..n {
            rep.merge_shard(&shard_path(k));
        }
        if let Some(mut a) = rep.extra.get("scenarios").and_then(|x| x.as_array()).cloned() {
            a.sort_by_key(|x| (x["scenario"].as_str().unwrap_or("").to_string(), x["threads"].as_array().map_or(0, |t| t.len())));
            rep.set("scenarios", serde_json::Value::Array(a));
        }
        rep.set("worker_processes", json!(n));
    }
    let (bound, three, cap) = match tier {
        Tier::Quick => (3usize, true, 400_000u64),
        Tier::Thorough => (5usize, true, 8_000_000u64),
    };
    rep.rule = "engine SCHED: every interleaving (at lock-acquisition / yield-hook granularity) of each listed 2-3 thread scenario with at most `preemption_bound` preemptions is executed on the real code under a controlled scheduler; an evaluation is one complete schedule; distinct non-trivial = distinct (scenario, recorded outcome) pairs".into();
    match prop.as_str() {
        _ if sharded_parent => {}
        "C20" => {
            run_all(scen::lpg_scenarios(false), bound, cap, &mut rep, only);
            run_all(scen::lpg_matrix_scenarios(), bound, cap, &mut rep, only);
            run_all(scen::rdf_scenarios(false), bound, cap, &mut rep, only);
            run_all(scen::rdf_matrix_scenarios(), bound, cap, &mut rep, only);
            run_all(scen::txm_scenarios(false), bound, cap, &mut rep, only);
            run_all(scen::bm_scenarios(false), bound, cap, &mut rep, only);
            run_all(scen::cat_scenarios(false), bound, cap, &mut rep, only);
            run_all(scen::hn_scenarios(false), bound.min(2), cap, &mut rep, only);
            run_all(scen::db_scenarios(), if tier == Tier::Quick { 1 } else { 2 }, cap, &mut rep, only);
            if three {
                let b3 = if tier == Tier::Quick { 2 } else { 3 }; // three-thread variants at a lower bound (schedule count grows fast)
                run_all(scen::lpg_scenarios(true).into_iter().filter(|s| s.threads.len() == 3).collect(), b3, cap, &mut rep, only);
                run_all(scen::rdf_scenarios(true).into_iter().filter(|s| s.threads.len() == 3).collect(), b3, cap, &mut rep, only);
                run_all(scen::txm_scenarios(true), b3, cap, &mut rep, only);
                run_all(scen::bm_scenarios(true).into_iter().filter(|s| s.threads.len() == 3).collect(), b3, cap, &mut rep, only);
                run_all(scen::cat_scenarios(true).into_iter().filter(|s| s.threads.len() == 3).collect(), b3, cap, &mut rep, only);
                run_all(scen::hn_scenarios(true), 1, cap, &mut rep, only);
                if tier == Tier::Thorough {
                    run_all(scen::lpg_matrix_scenarios_three(), 2, cap, &mut rep, only);
                }
            }
        }
        "C03" => {
            run_all(scen::txm_scenarios(false), bound, cap, &mut rep, only);
            if three {
                run_all(scen::txm_scenarios(true), if tier == Tier::Quick { 2 } else { 3 }, cap, &mut rep, only);
            }
        }
        _ => {
            eprintln!("vsched has no scenarios for {prop}");
            std::process::exit(2);
        }
    }
    rep.traces_validated = rep.evaluations;
    if let Some((k, _)) = SHARD.get() {
        rep.write_partial(&shard_path(*k));
        std::process::exit(0);
    }
    rep.set("preemption_bound", json!(bound));
    rep.assumptions.push("std atomics execute sequentially consistently under the controlled scheduler: weak-memory reorderings of Relaxed operations are outside this engine".into());
    rep.assumptions.push("DashMap shard locks are not intercepted (audited: never held across a parking_lot acquisition); rayon/crossbeam code is not part of these scenarios".into());
    if prop == "C20" {
        std::process::exit(rep.finish());
    }
    let p = vcore::verif_root().join(format!("target/partials/{prop}.sched.json"));
    rep.write_partial(&p);
    println!("SCHED-PARTIAL property={prop} schedules={} written={}", rep.evaluations, p.display());
    std::process::exit(0);
}
