fn main(){}
