//! Scenarios for C20 (and the threaded layers of C03 / C01).  Each scenario builds a
//! small pre-populated real object, lets 2–3 threads issue 1–3 operations that are
//! forced to collide on the same entities, and names its quiescent invariants.

use crate::runner::{Op, Scenario};
use grafeo_common::memory::buffer::{BufferManager, BufferManagerConfig, MemoryGrant, MemoryRegion};
use grafeo_common::types::{EdgeId, NodeId, PropertyKey, TxId, Value};
use grafeo_core::graph::Direction;
use grafeo_core::graph::lpg::LpgStore;
use grafeo_core::graph::rdf::{RdfStore, Term, Triple, TriplePattern};
use grafeo_engine::transaction::{EntityId, TransactionManager};
use std::sync::{Arc, Mutex};

// ---------------------------------------------------------------------------
// LPG store scenarios
// ---------------------------------------------------------------------------

pub struct Lpg {
    pub st: LpgStore,
    pub created: Mutex<Vec<(usize, NodeId)>>,
}

/// Canonical dump of an LpgStore through its public accessors, plus cross-structure agreement.
fn lpg_observe(o: &Lpg) -> String {
    store_observe(&o.st)
}
fn store_observe(st: &LpgStore) -> String {
    let mut s = String::new();
    let ids = st.node_ids();
    for id in &ids {
        if let Some(n) = st.get_node(*id) {
            let mut l: Vec<String> = n.labels.iter().map(|x| x.to_string()).collect();
            l.sort();
            let p: Vec<String> = n.properties.iter().map(|(k, v)| format!("{}={v:?}", k.as_str())).collect();
            s.push_str(&format!("n{}{l:?}{p:?};", id.as_u64()));
        }
    }
    let mut es: Vec<(u64, u64, u64, String)> = st.all_edges().map(|e| (e.id.as_u64(), e.src.as_u64(), e.dst.as_u64(), e.edge_type.to_string())).collect();
    es.sort();
    s.push_str(&format!("E{es:?}"));
    for l in ["L", "L2", "M"] {
        s.push_str(&format!("|{l}:{:?}", st.nodes_by_label(l).iter().map(|n| n.as_u64()).collect::<Vec<_>>()));
    }
    s
}

/// The derived lookup structures agree with the primary data (C14's invariant at quiescence).
fn lpg_invariants(o: &Lpg, _r: &[Vec<String>]) -> Vec<(String, String)> {
    store_invariants(&o.st)
}
fn store_invariants(st: &LpgStore) -> Vec<(String, String)> {
    let mut out = vec![];
    let ids = st.node_ids();
    if st.node_count() != ids.len() {
        out.push(("node-count-mismatch".into(), format!("node_count() = {}, node_ids() = {:?}", st.node_count(), ids)));
    }
    for l in ["L", "L2", "M"] {
        let by_label = st.nodes_by_label(l);
        let want: Vec<NodeId> = ids.iter().copied().filter(|id| st.get_node(*id).is_some_and(|n| n.labels.iter().any(|x| x.as_str() == l))).collect();
        if by_label != want {
            let kind = if by_label.iter().any(|x| !want.contains(x)) { "label-index-has-stale-entry" } else { "label-index-misses-entry" };
            out.push((kind.into(), format!("nodes_by_label({l}) = {by_label:?} but live nodes carrying it = {want:?}")));
        }
    }
    let edges: Vec<_> = st.all_edges().collect();
    if st.edge_count() != edges.len() {
        out.push(("edge-count-mismatch".into(), format!("edge_count() = {}, all_edges() has {}", st.edge_count(), edges.len())));
    }
    let mut all_nodes: Vec<NodeId> = ids.clone();
    for e in &edges {
        for n in [e.src, e.dst] {
            if !all_nodes.contains(&n) {
                all_nodes.push(n);
            }
        }
    }
    for n in &all_nodes {
        let mut want_out: Vec<(u64, u64)> = edges.iter().filter(|e| e.src == *n).map(|e| (e.dst.as_u64(), e.id.as_u64())).collect();
        want_out.sort();
        let mut got_out: Vec<(u64, u64)> = st.edges_from(*n, Direction::Outgoing).map(|(d, e)| (d.as_u64(), e.as_u64())).collect();
        got_out.sort();
        if got_out != want_out {
            out.push(("adjacency-torn".into(), format!("edges_from({n:?},Out) = {got_out:?}, live edges = {want_out:?}")));
        }
        let mut want_in: Vec<(u64, u64)> = edges.iter().filter(|e| e.dst == *n).map(|e| (e.src.as_u64(), e.id.as_u64())).collect();
        want_in.sort();
        let mut got_in: Vec<(u64, u64)> = st.edges_to(*n).iter().map(|(s, e)| (s.as_u64(), e.as_u64())).collect();
        got_in.sort();
        if got_in != want_in {
            out.push(("adjacency-torn".into(), format!("edges_to({n:?}) = {got_in:?}, live edges = {want_in:?}")));
        }
    }
    // property index vs scan for key k over the values the scenarios use
    if st.has_property_index("k") {
        for v in [Value::Int64(0), Value::Int64(1), Value::Int64(2)] {
            let mut got = st.find_nodes_by_property("k", &v);
            got.sort();
            let want: Vec<NodeId> = ids.iter().copied().filter(|id| st.get_node_property(*id, &PropertyKey::new("k")).is_some_and(|x| x == v)).collect();
            if got != want {
                let kind = if got.iter().any(|x| !want.contains(x)) { "property-index-has-stale-entry" } else { "property-index-misses-entry" };
                out.push((kind.into(), format!("find_nodes_by_property(k,{v:?}) = {got:?} but nodes holding it = {want:?}")));
            }
        }
    }
    out
}

fn lpg_base() -> Lpg {
    // nodes 0,1 (label L), edge 0: 0->1
    let st = LpgStore::new();
    let a = st.create_node(&["L"]);
    let b = st.create_node(&["L"]);
    st.create_edge(a, b, "K");
    st.set_node_property(a, "k", Value::Int64(0));
    Lpg { st, created: Mutex::new(vec![]) }
}
fn lpg_base_indexed() -> Lpg {
    let o = lpg_base();
    o.st.create_property_index("k");
    o
}

fn n(i: u64) -> NodeId {
    NodeId::new(i)
}

pub fn lpg_scenarios(three: bool) -> Vec<Scenario<Lpg>> {
    let mut v = vec![];
    // S1: concurrent creates + label lookup: unique ids, label index complete.
    // Identifier *values* are not part of the linearizability comparison (allocation order need not equal
    // visibility order); uniqueness and visibility of every acknowledged creation are checked as invariants.
    let mut t = vec![
        vec![Op {
            name: "create_node(L)",
            f: |o: &Lpg, t| {
                let id = o.st.create_node(&["L"]);
                o.created.lock().unwrap().push((t, id));
                "created".into()
            },
        }],
        vec![Op {
            name: "create_node(L,M)",
            f: |o: &Lpg, t| {
                let id = o.st.create_node(&["L", "M"]);
                o.created.lock().unwrap().push((t, id));
                "created".into()
            },
        }],
    ];
    if three {
        t.push(vec![Op { name: "count(nodes_by_label(L))", f: |o: &Lpg, _| format!("{}", o.st.nodes_by_label("L").len()) }]);
    }
    v.push(Scenario {
        name: "S1-create-create",
        what: "two creators (+ a label reader): ids unique, every acknowledged creation visible, label index complete",
        make: lpg_base,
        threads: t,
        observe: |o: &Lpg| {
            // ids are compared as a set of live nodes with their labels, independent of which thread got which id
            let mut rows: Vec<String> = o.st.node_ids().iter().filter_map(|id| o.st.get_node(*id)).map(|n| {
                let mut l: Vec<String> = n.labels.iter().map(|x| x.to_string()).collect();
                l.sort();
                format!("{l:?}")
            }).collect();
            rows.sort();
            format!("{rows:?}|L:{}|M:{}", o.st.nodes_by_label("L").len(), o.st.nodes_by_label("M").len())
        },
        invariants: |o: &Lpg, r| {
            let mut out = lpg_invariants(o, r);
            let created = o.created.lock().unwrap().clone();
            let mut ids: Vec<NodeId> = created.iter().map(|c| c.1).collect();
            ids.sort();
            let n0 = ids.len();
            ids.dedup();
            if ids.len() != n0 || ids.iter().any(|i| i.as_u64() < 2) {
                out.push(("duplicate-id".into(), format!("identifiers handed out: {created:?} (pre-existing: 0, 1)")));
            }
            for (_, id) in &created {
                if o.st.get_node(*id).is_none() || !o.st.node_ids().contains(id) || !o.st.nodes_by_label("L").contains(id) {
                    out.push(("acknowledged-creation-not-visible".into(), format!("node {id:?} was acknowledged but is not visible through get_node / node_ids / nodes_by_label")));
                }
            }
            out
        },
        linearizable: true,
    });
    // S2: delete node vs label/property update of the same node
    v.push(Scenario {
        name: "S2-delete-vs-add_label",
        what: "delete_node(n0) || add_label(n0,L2): a deleted node must not stay in the label index",
        make: || {
            let o = lpg_base();
            o.st.delete_node_edges(n(0));
            o
        },
        threads: vec![vec![Op { name: "delete_node(0)", f: |o: &Lpg, _| format!("{}", o.st.delete_node(n(0))) }], vec![Op { name: "add_label(0,L2)", f: |o: &Lpg, _| format!("{}", o.st.add_label(n(0), "L2")) }]],
        observe: lpg_observe,
        invariants: lpg_invariants,
        linearizable: true,
    });
    v.push(Scenario {
        name: "S2b-delete-vs-set_property",
        what: "delete_node(n0) || set_node_property(n0,k,1) with an index on k: a deleted node must not stay in the property index",
        make: || {
            let o = lpg_base_indexed();
            o.st.delete_node_edges(n(0));
            o
        },
        threads: vec![
            vec![Op { name: "delete_node(0)", f: |o: &Lpg, _| format!("{}", o.st.delete_node(n(0))) }],
            vec![Op {
                name: "set_node_property(0,k,1)",
                f: |o: &Lpg, _| {
                    o.st.set_node_property(n(0), "k", Value::Int64(1));
                    "()".into()
                },
            }],
        ],
        observe: lpg_observe,
        invariants: lpg_invariants,
        // set_node_property on a deleted node is outside the documented domain; only the invariants are judged
        linearizable: false,
    });
    // S3: edge creation vs detach / edge delete
    v.push(Scenario {
        name: "S3-create_edge-vs-delete_node_edges",
        what: "create_edge(0,1) || delete_node_edges(0): adjacency agrees with the live edge set",
        make: lpg_base,
        threads: vec![
            vec![Op { name: "create_edge(0,1,K)", f: |o: &Lpg, _| format!("{:?}", o.st.create_edge(n(0), n(1), "K")) }],
            vec![Op {
                name: "delete_node_edges(0)",
                f: |o: &Lpg, _| {
                    o.st.delete_node_edges(n(0));
                    "()".into()
                },
            }],
        ],
        observe: lpg_observe,
        invariants: lpg_invariants,
        linearizable: true,
    });
    let mut t3 = vec![vec![Op { name: "delete_edge(0)", f: |o: &Lpg, _| format!("{}", o.st.delete_edge(EdgeId::new(0))) }], vec![Op { name: "delete_edge(0)'", f: |o: &Lpg, _| format!("{}", o.st.delete_edge(EdgeId::new(0))) }]];
    if three {
        t3.push(vec![Op { name: "create_edge(1,0,K)", f: |o: &Lpg, _| format!("{:?}", o.st.create_edge(n(1), n(0), "K")) }]);
    }
    v.push(Scenario { name: "S3b-delete_edge-twice", what: "two threads delete the same edge (+ a creator): exactly one succeeds, adjacency agrees", make: lpg_base, threads: t3, observe: lpg_observe, invariants: lpg_invariants, linearizable: true });
    // S4: two writers of the same property under a property index
    v.push(Scenario {
        name: "S4-set-set-indexed",
        what: "set_node_property(0,k,1) || set_node_property(0,k,2) with an index on k: index agrees with the stored value",
        make: lpg_base_indexed,
        threads: vec![
            vec![Op {
                name: "set(0,k,1)",
                f: |o: &Lpg, _| {
                    o.st.set_node_property(n(0), "k", Value::Int64(1));
                    "()".into()
                },
            }],
            vec![Op {
                name: "set(0,k,2)",
                f: |o: &Lpg, _| {
                    o.st.set_node_property(n(0), "k", Value::Int64(2));
                    "()".into()
                },
            }],
        ],
        observe: lpg_observe,
        invariants: lpg_invariants,
        linearizable: true,
    });
    // S5: add vs remove of the same label
    v.push(Scenario {
        name: "S5-add_label-vs-remove_label",
        what: "add_label(0,L2) || remove_label(0,L2) (+ remove_label(0,L)): label index agrees with the node's labels",
        make: lpg_base,
        threads: vec![
            vec![Op { name: "add_label(0,L2)", f: |o: &Lpg, _| format!("{}", o.st.add_label(n(0), "L2")) }],
            vec![Op { name: "remove_label(0,L2)", f: |o: &Lpg, _| format!("{}", o.st.remove_label(n(0), "L2")) }, Op { name: "remove_label(0,L)", f: |o: &Lpg, _| format!("{}", o.st.remove_label(n(0), "L")) }],
        ],
        observe: lpg_observe,
        invariants: lpg_invariants,
        linearizable: true,
    });
    // S10: statistics refresh / scans against structural change (new label registration window)
    let mut t10 = vec![
        vec![Op { name: "create_node(NEW)", f: |o: &Lpg, _| format!("{:?}", o.st.create_node(&["NEW"])) }],
        vec![Op {
            name: "compute_statistics()",
            f: |o: &Lpg, _| {
                o.st.compute_statistics();
                "()".into()
            },
        }],
    ];
    if three {
        t10.push(vec![Op { name: "add_label(1,NEW2)", f: |o: &Lpg, _| format!("{}", o.st.add_label(n(1), "NEW2")) }]);
    }
    v.push(Scenario { name: "S10-stats-vs-new-label", what: "compute_statistics() while a never-seen label is being registered: no panic, no deadlock", make: lpg_base, threads: t10, observe: lpg_observe, invariants: lpg_invariants, linearizable: false });
    v.push(Scenario {
        name: "S10b-scan-vs-delete",
        what: "all_nodes()/nodes_by_label scan || delete_node(1): scan returns a sequentially explainable answer",
        make: || {
            let o = lpg_base();
            o.st.delete_node_edges(n(1));
            o
        },
        threads: vec![
            vec![Op { name: "delete_node(1)", f: |o: &Lpg, _| format!("{}", o.st.delete_node(n(1))) }],
            vec![Op {
                name: "scan",
                f: |o: &Lpg, _| {
                    let mut a: Vec<u64> = o.st.all_nodes().map(|x| x.id.as_u64()).collect();
                    a.sort();
                    format!("{a:?}")
                },
            }],
        ],
        observe: lpg_observe,
        invariants: lpg_invariants,
        linearizable: true,
    });
    v.push(Scenario {
        name: "S4b-create_index-vs-set",
        what: "create_property_index(k) || set_node_property(1,k,2): lock order (property_indexes -> nodes) against writers; index complete afterwards",
        make: lpg_base,
        threads: vec![
            vec![Op {
                name: "create_property_index(k)",
                f: |o: &Lpg, _| {
                    o.st.create_property_index("k");
                    "()".into()
                },
            }],
            vec![Op {
                name: "set(1,k,2)",
                f: |o: &Lpg, _| {
                    o.st.set_node_property(n(1), "k", Value::Int64(2));
                    "()".into()
                },
            }],
        ],
        observe: lpg_observe,
        invariants: lpg_invariants,
        linearizable: true,
    });
    v
}

// ---------------------------------------------------------------------------
// LPG operation-pair matrix: every unordered pair of the public mutators / readers below, forced onto the same
// node (2), edge (0) and property key (k), on a base store with and without a property index on k.
// ---------------------------------------------------------------------------

/// nodes 0,1,2 (label L), edge 0: 0->1, k=0 on nodes 0 and 2; node 2 is detached (delete_node is documented as
/// non-cascading, so it is only issued on a node without edges).
fn lpg_matrix_base() -> Lpg {
    let st = LpgStore::new();
    let a = st.create_node(&["L"]);
    let b = st.create_node(&["L"]);
    let c = st.create_node(&["L"]);
    st.create_edge(a, b, "K");
    st.set_node_property(a, "k", Value::Int64(0));
    st.set_node_property(c, "k", Value::Int64(0));
    Lpg { st, created: Mutex::new(vec![]) }
}
fn lpg_matrix_base_indexed() -> Lpg {
    let o = lpg_matrix_base();
    o.st.create_property_index("k");
    o
}

/// (name, operation, touches node 2's properties, is delete_node(2))
type MOp = (&'static str, fn(&Lpg, usize) -> String, bool, bool);

fn lpg_matrix_ops() -> Vec<MOp> {
    fn unit(_: ()) -> String {
        "()".into()
    }
    vec![
        ("create_node(L)", |o, t| { let id = o.st.create_node(&["L"]); o.created.lock().unwrap().push((t, id)); "created".into() }, false, false),
        ("delete_node(2)", |o, _| format!("{}", o.st.delete_node(n(2))), false, true),
        ("add_label(2,L2)", |o, _| format!("{}", o.st.add_label(n(2), "L2")), false, false),
        ("remove_label(2,L)", |o, _| format!("{}", o.st.remove_label(n(2), "L")), false, false),
        ("set(2,k,1)", |o, _| unit(o.st.set_node_property(n(2), "k", Value::Int64(1))), true, false),
        ("set(2,k,2)", |o, _| unit(o.st.set_node_property(n(2), "k", Value::Int64(2))), true, false),
        ("remove_property(2,k)", |o, _| format!("{:?}", o.st.remove_node_property(n(2), "k")), true, false),
        ("create_edge(0,1,K)", |o, _| format!("{:?}", o.st.create_edge(n(0), n(1), "K")), false, false),
        ("create_edge(1,0,K)", |o, _| format!("{:?}", o.st.create_edge(n(1), n(0), "K")), false, false),
        ("delete_edge(0)", |o, _| format!("{}", o.st.delete_edge(EdgeId::new(0))), false, false),
        ("delete_node_edges(0)", |o, _| unit(o.st.delete_node_edges(n(0))), false, false),
        ("create_property_index(k)", |o, _| unit(o.st.create_property_index("k")), false, false),
        ("drop_property_index(k)", |o, _| format!("{}", o.st.drop_property_index("k")), false, false),
        ("compute_statistics()", |o, _| unit(o.st.compute_statistics()), false, false),
        ("set_edge_property(0,w,1)", |o, _| unit(o.st.set_edge_property(EdgeId::new(0), "w", Value::Int64(1))), false, false),
        ("read:nodes_by_label(L)", |o, _| format!("{:?}", o.st.nodes_by_label("L").iter().map(|x| x.as_u64()).collect::<Vec<_>>()), false, false),
        ("read:find_nodes_by_property(k,0)", |o, _| { let mut v: Vec<u64> = o.st.find_nodes_by_property("k", &Value::Int64(0)).iter().map(|x| x.as_u64()).collect(); v.sort(); format!("{v:?}") }, false, false),
        ("read:edges_from(0)", |o, _| { let mut v: Vec<(u64, u64)> = o.st.edges_from(n(0), Direction::Outgoing).map(|(d, e)| (d.as_u64(), e.as_u64())).collect(); v.sort(); format!("{v:?}") }, false, false),
        ("read:get_node(2)", |o, _| o.st.get_node(n(2)).map_or("None".to_string(), |x| { let mut l: Vec<String> = x.labels.iter().map(|s| s.to_string()).collect(); l.sort(); format!("{l:?}{:?}", x.properties.iter().map(|(k, v)| format!("{}={v:?}", k.as_str())).collect::<Vec<_>>()) }), false, false),
        ("read:node_count+edge_count", |o, _| format!("{}/{}", o.st.node_count(), o.st.edge_count()), false, false),
    ]
}

/// Thorough tier: every writer/writer pair of the matrix with a third thread that reads the contended node while both
/// writers run (the reader must see a state some sequential order explains).
pub fn lpg_matrix_scenarios_three() -> Vec<Scenario<Lpg>> {
    let ops = lpg_matrix_ops();
    let reader: fn(&Lpg, usize) -> String = |o, _| {
        o.st.get_node(n(2)).map_or("None".to_string(), |x| {
            let mut l: Vec<String> = x.labels.iter().map(|s| s.to_string()).collect();
            l.sort();
            format!("{l:?}{:?}", x.properties.iter().map(|(k, v)| format!("{}={v:?}", k.as_str())).collect::<Vec<_>>())
        })
    };
    let mut v = vec![];
    for (base, make) in [("plain", lpg_matrix_base as fn() -> Lpg), ("indexed", lpg_matrix_base_indexed as fn() -> Lpg)] {
        for i in 0..ops.len() {
            for j in i..ops.len() {
                let (a, b) = (&ops[i], &ops[j]);
                if a.0.starts_with("read:") || b.0.starts_with("read:") {
                    continue;
                }
                if (a.3 && b.2) || (b.3 && a.2) {
                    continue;
                }
                let name: &'static str = Box::leak(format!("M3-{base}:{}||{}||reader", a.0, b.0).into_boxed_str());
                let bname: &'static str = if i == j { Box::leak(format!("{}'", b.0).into_boxed_str()) } else { b.0 };
                v.push(Scenario {
                    name,
                    what: "operation-pair matrix with a concurrent get_node(2) reader: three-thread linearizability",
                    make,
                    threads: vec![vec![Op { name: a.0, f: a.1 }], vec![Op { name: bname, f: b.1 }], vec![Op { name: "read:get_node(2)", f: reader }]],
                    observe: lpg_observe,
                    invariants: lpg_invariants,
                    linearizable: true,
                });
            }
        }
    }
    v
}

pub fn lpg_matrix_scenarios() -> Vec<Scenario<Lpg>> {
    let ops = lpg_matrix_ops();
    let mut v = vec![];
    for (base, make) in [("plain", lpg_matrix_base as fn() -> Lpg), ("indexed", lpg_matrix_base_indexed as fn() -> Lpg)] {
        for i in 0..ops.len() {
            for j in i..ops.len() {
                let (a, b) = (&ops[i], &ops[j]);
                // two reads never conflict
                if a.0.starts_with("read:") && b.0.starts_with("read:") {
                    continue;
                }
                // property writes on a deleted node are outside the documented domain (kept in S2b, invariants only)
                if (a.3 && b.2) || (b.3 && a.2) {
                    continue;
                }
                let name: &'static str = Box::leak(format!("M-{base}:{}||{}", a.0, b.0).into_boxed_str());
                let bname: &'static str = if i == j { Box::leak(format!("{}'", b.0).into_boxed_str()) } else { b.0 };
                v.push(Scenario {
                    name,
                    what: "operation-pair matrix: both operations collide on node 2 / edge 0 / key k; linearizable, lookup structures agree with the primary data, no panic, no deadlock",
                    make,
                    threads: vec![vec![Op { name: a.0, f: a.1 }], vec![Op { name: bname, f: b.1 }]],
                    observe: lpg_observe,
                    invariants: lpg_invariants,
                    linearizable: true,
                });
            }
        }
    }
    v
}

// ---------------------------------------------------------------------------
// RDF store scenarios (S6)
// ---------------------------------------------------------------------------

pub struct Rdf {
    pub st: RdfStore,
}
fn tr(i: u8) -> Triple {
    match i {
        0 => Triple::new(Term::iri("http://ex/a"), Term::iri("http://ex/p"), Term::literal("x")),
        _ => Triple::new(Term::iri("http://ex/a"), Term::iri("http://ex/p"), Term::literal("y")),
    }
}
fn rdf_observe(o: &Rdf) -> String {
    let mut t: Vec<String> = o.st.triples().iter().map(|t| t.to_string()).collect();
    t.sort();
    format!("{t:?}")
}
fn rdf_invariants(o: &Rdf, _r: &[Vec<String>]) -> Vec<(String, String)> {
    let st = &o.st;
    let mut out = vec![];
    let mut primary: Vec<String> = st.triples().iter().map(|t| t.to_string()).collect();
    primary.sort();
    let pats: Vec<(&str, TriplePattern)> = vec![
        ("subject", TriplePattern { subject: Some(Term::iri("http://ex/a")), predicate: None, object: None }),
        ("predicate", TriplePattern { subject: None, predicate: Some(Term::iri("http://ex/p")), object: None }),
        ("object-x", TriplePattern { subject: None, predicate: None, object: Some(Term::literal("x")) }),
        ("object-y", TriplePattern { subject: None, predicate: None, object: Some(Term::literal("y")) }),
    ];
    let mut via_obj: Vec<String> = vec![];
    for (name, p) in &pats {
        let mut got: Vec<String> = st.find(p).iter().map(|t| t.to_string()).collect();
        got.sort();
        if name.starts_with("object") {
            via_obj.extend(got);
            continue;
        }
        if got != primary {
            out.push(("rdf-index-torn".into(), format!("{name} index returns {got:?} but the primary set is {primary:?}")));
        }
    }
    via_obj.sort();
    if via_obj != primary {
        out.push(("rdf-index-torn".into(), format!("object index returns {via_obj:?} but the primary set is {primary:?}")));
    }
    if st.len() != primary.len() {
        out.push(("rdf-len-mismatch".into(), format!("len() = {}, triples() has {}", st.len(), primary.len())));
    }
    out
}

pub fn rdf_scenarios(three: bool) -> Vec<Scenario<Rdf>> {
    let mut v = vec![];
    v.push(Scenario {
        name: "S6a-insert-vs-remove",
        what: "insert(t) || remove(t) of the same triple: indexes agree with the primary set",
        make: || Rdf { st: RdfStore::new() },
        threads: vec![vec![Op { name: "insert(t0)", f: |o: &Rdf, _| format!("{}", o.st.insert(tr(0))) }], vec![Op { name: "remove(t0)", f: |o: &Rdf, _| format!("{}", o.st.remove(&tr(0))) }]],
        observe: rdf_observe,
        invariants: rdf_invariants,
        linearizable: true,
    });
    let mut t = vec![vec![Op { name: "insert(t0)", f: |o: &Rdf, _| format!("{}", o.st.insert(tr(0))) }], vec![Op { name: "insert(t0)'", f: |o: &Rdf, _| format!("{}", o.st.insert(tr(0))) }]];
    if three {
        t.push(vec![Op { name: "remove(t0)", f: |o: &Rdf, _| format!("{}", o.st.remove(&tr(0))) }]);
    }
    v.push(Scenario { name: "S6b-insert-insert", what: "two inserts of the same triple (+ a remover): stored once, indexed once", make: || Rdf { st: RdfStore::new() }, threads: t, observe: rdf_observe, invariants: rdf_invariants, linearizable: true });
    v.push(Scenario {
        name: "S6c-insert-vs-clear",
        what: "insert(t1) || clear(): indexes agree with the primary set",
        make: || {
            let st = RdfStore::new();
            st.insert(tr(0));
            Rdf { st }
        },
        threads: vec![
            vec![Op { name: "insert(t1)", f: |o: &Rdf, _| format!("{}", o.st.insert(tr(1))) }],
            vec![Op {
                name: "clear()",
                f: |o: &Rdf, _| {
                    o.st.clear();
                    "()".into()
                },
            }],
        ],
        observe: rdf_observe,
        invariants: rdf_invariants,
        linearizable: true,
    });
    v
}

/// RDF operation-pair matrix: every unordered pair of the public mutators (direct and transactional) and readers,
/// all on the two triples t0 / t1 (same subject and predicate, so every index bucket is shared), on a store that
/// already holds t0 and has a pending transactional insert of t1 (tx 9) and removal of t0 (tx 8).
pub fn rdf_matrix_scenarios() -> Vec<Scenario<Rdf>> {
    fn base() -> Rdf {
        let st = RdfStore::new();
        st.insert(tr(0));
        st.insert_in_tx(TxId::new(9), tr(1));
        st.remove_in_tx(TxId::new(8), tr(0));
        Rdf { st }
    }
    fn show(v: Vec<Arc<Triple>>) -> String {
        let mut t: Vec<String> = v.iter().map(|t| t.to_string()).collect();
        t.sort();
        format!("{t:?}")
    }
    let ops: Vec<(&'static str, fn(&Rdf, usize) -> String)> = vec![
        ("insert(t0)", |o, _| format!("{}", o.st.insert(tr(0)))),
        ("insert(t1)", |o, _| format!("{}", o.st.insert(tr(1)))),
        ("remove(t0)", |o, _| format!("{}", o.st.remove(&tr(0)))),
        ("remove(t1)", |o, _| format!("{}", o.st.remove(&tr(1)))),
        ("clear()", |o, _| { o.st.clear(); "()".into() }),
        ("commit_tx(9:+t1)", |o, _| { o.st.commit_tx(TxId::new(9)); "()".into() }),
        ("commit_tx(8:-t0)", |o, _| { o.st.commit_tx(TxId::new(8)); "()".into() }),
        ("rollback_tx(9)", |o, _| { o.st.rollback_tx(TxId::new(9)); "()".into() }),
        ("insert_in_tx(9,t0)", |o, _| { o.st.insert_in_tx(TxId::new(9), tr(0)); "()".into() }),
        ("read:len", |o, _| format!("{}", o.st.len())),
        ("read:contains(t0)", |o, _| format!("{}", o.st.contains(&tr(0)))),
        ("read:find(subject)", |o, _| show(o.st.find(&TriplePattern { subject: Some(Term::iri("http://ex/a")), predicate: None, object: None }))),
        ("read:find(object-y)", |o, _| show(o.st.find(&TriplePattern { subject: None, predicate: None, object: Some(Term::literal("y")) }))),
        ("read:triples_with_predicate", |o, _| show(o.st.triples_with_predicate(&Term::iri("http://ex/p")))),
        ("read:stats", |o, _| { let s = o.st.stats(); format!("{}/{}/{}/{}", s.triple_count, s.subject_count, s.predicate_count, s.object_count) }),
    ];
    let mut v = vec![];
    for i in 0..ops.len() {
        for j in i..ops.len() {
            let (a, b) = (&ops[i], &ops[j]);
            if a.0.starts_with("read:") && b.0.starts_with("read:") {
                continue;
            }
            let name: &'static str = Box::leak(format!("MR:{}||{}", a.0, b.0).into_boxed_str());
            let bname: &'static str = if i == j { Box::leak(format!("{}'", b.0).into_boxed_str()) } else { b.0 };
            v.push(Scenario {
                name,
                what: "RDF operation-pair matrix on two triples sharing subject and predicate: linearizable, every index agrees with the primary set, no panic, no deadlock",
                make: base,
                threads: vec![vec![Op { name: a.0, f: a.1 }], vec![Op { name: bname, f: b.1 }]],
                observe: rdf_observe,
                invariants: rdf_invariants,
                linearizable: true,
            });
        }
    }
    v
}

// ---------------------------------------------------------------------------
// Transaction manager scenarios (S7; threaded layer of C03/C04)
// ---------------------------------------------------------------------------

pub struct Txm {
    pub mgr: TransactionManager,
    pub slots: Vec<Mutex<Option<TxId>>>,
    pub committed: Mutex<Vec<(usize, u64)>>,
}
fn txm_make() -> Txm {
    Txm { mgr: TransactionManager::new(), slots: (0..4).map(|_| Mutex::new(None)).collect(), committed: Mutex::new(vec![]) }
}
fn txm_observe(o: &Txm) -> String {
    format!("epoch={} active={}", o.mgr.current_epoch().as_u64(), o.mgr.active_count())
}
fn txm_invariants(o: &Txm, results: &[Vec<String>]) -> Vec<(String, String)> {
    let mut out = vec![];
    let c = o.committed.lock().unwrap().clone();
    // both writers wrote entity X while overlapping? overlap is guaranteed only if both began before either committed;
    // the linearizability oracle covers the general case. Epoch uniqueness is unconditional:
    let mut epochs: Vec<u64> = c.iter().map(|x| x.1).collect();
    epochs.sort();
    let before = epochs.len();
    epochs.dedup();
    if epochs.len() != before {
        out.push(("duplicate-commit-epoch".into(), format!("commit epochs handed out: {c:?}")));
    }
    if let Some(max) = epochs.last() {
        if o.mgr.current_epoch().as_u64() < *max {
            out.push(("epoch-went-backwards".into(), format!("current_epoch {} < a returned commit epoch {max}", o.mgr.current_epoch().as_u64())));
        }
    }
    let _ = results;
    out
}
fn x() -> EntityId {
    EntityId::Node(NodeId::new(7))
}
fn op_begin(o: &Txm, t: usize) -> String {
    let id = o.mgr.begin();
    *o.slots[t].lock().unwrap() = Some(id);
    "begun".into() // the id itself depends on the order and is not part of the contract
}
fn op_write(o: &Txm, t: usize) -> String {
    let id = o.slots[t].lock().unwrap().unwrap();
    format!("{}", o.mgr.record_write(id, x()).is_ok())
}
fn op_commit(o: &Txm, t: usize) -> String {
    let id = o.slots[t].lock().unwrap().unwrap();
    match o.mgr.commit(id) {
        Ok(e) => {
            o.committed.lock().unwrap().push((t, e.as_u64()));
            "committed".into()
        }
        Err(e) => format!("refused:{}", if format!("{e:?}").contains("WriteConflict") { "write-conflict" } else { "other" }),
    }
}
fn op_gc(o: &Txm, _t: usize) -> String {
    o.mgr.gc();
    "gc".into()
}

pub fn txm_scenarios(three: bool) -> Vec<Scenario<Txm>> {
    let w = || vec![Op { name: "begin", f: op_begin as fn(&Txm, usize) -> String }, Op { name: "write(x)", f: op_write }, Op { name: "commit", f: op_commit }];
    let mut threads = vec![w(), w()];
    if three {
        threads.push(vec![Op { name: "gc", f: op_gc }]);
    }
    vec![Scenario {
        name: "S7-two-writers-gc",
        what: "two threads each begin; write(x); commit (+ a gc thread): outcome explained by a sequential order, so two overlapping writers never both commit; commit epochs unique and increasing",
        make: txm_make,
        threads,
        observe: txm_observe,
        invariants: txm_invariants,
        linearizable: true,
    }]
}

// ---------------------------------------------------------------------------
// Buffer manager scenarios (S8)
// ---------------------------------------------------------------------------

pub struct Bm {
    pub mgr: Arc<BufferManager>,
    pub grants: Vec<Mutex<Vec<MemoryGrant>>>,
    pub hard: usize,
}
fn bm_make() -> Bm {
    let cfg = BufferManagerConfig { budget: 1000, soft_limit_fraction: 0.70, evict_limit_fraction: 0.85, hard_limit_fraction: 1.0, background_eviction: false, spill_path: None };
    Bm { mgr: BufferManager::new(cfg), grants: (0..4).map(|_| Mutex::new(vec![])).collect(), hard: 1000 }
}
fn bm_observe(o: &Bm) -> String {
    let held: usize = o.grants.iter().map(|g| g.lock().unwrap().iter().map(|x| x.size()).sum::<usize>()).sum();
    format!("allocated={} held={held}", o.mgr.allocated())
}
fn bm_invariants(o: &Bm, _r: &[Vec<String>]) -> Vec<(String, String)> {
    let mut out = vec![];
    let held: usize = o.grants.iter().map(|g| g.lock().unwrap().iter().map(|x| x.size()).sum::<usize>()).sum();
    if held > o.hard {
        out.push(("over-hard-limit".into(), format!("live grants total {held} bytes, hard limit {}", o.hard)));
    }
    if o.mgr.allocated() != held {
        out.push(("accounting-mismatch".into(), format!("allocated() = {} but live grants total {held}", o.mgr.allocated())));
    }
    for g in &o.grants {
        g.lock().unwrap().clear(); // drop all grants
    }
    if o.mgr.allocated() != 0 {
        out.push(("accounting-not-zero-after-release".into(), format!("allocated() = {} after every grant was dropped", o.mgr.allocated())));
    }
    out
}
fn op_alloc600(o: &Bm, t: usize) -> String {
    match o.mgr.try_allocate(600, MemoryRegion::ExecutionBuffers) {
        Some(g) => {
            o.grants[t].lock().unwrap().push(g);
            "granted".into()
        }
        None => "refused".into(),
    }
}
fn op_release(o: &Bm, t: usize) -> String {
    o.grants[t].lock().unwrap().clear();
    "released".into()
}
fn op_resize(o: &Bm, t: usize) -> String {
    let mut g = o.grants[t].lock().unwrap();
    match g.first_mut() {
        Some(gr) => format!("resize:{}", gr.resize(900)),
        None => "no-grant".into(),
    }
}

pub fn bm_scenarios(three: bool) -> Vec<Scenario<Bm>> {
    let mut v = vec![];
    let mut t = vec![vec![Op { name: "try_allocate(600)", f: op_alloc600 as fn(&Bm, usize) -> String }], vec![Op { name: "try_allocate(600)'", f: op_alloc600 }]];
    if three {
        t.push(vec![Op { name: "try_allocate(600)''", f: op_alloc600 }]);
    }
    v.push(Scenario { name: "S8a-allocate-at-limit", what: "concurrent try_allocate(600) against a hard limit of 1000: never more than the limit handed out; accounting returns to zero", make: bm_make, threads: t, observe: bm_observe, invariants: bm_invariants, linearizable: true });
    v.push(Scenario {
        name: "S8b-release-vs-allocate",
        what: "thread 0 allocates then releases, thread 1 allocates: accounting exact",
        make: bm_make,
        threads: vec![vec![Op { name: "try_allocate(600)", f: op_alloc600 }, Op { name: "release", f: op_release }], vec![Op { name: "try_allocate(600)'", f: op_alloc600 }]],
        observe: bm_observe,
        invariants: bm_invariants,
        linearizable: true,
    });
    v.push(Scenario {
        name: "S8c-resize-vs-allocate",
        what: "grant.resize(900) (raw path) || try_allocate(600): never more than the limit handed out",
        make: || {
            let o = bm_make();
            let g = o.mgr.try_allocate(300, MemoryRegion::ExecutionBuffers).expect("initial grant");
            o.grants[0].lock().unwrap().push(g);
            o
        },
        threads: vec![vec![Op { name: "resize(900)", f: op_resize }], vec![Op { name: "try_allocate(600)", f: op_alloc600 }]],
        observe: bm_observe,
        invariants: bm_invariants,
        linearizable: true,
    });
    v
}

// ---------------------------------------------------------------------------
// Catalog / query cache scenarios (S11) and HNSW scenarios (S12)
// ---------------------------------------------------------------------------

use grafeo_common::types::{LabelId, PropertyKeyId};
use grafeo_core::index::vector::{DistanceMetric, HnswConfig, HnswIndex};
use grafeo_engine::catalog::{Catalog, IndexType};
use grafeo_engine::query::cache::{CacheKey, QueryCache};
use grafeo_engine::query::plan::{LogicalOperator, LogicalPlan};
use grafeo_engine::query::processor::QueryLanguage;

pub struct Cat {
    pub cat: Catalog,
    pub cache: QueryCache,
    pub ids: Mutex<Vec<u32>>,
}
fn cat_make() -> Cat {
    let cat = Catalog::new();
    cat.get_or_create_label("L0");
    Cat { cat, cache: QueryCache::new(4), ids: Mutex::new(vec![]) }
}
fn cat_observe(o: &Cat) -> String {
    let mut labels: Vec<String> = o.cat.all_labels().iter().map(|l| l.to_string()).collect();
    labels.sort();
    let l0 = LabelId::new(0);
    let mut idx: Vec<u32> = o.cat.indexes_for_label(l0).iter().map(|i| i.0).collect();
    idx.sort();
    format!("labels={labels:?} label_count={} indexes={} for_l0={idx:?} cached={}", o.cat.label_count(), o.cat.index_count(), o.cache.get_optimized(&key()).is_some())
}
fn cat_invariants(o: &Cat, _r: &[Vec<String>]) -> Vec<(String, String)> {
    let mut out = vec![];
    // name <-> id maps agree, ids dense and unique
    let names = o.cat.all_labels();
    for (i, n) in names.iter().enumerate() {
        if o.cat.get_label_id(n) != Some(LabelId::new(i as u32)) {
            out.push(("catalog-maps-disagree".into(), format!("label {n:?} at position {i} maps to {:?}", o.cat.get_label_id(n))));
        }
    }
    let mut sorted: Vec<String> = names.iter().map(|n| n.to_string()).collect();
    sorted.sort();
    let before = sorted.len();
    sorted.dedup();
    if sorted.len() != before {
        out.push(("duplicate-label".into(), format!("labels {names:?}")));
    }
    // index lookup structures agree with the primary index table
    let l0 = LabelId::new(0);
    let by_label = o.cat.indexes_for_label(l0);
    let by_lp = o.cat.indexes_for_label_property(l0, PropertyKeyId::new(0));
    for id in by_label.iter().chain(by_lp.iter()) {
        if o.cat.get_index(*id).is_none() {
            out.push(("index-lookup-has-dropped-index".into(), format!("index {id:?} is listed for its label but get_index returns None")));
        }
    }
    if by_label.len() != o.cat.index_count() || by_lp.len() != o.cat.index_count() {
        out.push(("index-lookup-torn".into(), format!("index_count = {}, by label = {by_label:?}, by label+property = {by_lp:?}", o.cat.index_count())));
    }
    out
}
fn key() -> CacheKey {
    CacheKey::new("MATCH (n) RETURN n", QueryLanguage::Gql)
}
fn plan() -> LogicalPlan {
    LogicalPlan::new(LogicalOperator::Empty)
}

pub fn cat_scenarios(three: bool) -> Vec<Scenario<Cat>> {
    let mut v = vec![];
    let mut t = vec![
        vec![Op { name: "get_or_create_label(X)", f: (|o: &Cat, _| format!("{}", o.cat.get_or_create_label("X").0 > 0)) as fn(&Cat, usize) -> String }],
        vec![Op { name: "get_or_create_label(X)'", f: |o: &Cat, _| format!("{}", o.cat.get_or_create_label("X").0 > 0) }],
    ];
    if three {
        t.push(vec![Op { name: "get_or_create_label(Y)", f: |o: &Cat, _| format!("{}", o.cat.get_or_create_label("Y").0 > 0) }]);
    }
    v.push(Scenario { name: "S11a-label-registration", what: "two threads register the same new label (+ one another label): one id per name, both maps agree", make: cat_make, threads: t, observe: cat_observe, invariants: cat_invariants, linearizable: true });
    v.push(Scenario {
        name: "S11b-create-drop-index",
        what: "create_index || create_index + drop_index(of the first one seen) || indexes_for_label: the per-label and per-(label,property) lists agree with the index table",
        make: cat_make,
        threads: vec![
            vec![Op {
                name: "create_index",
                f: |o: &Cat, _| {
                    let id = o.cat.create_index(LabelId::new(0), PropertyKeyId::new(0), IndexType::Hash);
                    o.ids.lock().unwrap().push(id.0);
                    "created".into()
                },
            }],
            vec![
                Op {
                    name: "create_index'",
                    f: |o: &Cat, _| {
                        let id = o.cat.create_index(LabelId::new(0), PropertyKeyId::new(0), IndexType::BTree);
                        o.ids.lock().unwrap().push(id.0);
                        "created".into()
                    },
                },
                Op {
                    name: "drop_index(own)",
                    f: |o: &Cat, _| {
                        let ids = o.cat.indexes_for_label(LabelId::new(0));
                        // drop the BTree one (ours), whichever id it got
                        let mine = ids.iter().find(|i| o.cat.get_index(**i).is_some_and(|d| matches!(d.index_type, IndexType::BTree)));
                        format!("{}", mine.is_some_and(|i| o.cat.drop_index(*i)))
                    },
                },
            ],
        ],
        observe: |o: &Cat| format!("indexes={} for_l0={}", o.cat.index_count(), o.cat.indexes_for_label(LabelId::new(0)).len()),
        invariants: cat_invariants,
        linearizable: true,
    });
    v.push(Scenario {
        name: "S11c-query-cache",
        what: "put_optimized || get_optimized || invalidate on one key: no deadlock, answers explained by a sequential order",
        make: cat_make,
        threads: vec![
            vec![Op {
                name: "put_optimized",
                f: |o: &Cat, _| {
                    o.cache.put_optimized(key(), plan());
                    "()".into()
                },
            }],
            vec![Op { name: "get_optimized", f: |o: &Cat, _| format!("{}", o.cache.get_optimized(&key()).is_some()) }, Op {
                name: "invalidate",
                f: |o: &Cat, _| {
                    o.cache.invalidate(&key());
                    "()".into()
                },
            }],
        ],
        observe: |o: &Cat| format!("cached={}", o.cache.get_optimized(&key()).is_some()),
        invariants: |_o: &Cat, _r| vec![],
        linearizable: true,
    });
    v
}

pub struct Hn {
    pub idx: HnswIndex,
}
fn hn_make() -> Hn {
    let idx = HnswIndex::with_seed(HnswConfig::new(2, DistanceMetric::Euclidean).with_m(2), 7);
    idx.insert(NodeId::new(0), &[0.0, 0.0]);
    idx.insert(NodeId::new(1), &[1.0, 0.0]);
    idx.insert(NodeId::new(2), &[0.0, 1.0]);
    Hn { idx }
}
fn hn_point(id: u64) -> [f32; 2] {
    match id {
        0 => [0.0, 0.0],
        1 => [1.0, 0.0],
        2 => [0.0, 1.0],
        _ => [2.0, 2.0],
    }
}
/// A search result is sound if ids are distinct, were present at some point, and carry their true distance, sorted.
fn hn_check(res: &[(NodeId, f32)], q: [f32; 2], k: usize) -> Option<String> {
    if res.len() > k {
        return Some(format!("{} results for k = {k}", res.len()));
    }
    let mut seen = vec![];
    let mut last = -1.0f32;
    for (id, d) in res {
        if seen.contains(id) {
            return Some(format!("duplicate id {id:?}"));
        }
        seen.push(*id);
        if id.as_u64() > 3 {
            return Some(format!("unknown id {id:?}"));
        }
        let p = hn_point(id.as_u64());
        let want = ((p[0] - q[0]).powi(2) + (p[1] - q[1]).powi(2)).sqrt();
        if (want - d).abs() > 1e-4 {
            return Some(format!("id {id:?} reported at distance {d}, true distance {want}"));
        }
        if *d < last {
            return Some("distances not sorted".into());
        }
        last = *d;
    }
    None
}
fn op_search(o: &Hn, _t: usize) -> String {
    let q = [0.1f32, 0.1];
    let r = o.idx.search(&q, 3);
    match hn_check(&r, q, 3) {
        Some(e) => format!("UNSOUND: {e}"),
        None => "sound".into(),
    }
}

pub fn hn_scenarios(three: bool) -> Vec<Scenario<Hn>> {
    let mut t = vec![
        vec![Op {
            name: "insert(3)",
            f: (|o: &Hn, _| {
                o.idx.insert(NodeId::new(3), &[2.0, 2.0]);
                "()".into()
            }) as fn(&Hn, usize) -> String,
        }],
        vec![Op { name: "search", f: op_search }],
    ];
    if three {
        t.push(vec![Op { name: "remove(2)", f: |o: &Hn, _| format!("{}", o.idx.remove(NodeId::new(2))) }]);
    }
    let invariants: fn(&Hn, &[Vec<String>]) -> Vec<(String, String)> = |o, r| {
        let mut out = vec![];
        for rs in r {
            for x in rs {
                if let Some(e) = x.strip_prefix("UNSOUND: ") {
                    out.push(("hnsw-unsound-result".into(), e.to_string()));
                }
            }
        }
        // quiescent: every present id is found by an exhaustive search, removed ids never
        let q = [0.1f32, 0.1];
        let res = o.idx.search_with_ef(&q, 4, 16);
        if let Some(e) = hn_check(&res, q, 4) {
            out.push(("hnsw-unsound-result".into(), format!("after quiescence: {e}")));
        }
        for (id, _) in &res {
            if !o.idx.contains(*id) {
                out.push(("hnsw-removed-id-returned".into(), format!("search returns {id:?} which contains() denies")));
            }
        }
        out
    };
    vec![Scenario {
        name: "S12-hnsw-insert-search-remove",
        what: "insert(3) || search (|| remove(2)) on a 3-vector index: results sound (distinct known ids, true distances, sorted), no deadlock, no panic; removed ids never returned afterwards",
        make: hn_make,
        threads: t,
        observe: |o: &Hn| format!("len={}", o.idx.len()),
        invariants,
        linearizable: false,
    }]
}

// ---------------------------------------------------------------------------
// S9: database-level scenarios - the public GrafeoDB API and auto-commit GQL statements from two threads
// (statement pipeline: parse -> bind -> optimize -> plan -> execute against the shared store, catalog and caches)
// ---------------------------------------------------------------------------

use grafeo_engine::GrafeoDB;

pub struct Db {
    pub db: GrafeoDB,
}
fn db_make() -> Db {
    // nodes 0,1 (L, k=0 / k=1), edge 0: 0->1 ; node 2 (L, k=0) detached
    let db = GrafeoDB::new_in_memory();
    let a = db.create_node(&["L"]);
    let b = db.create_node(&["L"]);
    let c = db.create_node(&["L"]);
    db.create_edge(a, b, "K");
    db.set_node_property(a, "k", Value::Int64(0));
    db.set_node_property(b, "k", Value::Int64(1));
    db.set_node_property(c, "k", Value::Int64(0));
    Db { db }
}
fn db_observe(o: &Db) -> String {
    store_observe(o.db.store())
}
fn db_invariants(o: &Db, _r: &[Vec<String>]) -> Vec<(String, String)> {
    store_invariants(o.db.store())
}
fn q(o: &Db, text: &str) -> String {
    match o.db.execute(text) {
        Ok(r) => {
            let mut rows: Vec<String> = r.rows.iter().map(|row| format!("{row:?}")).collect();
            rows.sort();
            format!("ok{rows:?}")
        }
        Err(e) => format!("err:{}", e.to_string().chars().take(60).collect::<String>()),
    }
}

pub fn db_scenarios() -> Vec<Scenario<Db>> {
    let ops: Vec<(&'static str, fn(&Db, usize) -> String)> = vec![
        ("gql:INSERT(:L{k:5})", |o, _| q(o, "INSERT (:L {k: 5})")),
        ("gql:INSERT(:M{k:6})", |o, _| q(o, "INSERT (:M {k: 6})")),
        ("gql:count(L)", |o, _| q(o, "MATCH (n:L) RETURN COUNT(n)")),
        ("gql:SET k=7 WHERE k=0", |o, _| q(o, "MATCH (n:L) WHERE n.k = 0 SET n.k = 7")),
        ("gql:DETACH DELETE k=0", |o, _| q(o, "MATCH (n:L) WHERE n.k = 0 DETACH DELETE n")),
        ("gql:one-hop", |o, _| q(o, "MATCH (a)-[:K]->(b) RETURN a.k, b.k")),
        ("api:create_node(L)", |o, _| { o.db.create_node(&["L"]); "created".into() }),
        ("api:delete_node(0)", |o, _| format!("{}", o.db.delete_node(n(0)))),
        ("api:create_edge(2,0)", |o, _| { o.db.create_edge(n(2), n(0), "K"); "created".into() }),
        ("api:set(2,k,9)", |o, _| { o.db.set_node_property(n(2), "k", Value::Int64(9)); "()".into() }),
    ];
    let mut v = vec![];
    for i in 0..ops.len() {
        for j in i..ops.len() {
            let (a, b) = (&ops[i], &ops[j]);
            let read = |s: &str| s == "gql:count(L)" || s == "gql:one-hop";
            if read(a.0) && read(b.0) {
                continue;
            }
            let name: &'static str = Box::leak(format!("S9:{}||{}", a.0, b.0).into_boxed_str());
            let bname: &'static str = if i == j { Box::leak(format!("{}'", b.0).into_boxed_str()) } else { b.0 };
            // An edge created towards a node that is being deleted, and a property written to it, are outside the
            // documented domain of the non-transactional API (the caller must not use an id it is deleting): only
            // the invariants are judged for those pairs.
            let touches_deleted = |s: &str| s == "api:create_edge(2,0)" || s == "api:set(2,k,9)";
            let deletes = |s: &str| s == "api:delete_node(0)" || s == "gql:DETACH DELETE k=0";
            let lin = !((touches_deleted(a.0) && deletes(b.0)) || (touches_deleted(b.0) && deletes(a.0)));
            v.push(Scenario {
                name,
                what: "database-level pair: auto-commit GQL statements and GrafeoDB API calls from two threads; linearizable, lookup structures agree, no panic, no deadlock",
                make: db_make,
                threads: vec![vec![Op { name: a.0, f: a.1 }], vec![Op { name: bname, f: b.1 }]],
                observe: db_observe,
                invariants: db_invariants,
                linearizable: lin,
            });
        }
    }
    v
}
