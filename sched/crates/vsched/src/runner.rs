//! Generic scenario runner: explores all interleavings of a small multi-threaded
//! scenario up to a preemption bound and checks (1) linearizability by brute
//! force against sequential executions of the real object, (2) quiescent
//! invariants, (3) no panic / no deadlock.

use crate::sched::{PbDfs, Shared};
use serde_json::{Value, json};
use shuttle::{Config, FailurePersistence, MaxSteps, Runner};
use std::collections::{BTreeMap, BTreeSet};
use std::sync::atomic::{AtomicUsize, Ordering};
use std::sync::{Arc, Mutex};
use vcore::{Report, Violation};

/// Deterministic source for ahash's per-map seeds: grafeo's FxHashMap is `ahash::RandomState::new()`
/// per instance, whose default source mixes in stack addresses.  Under the controlled scheduler every
/// execution must see the same hash iteration orders for the same schedule prefix, so the seed
/// counter is reset at the start of every execution.
static HASH_SEED: AtomicUsize = AtomicUsize::new(0);
struct DetSource;
impl ahash::random_state::RandomSource for DetSource {
    fn gen_hasher_seed(&self) -> usize {
        HASH_SEED.fetch_add(0x9E37_79B9_7F4A_7C15, Ordering::Relaxed)
    }
}
pub fn install_deterministic_hashing() {
    if ahash::random_state::set_random_source(DetSource).is_err() {
        vcore::machinery_failure("could not install the deterministic ahash seed source (a RandomState was created earlier)");
    }
}
fn reset_hash_seeds() {
    HASH_SEED.store(0x1234_5678, Ordering::Relaxed);
}

pub struct Op<O> {
    pub name: &'static str,
    pub f: fn(&O, usize) -> String,
}

pub struct Scenario<O: Send + Sync + 'static> {
    pub name: &'static str,
    pub what: &'static str,
    pub make: fn() -> O,
    pub threads: Vec<Vec<Op<O>>>,
    /// canonical (sorted) final observation through the public API
    pub observe: fn(&O) -> String,
    /// quiescent invariants: (kind, detail) for each violated one; gets per-op results
    pub invariants: fn(&O, &[Vec<String>]) -> Vec<(String, String)>,
    /// apply the brute-force linearizability oracle
    pub linearizable: bool,
}

fn config() -> Config {
    let mut c = Config::new();
    c.stack_size = 1 << 20;
    c.failure_persistence = FailurePersistence::None;
    c.max_steps = MaxSteps::FailAfter(200_000);
    c.silence_warnings = true;
    c
}

#[derive(Default)]
struct ExecRecord {
    results: Vec<Vec<String>>,
    stamps: Vec<Vec<(usize, usize)>>,
    obs: String,
    inv: Vec<(String, String)>,
    choices: Vec<usize>,
    completed: bool,
}

fn run_op<O>(op: &Op<O>, o: &O, t: usize) -> String {
    match std::panic::catch_unwind(std::panic::AssertUnwindSafe(|| (op.f)(o, t))) {
        Ok(s) => s,
        Err(e) => {
            let msg = if let Some(s) = e.downcast_ref::<&str>() {
                s.to_string()
            } else if let Some(s) = e.downcast_ref::<String>() {
                s.clone()
            } else {
                "non-string panic".into()
            };
            format!("PANIC: {msg}")
        }
    }
}

/// All interleavings (as sequences of thread indexes) of per-thread op counts.
fn interleavings(counts: &[usize]) -> Vec<Vec<usize>> {
    fn rec(rem: &mut Vec<usize>, cur: &mut Vec<usize>, out: &mut Vec<Vec<usize>>) {
        if rem.iter().all(|c| *c == 0) {
            out.push(cur.clone());
            return;
        }
        for t in 0..rem.len() {
            if rem[t] > 0 {
                rem[t] -= 1;
                cur.push(t);
                rec(rem, cur, out);
                cur.pop();
                rem[t] += 1;
            }
        }
    }
    let mut out = vec![];
    rec(&mut counts.to_vec(), &mut vec![], &mut out);
    out
}

fn outcome_string(results: &[Vec<String>], obs: &str) -> String {
    format!("{results:?} || {obs}")
}

/// Sequential reference: every interleaving at operation granularity on a fresh instance.
fn sequential_outcomes<O: Send + Sync + 'static>(sc: &Arc<Scenario<O>>) -> Vec<(Vec<usize>, String)> {
    let counts: Vec<usize> = sc.threads.iter().map(|t| t.len()).collect();
    let orders = interleavings(&counts);
    let out: Arc<Mutex<Vec<(Vec<usize>, String)>>> = Arc::new(Mutex::new(vec![]));
    let out2 = out.clone();
    let sc2 = sc.clone();
    let runner = Runner::new(PbDfs::new(0), config());
    runner.run(move || {
        let mut acc = vec![];
        for ord in &orders {
            reset_hash_seeds();
            let o = (sc2.make)();
            let mut idx = vec![0usize; sc2.threads.len()];
            let mut results: Vec<Vec<String>> = sc2.threads.iter().map(|_| vec![]).collect();
            for &t in ord {
                let op = &sc2.threads[t][idx[t]];
                idx[t] += 1;
                results[t].push(run_op(op, &o, t));
            }
            let obs = (sc2.observe)(&o);
            acc.push((ord.clone(), outcome_string(&results, &obs)));
        }
        *out2.lock().unwrap() = acc;
    });
    let v = out.lock().unwrap().clone();
    v
}

pub struct ScenarioStats {
    pub schedules: u64,
    pub outcomes: usize,
    pub max_points: usize,
    pub seq_outcomes: usize,
}

fn exec_body<O: Send + Sync + 'static>(sc: &Arc<Scenario<O>>, sched: &Arc<Mutex<PbDfs>>, sink: &Arc<Mutex<ExecRecord>>) {
    reset_hash_seeds();
    let o = Arc::new((sc.make)());
    let clock = Arc::new(AtomicUsize::new(0));
    let nthreads = sc.threads.len();
    let results: Arc<Mutex<Vec<Vec<String>>>> = Arc::new(Mutex::new(vec![vec![]; nthreads]));
    let stamps: Arc<Mutex<Vec<Vec<(usize, usize)>>>> = Arc::new(Mutex::new(vec![vec![]; nthreads]));
    let mut handles = vec![];
    for t in 0..nthreads {
        let (o, sc, clock, results, stamps) = (o.clone(), sc.clone(), clock.clone(), results.clone(), stamps.clone());
        handles.push(shuttle::thread::spawn(move || {
            for op in &sc.threads[t] {
                let call = clock.fetch_add(1, Ordering::SeqCst);
                let r = run_op(op, &o, t);
                let ret = clock.fetch_add(1, Ordering::SeqCst);
                results.lock().unwrap()[t].push(r);
                stamps.lock().unwrap()[t].push((call, ret));
            }
        }));
    }
    for h in handles {
        let _ = h.join();
    }
    let results = results.lock().unwrap().clone();
    let obs = (sc.observe)(&o);
    let inv = (sc.invariants)(&o, &results);
    let mut s = sink.lock().unwrap();
    s.results = results;
    s.stamps = stamps.lock().unwrap().clone();
    s.obs = obs;
    s.inv = inv;
    s.choices = sched.lock().unwrap().current_choices();
    s.completed = true;
}

fn case_json<O: Send + Sync + 'static>(sc: &Scenario<O>, bound: usize, choices: &[usize]) -> Value {
    json!({"engine": "SCHED", "scenario": sc.name, "bound": bound, "choices": choices,
           "threads": sc.threads.iter().map(|t| t.iter().map(|o| o.name).collect::<Vec<_>>()).collect::<Vec<_>>()})
}

/// Judge one completed execution.
fn judge<O: Send + Sync + 'static>(sc: &Scenario<O>, rec: &ExecRecord, seq: &[(Vec<usize>, String)], bound: usize) -> Vec<Violation> {
    let mut out = vec![];
    let case = case_json(sc, bound, &rec.choices);
    for (t, rs) in rec.results.iter().enumerate() {
        for (i, r) in rs.iter().enumerate() {
            if let Some(msg) = r.strip_prefix("PANIC: ") {
                let norm: String = msg.chars().map(|c| if c.is_ascii_digit() { '#' } else { c }).take(80).collect();
                out.push(Violation::new(&[("layer", "sched"), ("scenario", sc.name), ("kind", "panic"), ("op", sc.threads[t][i].name), ("msg", &norm)], case.clone(), format!("operation {} panicked: {msg}", sc.threads[t][i].name)));
            }
        }
    }
    for (k, d) in &rec.inv {
        out.push(Violation::new(&[("layer", "sched"), ("scenario", sc.name), ("kind", k)], case.clone(), d.clone()));
    }
    if sc.linearizable && out.is_empty() {
        let got = outcome_string(&rec.results, &rec.obs);
        let ok = seq.iter().any(|(ord, oc)| {
            if *oc != got {
                return false;
            }
            // real-time order: if op a returned before op b was called, a must precede b in the linearization
            let mut idx = vec![0usize; rec.stamps.len()];
            let mut seen: Vec<(usize, usize)> = vec![]; // (call, ret) of ops already placed
            for &t in ord {
                let (call, ret) = rec.stamps[t][idx[t]];
                idx[t] += 1;
                // an op placed earlier must not have been called after this one returned
                if seen.iter().any(|(c2, _)| *c2 > ret) {
                    return false;
                }
                seen.push((call, ret));
            }
            true
        });
        if !ok {
            out.push(Violation::new(
                &[("layer", "sched"), ("scenario", sc.name), ("kind", "not-linearizable")],
                case.clone(),
                format!("outcome {got} is not produced by any sequential order of the operations consistent with real time"),
            ));
        }
    }
    out
}

pub fn run_scenario<O: Send + Sync + 'static>(sc: Scenario<O>, bound: usize, max_schedules: u64, rep: &mut Report) -> ScenarioStats {
    let sc = Arc::new(sc);
    let seq = if sc.linearizable { sequential_outcomes(&sc) } else { vec![] };
    let seq_distinct: BTreeSet<&String> = seq.iter().map(|x| &x.1).collect();
    let sched = Arc::new(Mutex::new(PbDfs::new(bound)));
    let sink = Arc::new(Mutex::new(ExecRecord::default()));
    let mut outcomes: BTreeMap<String, u64> = BTreeMap::new();
    let mut schedules = 0u64;
    let mut capped = false;
    // One Runner per execution batch: a deadlock (or step overflow) panics out of Runner::run, and we resume
    // the DFS from the shared scheduler state with a fresh Runner.
    loop {
        if sched.lock().unwrap().is_done() {
            break;
        }
        let (sc2, sched2, sink2) = (sc.clone(), sched.clone(), sink.clone());
        let judged: Arc<Mutex<Vec<(ExecRecord, ())>>> = Arc::new(Mutex::new(vec![]));
        let judged2 = judged.clone();
        let budget = Arc::new(AtomicUsize::new(0));
        let budget2 = budget.clone();
        let res = std::panic::catch_unwind(std::panic::AssertUnwindSafe(|| {
            let runner = Runner::new(Shared(sched.clone()), config());
            runner.run(move || {
                *sink2.lock().unwrap() = ExecRecord::default();
                exec_body(&sc2, &sched2, &sink2);
                let rec = std::mem::take(&mut *sink2.lock().unwrap());
                judged2.lock().unwrap().push((rec, ()));
                budget2.fetch_add(1, Ordering::Relaxed);
            });
        }));
        // process what completed
        for (rec, _) in judged.lock().unwrap().drain(..) {
            schedules += 1;
            rep.evaluations += 1;
            rep.transitions += rec.choices.len() as u64;
            let oc = outcome_string(&rec.results, &rec.obs);
            *outcomes.entry(oc).or_insert(0) += 1;
            for v in judge(&sc, &rec, &seq, bound) {
                rep.violation(v);
            }
        }
        if let Err(e) = res {
            let msg = if let Some(s) = e.downcast_ref::<&str>() { s.to_string() } else if let Some(s) = e.downcast_ref::<String>() { s.clone() } else { "panic".into() };
            let choices = sched.lock().unwrap().current_choices();
            schedules += 1;
            rep.evaluations += 1;
            let kind = if msg.contains("deadlock") { "deadlock" } else if msg.contains("exceeded max_steps") { "livelock-or-step-bound" } else { "engine-panic" };
            let norm: String = msg.chars().map(|c| if c.is_ascii_digit() { '#' } else { c }).take(100).collect();
            rep.violation(Violation::new(&[("layer", "sched"), ("scenario", sc.name), ("kind", kind), ("msg", &norm)], case_json(&sc, bound, &choices), format!("execution aborted: {msg}")));
        }
        if schedules >= max_schedules {
            capped = !sched.lock().unwrap().is_done();
            break;
        }
    }
    let (max_points, divergence) = {
        let s = sched.lock().unwrap();
        (s.max_points, s.divergence)
    };
    if divergence {
        vcore::machinery_failure(&format!("scenario {}: scheduling options differed when replaying a prefix (uncontrolled nondeterminism)", sc.name));
    }
    if capped {
        rep.exhaustive = false;
    }
    for oc in outcomes.keys() {
        rep.nontrivial(&(sc.name, oc));
    }
    rep.states += outcomes.len() as u64;
    let mut scen = rep.extra.get("scenarios").and_then(|x| x.as_array()).cloned().unwrap_or_default();
    scen.push(json!({
        "scenario": sc.name, "what": sc.what, "threads": sc.threads.iter().map(|t| t.iter().map(|o| o.name).collect::<Vec<_>>()).collect::<Vec<_>>(),
        "preemption_bound": bound, "schedules": schedules, "distinct_outcomes": outcomes.len(), "max_scheduling_points": max_points,
        "sequential_orders": seq.len(), "distinct_sequential_outcomes": seq_distinct.len(), "capped": capped,
    }));
    rep.set("scenarios", Value::Array(scen));
    if rep.samples.len() < 6 {
        if let Some((oc, n)) = outcomes.iter().next() {
            rep.sample(json!({"scenario": sc.name, "one_outcome": vcore::truncate(oc, 300), "schedules_with_it": n}));
        }
    }
    ScenarioStats { schedules, outcomes: outcomes.len(), max_points, seq_outcomes: seq_distinct.len() }
}

/// Replays one recorded schedule twice; returns the violations (must agree).
pub fn replay_scenario<O: Send + Sync + 'static>(sc: Scenario<O>, choices: Vec<usize>, bound: usize) -> Vec<Violation> {
    let sc = Arc::new(sc);
    let seq = if sc.linearizable { sequential_outcomes(&sc) } else { vec![] };
    let mut runs = vec![];
    for _ in 0..2 {
        let sched = Arc::new(Mutex::new(PbDfs::replaying(choices.clone())));
        let sink = Arc::new(Mutex::new(ExecRecord::default()));
        let (sc2, sched2, sink2) = (sc.clone(), sched.clone(), sink.clone());
        let res = std::panic::catch_unwind(std::panic::AssertUnwindSafe(|| {
            Runner::new(Shared(sched.clone()), config()).run(move || exec_body(&sc2, &sched2, &sink2));
        }));
        let rec = std::mem::take(&mut *sink.lock().unwrap());
        let mut v = vec![];
        if let Err(e) = res {
            let msg = if let Some(s) = e.downcast_ref::<&str>() { s.to_string() } else if let Some(s) = e.downcast_ref::<String>() { s.clone() } else { "panic".into() };
            let kind = if msg.contains("deadlock") { "deadlock" } else { "engine-panic" };
            v.push(Violation::new(&[("layer", "sched"), ("scenario", sc.name), ("kind", kind)], case_json(&sc, bound, &choices), msg));
        } else if rec.completed {
            v = judge(&sc, &rec, &seq, bound);
        }
        runs.push(v);
    }
    let a: Vec<String> = runs[0].iter().map(|v| v.sig_string()).collect();
    let b: Vec<String> = runs[1].iter().map(|v| v.sig_string()).collect();
    if a != b {
        vcore::machinery_failure("replaying the same schedule twice gave different observations");
    }
    runs.remove(0)
}
