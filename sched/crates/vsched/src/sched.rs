//! Preemption-bounded depth-first scheduler (iterative context bounding) on
//! top of shuttle's `Scheduler` trait, plus the generic scenario runner.

use shuttle::scheduler::{Schedule, Scheduler, Task, TaskId};
use std::sync::{Arc, Mutex};

/// Preemption-bounded DFS over choice sequences.
/// Canonical option order at every scheduling point: the running task first (if
/// still runnable), then the other runnable tasks by ascending id.  Choosing a
/// task other than a still-runnable current task costs one preemption.
pub struct PbDfs {
    pub bound: usize,
    /// (chosen index, number of options) per scheduling point of the current execution
    stack: Vec<(usize, usize)>,
    pos: usize,
    preempts: usize,
    started: bool,
    done: bool,
    /// when set, run exactly this choice list once (replay mode)
    replay: Option<Vec<usize>>,
    pub execs: u64,
    pub max_points: usize,
    pub total_points: u64,
    pub divergence: bool,
}

impl PbDfs {
    pub fn new(bound: usize) -> Self {
        PbDfs { bound, stack: vec![], pos: 0, preempts: 0, started: false, done: false, replay: None, execs: 0, max_points: 0, total_points: 0, divergence: false }
    }
    pub fn replaying(choices: Vec<usize>) -> Self {
        let mut s = Self::new(usize::MAX);
        s.replay = Some(choices);
        s
    }
    pub fn current_choices(&self) -> Vec<usize> {
        self.stack[..self.pos.min(self.stack.len())].iter().map(|c| c.0).collect()
    }
    pub fn is_done(&self) -> bool {
        self.done
    }
}

impl Scheduler for PbDfs {
    fn new_execution(&mut self) -> Option<Schedule> {
        if self.done {
            return None;
        }
        if let Some(r) = &self.replay {
            if self.started {
                self.done = true;
                return None;
            }
            self.stack = r.iter().map(|c| (*c, usize::MAX)).collect();
        } else if self.started {
            self.max_points = self.max_points.max(self.pos);
            self.total_points += self.pos as u64;
            self.stack.truncate(self.pos);
            loop {
                match self.stack.pop() {
                    None => {
                        self.done = true;
                        return None;
                    }
                    Some((c, n)) => {
                        if c + 1 < n {
                            self.stack.push((c + 1, n));
                            break;
                        }
                    }
                }
            }
        }
        self.started = true;
        self.pos = 0;
        self.preempts = 0;
        self.execs += 1;
        Some(Schedule::new(0))
    }

    fn next_task(&mut self, runnable: &[&Task], current: Option<TaskId>, _is_yielding: bool) -> Option<TaskId> {
        let mut ids: Vec<TaskId> = runnable.iter().map(|t| t.id()).collect();
        ids.sort_by_key(|t| usize::from(*t));
        let cur_runnable = current.is_some_and(|c| ids.contains(&c));
        let mut opts: Vec<TaskId> = Vec::with_capacity(ids.len());
        if cur_runnable {
            opts.push(current.unwrap());
        }
        for t in ids {
            if !opts.contains(&t) {
                opts.push(t);
            }
        }
        let n = if cur_runnable && self.preempts >= self.bound { 1 } else { opts.len() };
        let c = if self.pos < self.stack.len() {
            let (c, n_rec) = self.stack[self.pos];
            if n_rec != usize::MAX && n_rec != n {
                // the same prefix must offer the same number of options: otherwise the harness
                // does not own all nondeterminism
                self.divergence = true;
            }
            c
        } else {
            if self.replay.is_some() {
                // replay list exhausted: continue with the default choice
                self.stack.push((0, usize::MAX));
            } else {
                self.stack.push((0, n));
            }
            0
        };
        let c = if c < opts.len() {
            c
        } else {
            self.divergence = true;
            0
        };
        if cur_runnable && c > 0 {
            self.preempts += 1;
        }
        self.pos += 1;
        Some(opts[c])
    }

    fn next_u64(&mut self) -> u64 {
        0
    }
}

pub struct Shared(pub Arc<Mutex<PbDfs>>);
impl Scheduler for Shared {
    fn new_execution(&mut self) -> Option<Schedule> {
        self.0.lock().unwrap().new_execution()
    }
    fn next_task(&mut self, r: &[&Task], c: Option<TaskId>, y: bool) -> Option<TaskId> {
        self.0.lock().unwrap().next_task(r, c, y)
    }
    fn next_u64(&mut self) -> u64 {
        0
    }
}
