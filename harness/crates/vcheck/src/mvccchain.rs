//! C01 component layer: explicit-state search over the real `VersionChain<T>` / `VersionInfo`
//! (grafeo-common/src/mvcc.rs) against a list-of-versions reference written from the doc comments.

use grafeo_common::mvcc::VersionChain;
use grafeo_common::types::{EpochId, TxId};
use vcore::{SeqModel, sigv};

#[derive(Clone, Copy, Debug, PartialEq)]
pub enum Ev {
    Add(u8, u8),       // epoch, tx
    MarkDeleted(u8),   // epoch
    RemoveBy(u8),      // tx
    Gc(u8),            // min epoch
    GetMut(u8, u8, u8), // view epoch, tx, modify epoch: copy-on-write access, data := data + 100
}

#[derive(Clone, Debug, PartialEq)]
struct MV {
    data: u32,
    created: u64,
    by: u64,
    deleted: Option<u64>,
}

pub struct Sys {
    chain: VersionChain<u32>,
    model: Vec<MV>, // newest first
    counter: u32,
    max_epoch: u64,
}

pub struct Model {
    pub epochs: u8,
    pub txs: Vec<u8>,
    pub with_get_mut: bool,
}

fn vis_at(v: &MV, e: u64) -> bool {
    v.created <= e && v.deleted.is_none_or(|d| d > e)
}
fn vis_to(v: &MV, e: u64, tx: u64) -> bool {
    if v.by == tx { v.deleted.is_none() } else { vis_at(v, e) }
}

impl Model {
    fn oracle(&self, sys: &Sys, out: &mut Vec<(Vec<(String, String)>, String)>) {
        for e in 0..=self.epochs as u64 {
            let want = sys.model.iter().find(|v| vis_at(v, e)).map(|v| v.data);
            let got = sys.chain.visible_at(EpochId::new(e)).copied();
            if got != want {
                out.push((sigv(&[("layer", "mvcc"), ("kind", "visible_at")]), format!("visible_at({e}) = {got:?}, reference {want:?}; chain (newest first) = {:?}", sys.model)));
            }
            for t in &self.txs {
                let want = sys.model.iter().find(|v| vis_to(v, e, *t as u64)).map(|v| v.data);
                let got = sys.chain.visible_to(EpochId::new(e), TxId::new(*t as u64)).copied();
                if got != want {
                    out.push((sigv(&[("layer", "mvcc"), ("kind", "visible_to")]), format!("visible_to({e}, tx{t}) = {got:?}, reference {want:?}; chain = {:?}", sys.model)));
                }
                let wantc = sys.model.iter().any(|v| v.by != *t as u64 && v.created > e);
                if sys.chain.has_conflict(EpochId::new(e), TxId::new(*t as u64)) != wantc {
                    out.push((sigv(&[("layer", "mvcc"), ("kind", "has_conflict")]), format!("has_conflict(start={e}, tx{t}) != {wantc}; chain = {:?}", sys.model)));
                }
            }
        }
        for t in &self.txs {
            let want = sys.model.iter().any(|v| v.by == *t as u64);
            if sys.chain.modified_by(TxId::new(*t as u64)) != want {
                out.push((sigv(&[("layer", "mvcc"), ("kind", "modified_by")]), format!("modified_by(tx{t}) != {want}")));
            }
        }
        if sys.chain.is_empty() != sys.model.is_empty() {
            out.push((sigv(&[("layer", "mvcc"), ("kind", "is_empty")]), format!("is_empty() = {}", sys.chain.is_empty())));
        }
        if sys.chain.latest().copied() != sys.model.first().map(|v| v.data) {
            out.push((sigv(&[("layer", "mvcc"), ("kind", "latest")]), format!("latest() = {:?}, reference {:?}", sys.chain.latest(), sys.model.first().map(|v| v.data))));
        }
    }
}

impl SeqModel for Model {
    type Ev = Ev;
    type Sys = Sys;
    fn init(&self) -> Sys {
        Sys { chain: VersionChain::new(), model: vec![], counter: 0, max_epoch: 0 }
    }
    fn enabled(&self, sys: &Sys, _h: &[Ev]) -> Vec<Ev> {
        let mut v = vec![];
        if sys.model.len() < 4 {
            for e in sys.max_epoch as u8..=self.epochs {
                for t in &self.txs {
                    v.push(Ev::Add(e, *t));
                }
            }
        }
        for e in sys.max_epoch as u8..=self.epochs {
            v.push(Ev::MarkDeleted(e));
        }
        for t in &self.txs {
            v.push(Ev::RemoveBy(*t));
        }
        for e in 0..=self.epochs {
            v.push(Ev::Gc(e));
        }
        if self.with_get_mut {
            for e in 0..=self.epochs {
                for t in &self.txs {
                    if *t != 1 && e >= sys.max_epoch as u8 {
                        v.push(Ev::GetMut(e, *t, e));
                    }
                }
            }
        }
        v
    }
    fn apply(&self, sys: &mut Sys, ev: &Ev, check: bool, out: &mut Vec<(Vec<(String, String)>, String)>) {
        match *ev {
            Ev::Add(e, t) => {
                sys.counter += 1;
                sys.chain.add_version(sys.counter, EpochId::new(e as u64), TxId::new(t as u64));
                sys.model.insert(0, MV { data: sys.counter, created: e as u64, by: t as u64, deleted: None });
                sys.max_epoch = sys.max_epoch.max(e as u64);
            }
            Ev::MarkDeleted(e) => {
                let r = sys.chain.mark_deleted(EpochId::new(e as u64));
                let want = match sys.model.iter_mut().find(|v| v.deleted.is_none()) {
                    Some(v) => {
                        v.deleted = Some(e as u64);
                        true
                    }
                    None => false,
                };
                sys.max_epoch = sys.max_epoch.max(e as u64);
                if check && r != want {
                    out.push((sigv(&[("layer", "mvcc"), ("kind", "mark_deleted-return")]), format!("mark_deleted({e}) returned {r}, reference {want}")));
                }
            }
            Ev::RemoveBy(t) => {
                sys.chain.remove_versions_by(TxId::new(t as u64));
                sys.model.retain(|v| v.by != t as u64);
            }
            Ev::Gc(min) => {
                // differential oracle: nothing a reader at epoch >= min can see may change
                let before: Vec<(u64, u64, Option<u32>)> = (min as u64..=self.epochs as u64 + 1).flat_map(|e| self.txs.iter().map(move |t| (e, *t as u64))).map(|(e, t)| (e, t, sys.chain.visible_to(EpochId::new(e), TxId::new(t)).copied())).collect();
                let model_before = sys.model.clone();
                sys.chain.gc(EpochId::new(min as u64));
                // MVCC reading of the chain: the version valid at epoch e is the newest one created at or before e; if
                // that one is deleted the entity is deleted at e.  A probe at which an OLDER version shows through a
                // deleted newer one ("resurrection"; nothing in the stores builds such chains, and the doc comments do
                // not say what gc keeps of them) is outside the differential's domain.
                if check {
                    for (e, t, b) in &before {
                        let newest_idx = model_before.iter().position(|v| v.created <= *e || v.by == *t);
                        let vis_idx = model_before.iter().position(|v| vis_to(v, *e, *t));
                        if vis_idx.is_some() && vis_idx != newest_idx {
                            continue;
                        }
                        let a = sys.chain.visible_to(EpochId::new(*e), TxId::new(*t)).copied();
                        if a != *b {
                            out.push((sigv(&[("layer", "mvcc"), ("kind", "gc-changed-visible-version")]), format!("gc({min}) changed visible_to({e}, tx{t}) from {b:?} to {a:?}; chain before = {:?}", model_before)));
                        }
                    }
                }
                // re-synchronise the reference with what gc kept (gc may keep more or less of the invisible tail)
                let kept = sys.chain.version_count();
                sys.model.truncate(kept);
            }
            Ev::GetMut(e, t, me) => {
                let want_idx = sys.model.iter().position(|v| vis_to(v, e as u64, t as u64));
                let got = sys.chain.get_mut(EpochId::new(e as u64), TxId::new(t as u64), EpochId::new(me as u64)).map(|d| {
                    *d += 100;
                    *d
                });
                let want = want_idx.map(|i| {
                    if sys.model[i].by == t as u64 {
                        sys.model[i].data += 100;
                        sys.model[i].data
                    } else {
                        let d = sys.model[i].data + 100;
                        sys.model.insert(0, MV { data: d, created: me as u64, by: t as u64, deleted: None });
                        d
                    }
                });
                sys.max_epoch = sys.max_epoch.max(me as u64);
                if check && got != want {
                    out.push((sigv(&[("layer", "mvcc"), ("kind", "get_mut")]), format!("get_mut({e}, tx{t}, {me}) -> {got:?}, reference {want:?}")));
                }
            }
        }
        if check {
            self.oracle(sys, out);
        }
    }
    fn key(&self, sys: &Sys) -> String {
        // observation: what every (epoch, tx) sees + count; plus the reference ledger
        let mut s = format!("{:?}|{}|", sys.model, sys.chain.version_count());
        for e in 0..=self.epochs as u64 {
            s.push_str(&format!("{:?},", sys.chain.visible_at(EpochId::new(e))));
        }
        s
    }
    fn ev_str(&self, ev: &Ev) -> String {
        match *ev {
            Ev::Add(e, t) => format!("add({e},{t})"),
            Ev::MarkDeleted(e) => format!("mark_deleted({e})"),
            Ev::RemoveBy(t) => format!("remove_by({t})"),
            Ev::Gc(e) => format!("gc({e})"),
            Ev::GetMut(e, t, m) => format!("get_mut({e},{t},{m})"),
        }
    }
    fn engine_name(&self) -> String {
        "SEQ/mvcc-chain".into()
    }
    fn config_json(&self) -> serde_json::Value {
        serde_json::json!({"epochs": self.epochs, "txs": self.txs, "with_get_mut": self.with_get_mut})
    }
    fn nontrivial(&self, sys: &Sys) -> bool {
        !sys.model.is_empty()
    }
}

pub fn parse_ev(s: &str) -> Option<Ev> {
    let (name, rest) = s.split_once('(')?;
    let a: Vec<u8> = rest.trim_end_matches(')').split(',').filter_map(|x| x.trim().parse().ok()).collect();
    Some(match name {
        "add" => Ev::Add(*a.first()?, *a.get(1)?),
        "mark_deleted" => Ev::MarkDeleted(*a.first()?),
        "remove_by" => Ev::RemoveBy(*a.first()?),
        "gc" => Ev::Gc(*a.first()?),
        "get_mut" => Ev::GetMut(*a.first()?, *a.get(1)?, *a.get(2)?),
        _ => return None,
    })
}
