//! vcheck: one sub-command per property.  `vcheck <Cxx> [--tier quick|thorough] [--replay <file>]`
use vcore::{Report, Tier, parse_args};

mod txmgr;

fn main() {
    let argv: Vec<String> = std::env::args().skip(1).collect();
    if argv.is_empty() {
        eprintln!("usage: vcheck <property> [--tier quick|thorough] [--replay file]");
        std::process::exit(2);
    }
    let prop = argv[0].clone();
    let args = parse_args(&argv[1..]);
    vcore::quiet_panics();
    let code = match prop.as_str() {
        "C03" | "C04" => run_txmgr(if prop == "C03" { "C03" } else { "C04" }, args.tier, args.replay.as_deref()),
        _ => {
            eprintln!("unknown property {prop}");
            2
        }
    };
    std::process::exit(code);
}

fn replay_report(prop: &str, viols: Vec<vcore::Violation>) -> i32 {
    if viols.is_empty() {
        println!("REPLAY property={prop}: no violation reproduced");
        return 0;
    }
    for v in &viols {
        println!("REPLAY property={prop}: reproduced sig=[{}] :: {}", v.sig_string(), v.detail);
    }
    1
}

fn run_txmgr(prop: &'static str, tier: Tier, replay: Option<&std::path::Path>) -> i32 {
    if let Some(p) = replay {
        let case = vcore::read_replay_case(p);
        return replay_report(prop, txmgr::replay_case(&case, prop));
    }
    let mut rep = Report::new(prop, tier, "model_checking");
    let cfg = txmgr::cfg_for(prop, tier);
    rep.rule = "BFS over event histories of the real TransactionManager (begin/write/read/commit/abort/gc), deduplicated on the ledger key; a state is non-trivial/distinct when its ledger key is new".into();
    txmgr::explore(&cfg, &mut rep);
    rep.traces_validated = rep.transitions; // every transition is executed on the real manager
    rep.assumptions.push("data semantics of reads (which version a read observes) are attached by the harness: last version committed before the reader began, or its own write".into());
    rep.finish()
}
