//! C13 SPARQL layer (engine ENUM): every subset of a 6-triple universe x a core-grammar query family,
//! executed through `GrafeoDB::execute_sparql`, against textbook evaluation over the triple set
//! (solution mappings, compatible join, left join, union, minus, filter, projection, DISTINCT,
//! ORDER BY / OFFSET / LIMIT, COUNT, GROUP BY) — plus INSERT DATA / DELETE DATA followed by re-query.

use grafeo_common::types::Value;
use grafeo_engine::GrafeoDB;
use serde_json::json;
use std::collections::BTreeMap;
use vcore::{Report, Violation};

#[derive(Clone, Debug, PartialEq, Eq, PartialOrd, Ord)]
pub enum Term {
    Iri(&'static str),
    Int(i64),
    Str(&'static str),
}
impl Term {
    fn render(&self) -> String {
        match self {
            Term::Iri(i) => format!("<http://e/{i}>"),
            Term::Int(i) => format!("\"{i}\"^^<http://www.w3.org/2001/XMLSchema#integer>"),
            Term::Str(s) => format!("\"{s}\""),
        }
    }
    fn out(&self) -> String {
        match self {
            Term::Iri(i) => format!("http://e/{i}"),
            Term::Int(i) => i.to_string(),
            Term::Str(s) => s.to_string(),
        }
    }
}
use Term::*;

pub const UNIVERSE: [(Term, Term, Term); 6] = [
    (Iri("a"), Iri("p"), Iri("b")),
    (Iri("b"), Iri("p"), Iri("c")),
    (Iri("a"), Iri("q"), Int(1)),
    (Iri("b"), Iri("q"), Int(2)),
    (Iri("a"), Iri("n"), Str("x")),
    (Iri("c"), Iri("p"), Iri("c")),
];

#[derive(Clone, Debug)]
pub enum PT {
    V(&'static str),
    T(Term),
}
#[derive(Clone, Debug)]
pub struct TP(pub PT, pub PT, pub PT);

#[derive(Clone, Debug)]
pub enum Cond {
    EqInt(&'static str, i64),
    GtInt(&'static str, i64),
    LtInt(&'static str, i64),
    EqIri(&'static str, &'static str),
    NeIri(&'static str, &'static str),
    IsLiteral(&'static str),
    Bound(&'static str),
}
#[derive(Clone, Debug)]
pub enum Pat {
    Bgp(Vec<TP>),
    Optional(Box<Pat>, Box<Pat>),
    Union(Box<Pat>, Box<Pat>),
    Minus(Box<Pat>, Box<Pat>),
    Filter(Box<Pat>, Cond),
}
#[derive(Clone, Debug)]
pub enum Sel {
    Vars(Vec<&'static str>),
    Count(&'static str),
    CountStar,
    GroupCount(&'static str, &'static str),
}
#[derive(Clone, Debug)]
pub struct Query {
    pub pat: Pat,
    pub sel: Sel,
    pub distinct: bool,
    pub order: Option<(&'static str, bool)>,
    pub offset: Option<usize>,
    pub limit: Option<usize>,
    pub features: &'static str,
}

type Sol = BTreeMap<&'static str, Term>;

fn match_tp(tp: &TP, store: &[(Term, Term, Term)]) -> Vec<Sol> {
    let mut out = vec![];
    for (s, p, o) in store {
        let mut sol = Sol::new();
        let mut ok = true;
        for (pt, t) in [(&tp.0, s), (&tp.1, p), (&tp.2, o)] {
            match pt {
                PT::T(x) => {
                    if x != t {
                        ok = false;
                    }
                }
                PT::V(v) => match sol.get(v) {
                    Some(b) if b != t => ok = false,
                    _ => {
                        sol.insert(v, t.clone());
                    }
                },
            }
        }
        if ok {
            out.push(sol);
        }
    }
    out
}
fn compatible(a: &Sol, b: &Sol) -> bool {
    a.iter().all(|(k, v)| b.get(k).is_none_or(|w| w == v))
}
fn merge(a: &Sol, b: &Sol) -> Sol {
    let mut m = a.clone();
    for (k, v) in b {
        m.insert(k, v.clone());
    }
    m
}
fn join(a: &[Sol], b: &[Sol]) -> Vec<Sol> {
    let mut out = vec![];
    for x in a {
        for y in b {
            if compatible(x, y) {
                out.push(merge(x, y));
            }
        }
    }
    out
}
fn cond_true(c: &Cond, s: &Sol) -> bool {
    // an error (unbound variable, type mismatch) makes the filter false
    match c {
        Cond::EqInt(v, i) => matches!(s.get(v), Some(Int(x)) if x == i),
        Cond::GtInt(v, i) => matches!(s.get(v), Some(Int(x)) if x > i),
        Cond::LtInt(v, i) => matches!(s.get(v), Some(Int(x)) if x < i),
        Cond::EqIri(v, i) => matches!(s.get(v), Some(Iri(x)) if x == i),
        Cond::NeIri(v, i) => matches!(s.get(v), Some(Iri(x)) if x != i),
        Cond::IsLiteral(v) => matches!(s.get(v), Some(Int(_) | Str(_))),
        Cond::Bound(v) => s.contains_key(v),
    }
}
pub fn eval_pat(p: &Pat, store: &[(Term, Term, Term)]) -> Vec<Sol> {
    match p {
        Pat::Bgp(tps) => {
            let mut acc = vec![Sol::new()];
            for tp in tps {
                acc = join(&acc, &match_tp(tp, store));
            }
            acc
        }
        Pat::Optional(l, r) => {
            let (ls, rs) = (eval_pat(l, store), eval_pat(r, store));
            let mut out = vec![];
            for x in &ls {
                let mut any = false;
                for y in &rs {
                    if compatible(x, y) {
                        out.push(merge(x, y));
                        any = true;
                    }
                }
                if !any {
                    out.push(x.clone());
                }
            }
            out
        }
        Pat::Union(l, r) => {
            let mut a = eval_pat(l, store);
            a.extend(eval_pat(r, store));
            a
        }
        Pat::Minus(l, r) => {
            let (ls, rs) = (eval_pat(l, store), eval_pat(r, store));
            ls.into_iter().filter(|x| !rs.iter().any(|y| compatible(x, y) && x.keys().any(|k| y.contains_key(k)))).collect()
        }
        Pat::Filter(inner, c) => eval_pat(inner, store).into_iter().filter(|s| cond_true(c, s)).collect(),
    }
}

const UNBOUND: &str = "∅";

/// Reference answer: rows of output strings; `ordered` tells whether row order is fixed by the query.
pub fn eval_query(q: &Query, store: &[(Term, Term, Term)]) -> Vec<Vec<String>> {
    let sols = eval_pat(&q.pat, store);
    let mut rows: Vec<(Vec<String>, Option<Term>)> = match &q.sel {
        Sel::Vars(vs) => sols.iter().map(|s| (vs.iter().map(|v| s.get(v).map_or(UNBOUND.to_string(), |t| t.out())).collect(), q.order.and_then(|(k, _)| s.get(k).cloned()))).collect(),
        Sel::Count(v) => vec![(vec![sols.iter().filter(|s| s.contains_key(v)).count().to_string()], None)],
        Sel::CountStar => vec![(vec![sols.len().to_string()], None)],
        Sel::GroupCount(k, c) => {
            let mut g: BTreeMap<String, usize> = BTreeMap::new();
            for s in &sols {
                let key = s.get(k).map_or(UNBOUND.to_string(), |t| t.out());
                *g.entry(key).or_insert(0) += usize::from(s.contains_key(c));
            }
            g.into_iter().map(|(k, n)| (vec![k, n.to_string()], None)).collect()
        }
    };
    if q.distinct {
        let mut seen = std::collections::BTreeSet::new();
        rows.retain(|r| seen.insert(r.0.clone()));
    }
    if let Some((_, desc)) = q.order {
        rows.sort_by(|a, b| {
            let o = a.1.cmp(&b.1);
            if desc { o.reverse() } else { o }
        });
    }
    let mut out: Vec<Vec<String>> = rows.into_iter().map(|r| r.0).collect();
    if let Some(o) = q.offset {
        out = out.into_iter().skip(o).collect();
    }
    if let Some(l) = q.limit {
        out.truncate(l);
    }
    out
}

fn render_pt(p: &PT) -> String {
    match p {
        PT::V(v) => format!("?{v}"),
        PT::T(t) => t.render(),
    }
}
fn render_pat(p: &Pat) -> String {
    match p {
        Pat::Bgp(tps) => tps.iter().map(|t| format!("{} {} {}", render_pt(&t.0), render_pt(&t.1), render_pt(&t.2))).collect::<Vec<_>>().join(" . "),
        Pat::Optional(l, r) => format!("{} OPTIONAL {{ {} }}", render_pat(l), render_pat(r)),
        Pat::Union(l, r) => format!("{{ {} }} UNION {{ {} }}", render_pat(l), render_pat(r)),
        Pat::Minus(l, r) => format!("{} MINUS {{ {} }}", render_pat(l), render_pat(r)),
        Pat::Filter(i, c) => format!(
            "{} FILTER({})",
            render_pat(i),
            match c {
                Cond::EqInt(v, i) => format!("?{v} = {i}"),
                Cond::GtInt(v, i) => format!("?{v} > {i}"),
                Cond::LtInt(v, i) => format!("?{v} < {i}"),
                Cond::EqIri(v, i) => format!("?{v} = <http://e/{i}>"),
                Cond::NeIri(v, i) => format!("?{v} != <http://e/{i}>"),
                Cond::IsLiteral(v) => format!("isLiteral(?{v})"),
                Cond::Bound(v) => format!("BOUND(?{v})"),
            }
        ),
    }
}
pub fn render(q: &Query) -> String {
    let sel = match &q.sel {
        Sel::Vars(vs) => vs.iter().map(|v| format!("?{v}")).collect::<Vec<_>>().join(" "),
        Sel::Count(v) => format!("(COUNT(?{v}) AS ?c)"),
        Sel::CountStar => "(COUNT(*) AS ?c)".into(),
        Sel::GroupCount(k, c) => format!("?{k} (COUNT(?{c}) AS ?c)"),
    };
    let mut s = format!("SELECT {}{} WHERE {{ {} }}", if q.distinct { "DISTINCT " } else { "" }, sel, render_pat(&q.pat));
    if let Sel::GroupCount(k, _) = &q.sel {
        s.push_str(&format!(" GROUP BY ?{k}"));
    }
    if let Some((k, desc)) = q.order {
        s.push_str(&if desc { format!(" ORDER BY DESC(?{k})") } else { format!(" ORDER BY ?{k}") });
    }
    if let Some(o) = q.offset {
        s.push_str(&format!(" OFFSET {o}"));
    }
    if let Some(l) = q.limit {
        s.push_str(&format!(" LIMIT {l}"));
    }
    s
}

fn v(n: &'static str) -> PT {
    PT::V(n)
}
fn i(n: &'static str) -> PT {
    PT::T(Iri(n))
}

pub fn queries() -> Vec<Query> {
    let mut qs = vec![];
    let mut push = |pat: Pat, sel: Sel, features: &'static str| qs.push(Query { pat, sel, distinct: false, order: None, offset: None, limit: None, features });
    // all 8 bound/unbound shapes of a single pattern (terms chosen to hit and to miss)
    for (sb, pb, ob) in [(false, false, false), (true, false, false), (false, true, false), (false, false, true), (true, true, false), (true, false, true), (false, true, true), (true, true, true)] {
        for (st, pt, ot) in [("a", "p", PT::T(Iri("b"))), ("b", "q", PT::T(Int(2))), ("a", "n", PT::T(Str("x"))), ("c", "p", PT::T(Iri("c"))), ("zz", "p", PT::T(Iri("b")))] {
            let tp = TP(if sb { i(st) } else { v("s") }, if pb { i(pt) } else { v("p") }, if ob { ot.clone() } else { v("o") });
            let mut vars = vec![];
            if !sb {
                vars.push("s");
            }
            if !pb {
                vars.push("p");
            }
            if !ob {
                vars.push("o");
            }
            if vars.is_empty() {
                push(Pat::Bgp(vec![tp]), Sel::CountStar, "single-pattern-all-bound");
            } else {
                push(Pat::Bgp(vec![tp]), Sel::Vars(vars), "single-pattern");
            }
        }
    }
    // repeated variable inside one pattern
    push(Pat::Bgp(vec![TP(v("x"), i("p"), v("x"))]), Sel::Vars(vec!["x"]), "same-variable-twice");
    push(Pat::Bgp(vec![TP(v("x"), v("p"), v("x"))]), Sel::Vars(vec!["x", "p"]), "same-variable-twice");
    // joins on a shared variable
    push(Pat::Bgp(vec![TP(v("s"), i("p"), v("o")), TP(v("o"), i("p"), v("z"))]), Sel::Vars(vec!["s", "o", "z"]), "join-object-subject");
    push(Pat::Bgp(vec![TP(v("s"), i("p"), v("o")), TP(v("s"), i("q"), v("n"))]), Sel::Vars(vec!["s", "o", "n"]), "join-subject-subject");
    push(Pat::Bgp(vec![TP(v("s"), i("p"), v("o")), TP(v("t"), i("p"), v("o"))]), Sel::Vars(vec!["s", "t", "o"]), "join-object-object");
    push(Pat::Bgp(vec![TP(v("s"), i("p"), v("o")), TP(v("t"), i("q"), v("n"))]), Sel::Vars(vec!["s", "t"]), "cross-product");
    push(Pat::Bgp(vec![TP(v("s"), v("p1"), v("o")), TP(v("o"), v("p2"), v("z"))]), Sel::Vars(vec!["s", "p1", "o", "p2", "z"]), "join-unbound-predicates");
    // joins whose sides share two variables (a row pair must agree on every shared variable, not on one of them)
    push(Pat::Bgp(vec![TP(v("x"), i("p"), v("y")), TP(v("y"), i("p"), v("x"))]), Sel::Vars(vec!["x", "y"]), "join-two-shared-mutual");
    push(Pat::Bgp(vec![TP(v("s"), i("p"), v("o")), TP(v("s"), v("p2"), v("o"))]), Sel::Vars(vec!["s", "p2", "o"]), "join-two-shared-same-pair");
    push(Pat::Bgp(vec![TP(v("a"), i("p"), v("b")), TP(v("b"), i("p"), v("c")), TP(v("c"), i("p"), v("a"))]), Sel::Vars(vec!["a", "b", "c"]), "join-triangle");
    push(Pat::Bgp(vec![TP(v("a"), i("p"), v("b")), TP(v("b"), i("p"), v("c")), TP(v("a"), v("r"), v("c"))]), Sel::Vars(vec!["a", "b", "c", "r"]), "join-closing-edge");
    push(Pat::Optional(Box::new(Pat::Bgp(vec![TP(v("s"), i("p"), v("o"))])), Box::new(Pat::Bgp(vec![TP(v("o"), v("r"), v("s"))]))), Sel::Vars(vec!["s", "o", "r"]), "optional-two-shared");
    push(Pat::Minus(Box::new(Pat::Bgp(vec![TP(v("s"), i("p"), v("o"))])), Box::new(Pat::Bgp(vec![TP(v("o"), i("p"), v("s"))]))), Sel::Vars(vec!["s", "o"]), "minus-two-shared");
    // filters
    let base_q = || Pat::Bgp(vec![TP(v("s"), i("q"), v("n"))]);
    push(Pat::Filter(Box::new(base_q()), Cond::EqInt("n", 1)), Sel::Vars(vec!["s", "n"]), "filter-eq-typed-int");
    push(Pat::Filter(Box::new(base_q()), Cond::GtInt("n", 1)), Sel::Vars(vec!["s", "n"]), "filter-gt-int");
    push(Pat::Filter(Box::new(base_q()), Cond::LtInt("n", 2)), Sel::Vars(vec!["s", "n"]), "filter-lt-int");
    push(Pat::Filter(Box::new(Pat::Bgp(vec![TP(v("s"), i("p"), v("o"))])), Cond::EqIri("o", "b")), Sel::Vars(vec!["s"]), "filter-eq-iri");
    push(Pat::Filter(Box::new(Pat::Bgp(vec![TP(v("s"), i("p"), v("o"))])), Cond::NeIri("o", "b")), Sel::Vars(vec!["s", "o"]), "filter-ne-iri");
    push(Pat::Filter(Box::new(Pat::Bgp(vec![TP(v("s"), v("p"), v("o"))])), Cond::IsLiteral("o")), Sel::Vars(vec!["s", "p", "o"]), "filter-isliteral");
    // optional / union / minus
    push(Pat::Optional(Box::new(Pat::Bgp(vec![TP(v("s"), i("p"), v("o"))])), Box::new(Pat::Bgp(vec![TP(v("s"), i("q"), v("n"))]))), Sel::Vars(vec!["s", "o", "n"]), "optional");
    push(Pat::Optional(Box::new(Pat::Bgp(vec![TP(v("s"), i("p"), v("o"))])), Box::new(Pat::Bgp(vec![TP(v("o"), i("q"), v("n"))]))), Sel::Vars(vec!["s", "o", "n"]), "optional-on-object");
    push(Pat::Filter(Box::new(Pat::Optional(Box::new(Pat::Bgp(vec![TP(v("s"), i("p"), v("o"))])), Box::new(Pat::Bgp(vec![TP(v("s"), i("q"), v("n"))])))), Cond::Bound("n")), Sel::Vars(vec!["s", "o"]), "optional-filter-bound");
    push(Pat::Union(Box::new(Pat::Bgp(vec![TP(v("s"), i("q"), v("x"))])), Box::new(Pat::Bgp(vec![TP(v("s"), i("n"), v("x"))]))), Sel::Vars(vec!["s", "x"]), "union");
    push(Pat::Union(Box::new(Pat::Bgp(vec![TP(v("s"), i("p"), v("o"))])), Box::new(Pat::Bgp(vec![TP(v("s"), i("p"), v("o"))]))), Sel::Vars(vec!["s", "o"]), "union-same-branch-twice");
    push(Pat::Minus(Box::new(Pat::Bgp(vec![TP(v("s"), i("p"), v("o"))])), Box::new(Pat::Bgp(vec![TP(v("s"), i("n"), v("x"))]))), Sel::Vars(vec!["s", "o"]), "minus");
    // aggregates
    push(Pat::Bgp(vec![TP(v("s"), i("p"), v("o"))]), Sel::Count("s"), "count-var");
    push(Pat::Bgp(vec![TP(v("s"), v("p"), v("o"))]), Sel::CountStar, "count-star");
    push(Pat::Bgp(vec![TP(v("s"), v("p"), v("o"))]), Sel::GroupCount("s", "o"), "group-count");
    push(Pat::Bgp(vec![TP(v("s"), v("p"), v("o"))]), Sel::GroupCount("p", "s"), "group-count");
    let mut out = qs;
    // DISTINCT, ORDER BY, OFFSET/LIMIT variants of a few bases
    let spo = Pat::Bgp(vec![TP(v("s"), v("p"), v("o"))]);
    out.push(Query { pat: spo.clone(), sel: Sel::Vars(vec!["s"]), distinct: true, order: None, offset: None, limit: None, features: "distinct" });
    out.push(Query { pat: spo.clone(), sel: Sel::Vars(vec!["p"]), distinct: true, order: None, offset: None, limit: None, features: "distinct" });
    out.push(Query { pat: spo.clone(), sel: Sel::Vars(vec!["s", "p"]), distinct: true, order: None, offset: None, limit: None, features: "distinct-two-columns" });
    let sq = Pat::Bgp(vec![TP(v("s"), i("q"), v("n"))]);
    for desc in [false, true] {
        out.push(Query { pat: sq.clone(), sel: Sel::Vars(vec!["s", "n"]), distinct: false, order: Some(("n", desc)), offset: None, limit: None, features: "order-by" });
        out.push(Query { pat: sq.clone(), sel: Sel::Vars(vec!["s"]), distinct: false, order: Some(("n", desc)), offset: None, limit: None, features: "order-by-non-projected" });
        for (o, l) in [(None, Some(1)), (Some(1), None), (Some(1), Some(1)), (None, Some(0)), (Some(2), Some(1)), (None, Some(5))] {
            out.push(Query { pat: sq.clone(), sel: Sel::Vars(vec!["s", "n"]), distinct: false, order: Some(("n", desc)), offset: o, limit: l, features: "order-by-offset-limit" });
        }
    }
    out.push(Query { pat: Pat::Bgp(vec![TP(v("s"), i("p"), v("o"))]), sel: Sel::Vars(vec!["s", "o"]), distinct: false, order: Some(("s", false)), offset: None, limit: None, features: "order-by-iri" });
    out
}

fn value_out(v: &Value) -> String {
    match v {
        Value::Null => UNBOUND.to_string(),
        Value::String(s) => s.to_string(),
        Value::Int64(i) => i.to_string(),
        Value::Float64(f) => f.to_string(),
        Value::Bool(b) => b.to_string(),
        o => format!("{o:?}"),
    }
}

fn store_of(mask: u8) -> Vec<(Term, Term, Term)> {
    UNIVERSE.iter().enumerate().filter(|(i, _)| mask & (1 << i) != 0).map(|(_, t)| t.clone()).collect()
}
fn insert_data(db: &GrafeoDB, ts: &[(Term, Term, Term)]) -> Result<(), String> {
    if ts.is_empty() {
        return Ok(());
    }
    let body = ts.iter().map(|(s, p, o)| format!("{} {} {}", s.render(), p.render(), o.render())).collect::<Vec<_>>().join(" . ");
    db.execute_sparql(&format!("INSERT DATA {{ {body} }}")).map(|_| ()).map_err(|e| e.to_string())
}

fn compare(q: &Query, want: &[Vec<String>], got: &[Vec<String>]) -> Option<(&'static str, String)> {
    let mut ws = want.to_vec();
    let mut gs = got.to_vec();
    ws.sort();
    gs.sort();
    let limited = q.limit.is_some() || q.offset.is_some();
    if q.order.is_none() || !limited {
        if ws != gs {
            let kind = if gs.len() > ws.len() { "extra-rows" } else if gs.len() < ws.len() { "missing-rows" } else { "wrong-values" };
            return Some((kind, format!("expected (as multiset) {ws:?}, got {gs:?}")));
        }
        if q.order.is_some() && want != got {
            // order must follow the key; rows with equal keys may be permuted, which the universe excludes for ?n (distinct ints)
            if matches!(q.order, Some(("n", _))) {
                return Some(("wrong-order", format!("expected {want:?}, got {got:?}")));
            }
        }
        return None;
    }
    // ORDER BY over the distinct integer key n with OFFSET/LIMIT: the window is fully determined
    if want != got {
        return Some(("wrong-window", format!("expected {want:?}, got {got:?}")));
    }
    None
}

pub fn run_layer(rep: &mut Report, thorough: bool) {
    let qs = queries();
    let masks: Vec<u8> = (0..64u8).collect();
    let results = vcore::par_map(&masks, vcore::cores(), |_, &mask| {
        let store = store_of(mask);
        let db = GrafeoDB::new_in_memory();
        let mut out: Vec<Violation> = vec![];
        let mut evals = 0u64;
        let mut nonempty = vec![];
        let mut rejected = 0u64;
        if let Err(e) = insert_data(&db, &store) {
            out.push(Violation::new(&[("layer", "sparql"), ("kind", "insert-data-error"), ("features", "update")], json!({"engine": "ENUM/sparql", "store_mask": mask}), e));
            return (out, evals, nonempty, rejected);
        }
        let run_all = |db: &GrafeoDB, store: &[(Term, Term, Term)], phase: &'static str, out: &mut Vec<Violation>, evals: &mut u64, nonempty: &mut Vec<u64>, rejected: &mut u64| {
            for (qi, q) in qs.iter().enumerate() {
                let text = render(q);
                let want = eval_query(q, store);
                *evals += 1;
                let case = json!({"engine": "ENUM/sparql", "store_mask": mask, "phase": phase, "query_index": qi, "query": text});
                match vcore::catch(|| db.execute_sparql(&text)) {
                    Err(p) => out.push(Violation::new(&[("layer", "sparql"), ("kind", "panic"), ("features", q.features)], case, format!("{text} panicked: {p}"))),
                    Ok(Err(_)) => *rejected += 1, // not expressible in this front end: counted, never a wrong answer
                    Ok(Ok(r)) => {
                        let got: Vec<Vec<String>> = r.rows.iter().map(|row| row.iter().map(value_out).collect()).collect();
                        if !want.is_empty() {
                            nonempty.push(vcore::hash_of(&(mask, qi)));
                        }
                        if let Some((kind, detail)) = compare(q, &want, &got) {
                            out.push(Violation::new(&[("layer", "sparql"), ("kind", kind), ("features", q.features), ("phase", phase)], case, format!("{text} over {} triples: {detail}", store.len())));
                        }
                    }
                }
            }
        };
        run_all(&db, &store, "loaded", &mut out, &mut evals, &mut nonempty, &mut rejected);
        if thorough || mask % 7 == 3 {
            // updates then re-query: delete the lowest present triple, insert the lowest absent one
            let mut st2 = store.clone();
            if let Some(t) = st2.first().cloned() {
                let del = format!("DELETE DATA {{ {} {} {} }}", t.0.render(), t.1.render(), t.2.render());
                if db.execute_sparql(&del).is_ok() {
                    st2.remove(0);
                }
            }
            if let Some(t) = UNIVERSE.iter().find(|t| !store.contains(t)) {
                if insert_data(&db, &[t.clone()]).is_ok() {
                    st2.push(t.clone());
                }
            }
            run_all(&db, &st2, "after-update", &mut out, &mut evals, &mut nonempty, &mut rejected);
        }
        (out, evals, nonempty, rejected)
    });
    let mut total_rej = 0;
    for (viols, evals, nonempty, rejected) in results {
        rep.evaluations += evals;
        total_rej += rejected;
        for h in nonempty {
            rep.nontrivial_hash(h);
        }
        for v in viols {
            rep.violation(v);
        }
    }
    rep.set("sparql_layer", json!({"stores": 64, "queries": qs.len(), "rejected_by_front_end": total_rej}));
    rep.sample(json!({"sparql_query": render(&qs[qs.len() / 2])}));
}

/// Re-run one (store, query) case for --replay.
pub fn replay_case(case: &serde_json::Value) -> Vec<Violation> {
    let mask = case["store_mask"].as_u64().unwrap_or(0) as u8;
    let qi = case["query_index"].as_u64().unwrap_or(0) as usize;
    let qs = queries();
    let Some(q) = qs.get(qi) else { return vec![] };
    let store = store_of(mask);
    let db = GrafeoDB::new_in_memory();
    let _ = insert_data(&db, &store);
    let text = render(q);
    let want = eval_query(q, &store);
    match vcore::catch(|| db.execute_sparql(&text)) {
        Err(p) => vec![Violation::new(&[("layer", "sparql"), ("kind", "panic"), ("features", q.features)], case.clone(), p)],
        Ok(Err(_)) => vec![],
        Ok(Ok(r)) => {
            let got: Vec<Vec<String>> = r.rows.iter().map(|row| row.iter().map(value_out).collect()).collect();
            compare(q, &want, &got).map(|(k, d)| vec![Violation::new(&[("layer", "sparql"), ("kind", k), ("features", q.features), ("phase", "loaded")], case.clone(), d)]).unwrap_or_default()
        }
    }
}
