//! Small property graphs as plain Rust values, their bounded-exhaustive enumeration up to
//! isomorphism, and loading into a fresh `GrafeoDB`.
//!
//! A graph space is the finite product written down by [`GraphSpace`]: a multiset of at most
//! `max_nodes` node *kinds* (labels + properties) and a multiset of at most `max_edges` edges,
//! each an ordered pair of node positions (self-loops and parallel edges allowed) with an edge
//! *kind* (type + optional `w`).  Two labelled graphs that differ only by a permutation of the
//! nodes (and of the edge list) are the same graph; [`GraphSpace::enumerate`] returns one
//! canonical representative per isomorphism class, simplest first (by node count, edge count,
//! then kind indexes).

use grafeo_common::types::{EdgeId, NodeId, Value};
use grafeo_engine::GrafeoDB;
use serde_json::{Value as J, json};
use std::collections::{BTreeMap, BTreeSet};

/// A node of a [`QGraph`]: sorted labels and a property map.
#[derive(Clone, Debug, PartialEq)]
pub struct QNode {
    pub labels: Vec<String>,
    pub props: BTreeMap<String, Value>,
}

/// A directed edge of a [`QGraph`] between node positions `src` and `dst`.
#[derive(Clone, Debug, PartialEq)]
pub struct QEdge {
    pub src: usize,
    pub dst: usize,
    pub etype: String,
    pub props: BTreeMap<String, Value>,
}

/// A directed labelled property multigraph. Nodes/edges are addressed by position.
#[derive(Clone, Debug, PartialEq, Default)]
pub struct QGraph {
    pub nodes: Vec<QNode>,
    pub edges: Vec<QEdge>,
}

/// Ids the database assigned to the nodes / edges of a loaded [`QGraph`] (same positions).
#[derive(Clone, Debug, Default)]
pub struct IdMap {
    pub nodes: Vec<NodeId>,
    pub edges: Vec<EdgeId>,
}

impl IdMap {
    /// Identity map (node i -> id i), used when evaluating without a database.
    pub fn identity(g: &QGraph) -> IdMap {
        IdMap { nodes: (0..g.nodes.len()).map(|i| NodeId(i as u64)).collect(), edges: (0..g.edges.len()).map(|i| EdgeId(i as u64)).collect() }
    }
}

fn jval(v: &Value) -> J {
    match v {
        Value::Null => J::Null,
        Value::Bool(b) => json!(b),
        Value::Int64(i) => json!(i),
        Value::Float64(f) => json!({"f": f}),
        Value::String(s) => json!(s.as_str()),
        o => json!({"other": format!("{o:?}")}),
    }
}
fn unjval(j: &J) -> Value {
    match j {
        J::Null => Value::Null,
        J::Bool(b) => Value::Bool(*b),
        J::Number(n) => Value::Int64(n.as_i64().unwrap_or(0)),
        J::String(s) => Value::from(s.as_str()),
        J::Object(m) if m.contains_key("f") => Value::Float64(m["f"].as_f64().unwrap_or(0.0)),
        _ => Value::Null,
    }
}

impl QGraph {
    /// JSON form used in replay cases and samples.
    pub fn to_json(&self) -> J {
        json!({
            "nodes": self.nodes.iter().map(|n| json!({"labels": n.labels, "props": n.props.iter().map(|(k, v)| (k.clone(), jval(v))).collect::<serde_json::Map<_, _>>()})).collect::<Vec<_>>(),
            "edges": self.edges.iter().map(|e| json!({"src": e.src, "dst": e.dst, "type": e.etype, "props": e.props.iter().map(|(k, v)| (k.clone(), jval(v))).collect::<serde_json::Map<_, _>>()})).collect::<Vec<_>>(),
        })
    }
    /// Inverse of [`QGraph::to_json`].
    pub fn from_json(j: &J) -> Option<QGraph> {
        let mut g = QGraph::default();
        for n in j.get("nodes")?.as_array()? {
            let labels = n.get("labels")?.as_array()?.iter().filter_map(|x| x.as_str().map(String::from)).collect();
            let props = n.get("props")?.as_object()?.iter().map(|(k, v)| (k.clone(), unjval(v))).collect();
            g.nodes.push(QNode { labels, props });
        }
        for e in j.get("edges")?.as_array()? {
            g.edges.push(QEdge {
                src: e.get("src")?.as_u64()? as usize,
                dst: e.get("dst")?.as_u64()? as usize,
                etype: e.get("type")?.as_str()?.to_string(),
                props: e.get("props")?.as_object()?.iter().map(|(k, v)| (k.clone(), unjval(v))).collect(),
            });
        }
        Some(g)
    }
    /// Compact one-line rendering, e.g. `(0:A{p:1}) (1) 0-[K]->1 0-[L{w:2}]->0`.
    pub fn pretty(&self) -> String {
        let props = |p: &BTreeMap<String, Value>| {
            if p.is_empty() { String::new() } else { format!("{{{}}}", p.iter().map(|(k, v)| format!("{k}:{v}")).collect::<Vec<_>>().join(",")) }
        };
        let mut parts = vec![];
        for (i, n) in self.nodes.iter().enumerate() {
            let l: String = n.labels.iter().map(|l| format!(":{l}")).collect();
            parts.push(format!("({i}{l}{})", props(&n.props)));
        }
        for e in &self.edges {
            parts.push(format!("{}-[{}{}]->{}", e.src, e.etype, props(&e.props), e.dst));
        }
        if parts.is_empty() { "(empty graph)".into() } else { parts.join(" ") }
    }

    /// Parses the [`QGraph::pretty`] format (`(0:A{p:1,s:"x"}) (1) 0-[K{w:1}]->1`).
    pub fn parse_pretty(txt: &str) -> Option<QGraph> {
        fn props(s: &str) -> Option<BTreeMap<String, Value>> {
            let mut m = BTreeMap::new();
            let s = s.trim();
            if s.is_empty() {
                return Some(m);
            }
            let inner = s.strip_prefix('{')?.strip_suffix('}')?;
            for kv in inner.split(',') {
                let (k, v) = kv.split_once(':')?;
                let v = v.trim();
                let val = if let Ok(i) = v.parse::<i64>() { Value::Int64(i) } else { Value::from(v.trim_matches(|c| c == '"' || c == '\'')) };
                m.insert(k.trim().to_string(), val);
            }
            Some(m)
        }
        let mut g = QGraph::default();
        for tok in txt.split_whitespace() {
            if let Some(body) = tok.strip_prefix('(') {
                let body = body.strip_suffix(')')?;
                let (head, pr) = match body.find('{') {
                    Some(i) => (&body[..i], &body[i..]),
                    None => (body, ""),
                };
                let mut parts = head.split(':');
                let _idx = parts.next()?;
                let labels: Vec<String> = parts.map(String::from).collect();
                g.nodes.push(QNode { labels, props: props(pr)? });
            } else if let Some((src, rest)) = tok.split_once("-[") {
                let (mid, dst) = rest.split_once("]->")?;
                let (ty, pr) = match mid.find('{') {
                    Some(i) => (&mid[..i], &mid[i..]),
                    None => (mid, ""),
                };
                g.edges.push(QEdge { src: src.parse().ok()?, dst: dst.parse().ok()?, etype: ty.to_string(), props: props(pr)? });
            }
        }
        if g.edges.iter().any(|e| e.src >= g.nodes.len() || e.dst >= g.nodes.len()) {
            return None;
        }
        Some(g)
    }

    /// Structural feature names of the graph, used in violation signatures of minimised witnesses:
    /// `empty`, `self-loop`, `parallel-edge` (same src,dst,type twice), `multi-edge` (same
    /// src,dst, different type), `2-cycle`, `isolated-node`, `dup-value` (two nodes share a `p`
    /// value), `multi-label`, `edge-prop`.  (Whether a property the query reads is missing is a
    /// query-relative feature, see `witness_features`.)
    pub fn features(&self) -> BTreeSet<&'static str> {
        let mut f = BTreeSet::new();
        if self.nodes.is_empty() {
            f.insert("empty");
        }
        for (i, e) in self.edges.iter().enumerate() {
            if e.src == e.dst {
                f.insert("self-loop");
            }
            if !e.props.is_empty() {
                f.insert("edge-prop");
            }
            for (j, o) in self.edges.iter().enumerate() {
                if i < j && e.src == o.src && e.dst == o.dst {
                    f.insert(if e.etype == o.etype { "parallel-edge" } else { "multi-edge" });
                }
                if i != j && e.src != e.dst && e.src == o.dst && e.dst == o.src {
                    f.insert("2-cycle");
                }
            }
        }
        for (i, n) in self.nodes.iter().enumerate() {
            if !self.edges.iter().any(|e| e.src == i || e.dst == i) && !self.edges.is_empty() {
                f.insert("isolated-node");
            }
            if n.labels.len() > 1 {
                f.insert("multi-label");
            }
            for (j, o) in self.nodes.iter().enumerate() {
                if i < j && n.props.get("p").is_some() && n.props.get("p") == o.props.get("p") {
                    f.insert("dup-value");
                }
            }
        }
        f
    }

    /// All graphs obtained by removing exactly one element (an edge; a node with its incident
    /// edges; a property; a label), simplest results first. Used to minimise witnesses.
    pub fn shrinks(&self) -> Vec<QGraph> {
        let mut out = vec![];
        for i in 0..self.nodes.len() {
            let mut g = QGraph::default();
            let remap = |x: usize| if x > i { x - 1 } else { x };
            for (j, n) in self.nodes.iter().enumerate() {
                if j != i {
                    g.nodes.push(n.clone());
                }
            }
            for e in &self.edges {
                if e.src != i && e.dst != i {
                    let mut e2 = e.clone();
                    e2.src = remap(e.src);
                    e2.dst = remap(e.dst);
                    g.edges.push(e2);
                }
            }
            out.push(g);
        }
        for i in 0..self.edges.len() {
            let mut g = self.clone();
            g.edges.remove(i);
            out.push(g);
        }
        for i in 0..self.nodes.len() {
            for k in self.nodes[i].props.keys() {
                let mut g = self.clone();
                g.nodes[i].props.remove(k);
                out.push(g);
            }
            for l in 0..self.nodes[i].labels.len() {
                let mut g = self.clone();
                g.nodes[i].labels.remove(l);
                out.push(g);
            }
        }
        for i in 0..self.edges.len() {
            for k in self.edges[i].props.keys() {
                let mut g = self.clone();
                g.edges[i].props.remove(k);
                out.push(g);
            }
        }
        out
    }

    /// Canonical key of the isomorphism class (minimum over node permutations; fine for <= 4 nodes).
    pub fn canonical_key(&self) -> String {
        let n = self.nodes.len();
        let mut best: Option<String> = None;
        let mut perm: Vec<usize> = (0..n).collect();
        permute(&mut perm, 0, &mut |p| {
            // p[new_position] = old index
            let mut inv = vec![0usize; n];
            for (newi, &old) in p.iter().enumerate() {
                inv[old] = newi;
            }
            let nodes: Vec<String> = p.iter().map(|&o| format!("{:?}|{:?}", self.nodes[o].labels, self.nodes[o].props)).collect();
            let mut edges: Vec<String> = self.edges.iter().map(|e| format!("{}>{}:{}|{:?}", inv[e.src], inv[e.dst], e.etype, e.props)).collect();
            edges.sort();
            let k = format!("{nodes:?}#{edges:?}");
            if best.as_ref().is_none_or(|b| k < *b) {
                best = Some(k);
            }
        });
        best.unwrap_or_default()
    }
}

fn permute(p: &mut Vec<usize>, k: usize, f: &mut impl FnMut(&[usize])) {
    if k >= p.len() {
        f(p);
        return;
    }
    for i in k..p.len() {
        p.swap(k, i);
        permute(p, k + 1, f);
        p.swap(k, i);
    }
}

/// Loads `g` into a fresh in-memory database through the non-transactional
/// `create_node_with_props` / `create_edge_with_props` API (before any session exists) and
/// returns the database with the id mapping.
pub fn load(g: &QGraph) -> (GrafeoDB, IdMap) {
    let db = GrafeoDB::new_in_memory();
    let ids = load_into(&db, g);
    (db, ids)
}

/// Same as [`load`] into an existing (e.g. specially configured) database.
pub fn load_into(db: &GrafeoDB, g: &QGraph) -> IdMap {
    let mut ids = IdMap::default();
    for n in &g.nodes {
        let labels: Vec<&str> = n.labels.iter().map(|s| s.as_str()).collect();
        let id = db.create_node_with_props(&labels, n.props.iter().map(|(k, v)| (k.as_str(), v.clone())));
        ids.nodes.push(id);
    }
    for e in &g.edges {
        let id = db.create_edge_with_props(ids.nodes[e.src], ids.nodes[e.dst], &e.etype, e.props.iter().map(|(k, v)| (k.as_str(), v.clone())));
        ids.edges.push(id);
    }
    ids
}

/// A node kind of a graph space (index into the alphabet is its "simplicity" rank).
#[derive(Clone, Debug, PartialEq)]
pub struct NodeKind {
    pub labels: Vec<&'static str>,
    pub p: Option<i64>,
    pub s: Option<&'static str>,
}
/// An edge kind: type and optional int property `w`.
#[derive(Clone, Debug, PartialEq)]
pub struct EdgeKind {
    pub etype: &'static str,
    pub w: Option<i64>,
}

/// The explicit finite product a graph enumeration ranges over.
#[derive(Clone, Debug)]
pub struct GraphSpace {
    pub max_nodes: usize,
    pub max_edges: usize,
    pub node_kinds: Vec<NodeKind>,
    pub edge_kinds: Vec<EdgeKind>,
}

fn nk(labels: &[&'static str], p: Option<i64>, s: Option<&'static str>) -> NodeKind {
    NodeKind { labels: labels.to_vec(), p, s }
}

impl GraphSpace {
    /// The full node alphabet of DESIGN.md/C08: labels {none, A, B, A+B} x p {absent,1,2} x
    /// s {absent,"x"} = 24 kinds, simplest first.
    pub fn full_node_kinds() -> Vec<NodeKind> {
        let mut v = vec![];
        for s in [None, Some("x")] {
            for labels in [&[][..], &["A"][..], &["B"][..], &["A", "B"][..]] {
                for p in [None, Some(1), Some(2)] {
                    v.push(nk(labels, p, s));
                }
            }
        }
        v
    }
    /// A reduced node alphabet (7 kinds) that still has: an unlabelled property-less node, two
    /// labels, a double-labelled node, duplicate and distinct `p` values across labels, a missing
    /// `p`, and `s` on some nodes only.
    pub fn core_node_kinds() -> Vec<NodeKind> {
        vec![
            nk(&[], None, None),
            nk(&["A"], Some(1), None),
            nk(&["A"], Some(2), Some("x")),
            nk(&["B"], Some(1), None),
            nk(&["B"], None, Some("x")),
            nk(&["A", "B"], Some(2), None),
            nk(&[], Some(1), Some("x")),
        ]
    }
    /// Edge alphabet: K, L without properties, K{w:1}, L{w:2}.
    pub fn full_edge_kinds() -> Vec<EdgeKind> {
        vec![EdgeKind { etype: "K", w: None }, EdgeKind { etype: "L", w: None }, EdgeKind { etype: "K", w: Some(1) }, EdgeKind { etype: "L", w: Some(2) }]
    }
    /// Edge alphabet without edge properties: K, L.
    pub fn plain_edge_kinds() -> Vec<EdgeKind> {
        vec![EdgeKind { etype: "K", w: None }, EdgeKind { etype: "L", w: None }]
    }

    pub fn to_json(&self) -> J {
        json!({
            "max_nodes": self.max_nodes, "max_edges": self.max_edges,
            "node_kinds": self.node_kinds.iter().map(|k| format!("{:?} p={:?} s={:?}", k.labels, k.p, k.s)).collect::<Vec<_>>(),
            "edge_kinds": self.edge_kinds.iter().map(|k| format!("{} w={:?}", k.etype, k.w)).collect::<Vec<_>>(),
        })
    }

    fn make(&self, nodes: &[usize], edges: &[(usize, usize, usize)]) -> QGraph {
        let mut g = QGraph::default();
        for &k in nodes {
            let kind = &self.node_kinds[k];
            let mut props = BTreeMap::new();
            if let Some(p) = kind.p {
                props.insert("p".to_string(), Value::Int64(p));
            }
            if let Some(s) = kind.s {
                props.insert("s".to_string(), Value::from(s));
            }
            g.nodes.push(QNode { labels: kind.labels.iter().map(|s| s.to_string()).collect(), props });
        }
        for &(s, d, k) in edges {
            let kind = &self.edge_kinds[k];
            let mut props = BTreeMap::new();
            if let Some(w) = kind.w {
                props.insert("w".to_string(), Value::Int64(w));
            }
            g.edges.push(QEdge { src: s, dst: d, etype: kind.etype.to_string(), props });
        }
        g
    }

    /// All graphs of the space, one per isomorphism class, simplest first. Also returns the
    /// number of labelled graphs (before the quotient) for the evidence.
    pub fn enumerate(&self) -> (Vec<QGraph>, u64) {
        let mut out = vec![];
        let mut labelled = 0u64;
        let mut seen: BTreeSet<String> = BTreeSet::new();
        let nk = self.node_kinds.len();
        for n in 0..=self.max_nodes {
            // non-decreasing sequences of node kinds (a multiset of kinds; positions still matter for edges)
            let mut node_sets: Vec<Vec<usize>> = vec![vec![]];
            for _ in 0..n {
                let mut next = vec![];
                for s in &node_sets {
                    let lo = s.last().copied().unwrap_or(0);
                    for k in lo..nk {
                        let mut t = s.clone();
                        t.push(k);
                        next.push(t);
                    }
                }
                node_sets = next;
            }
            // edge slots: (src, dst, kind)
            let mut slots = vec![];
            for s in 0..n {
                for d in 0..n {
                    for k in 0..self.edge_kinds.len() {
                        slots.push((s, d, k));
                    }
                }
            }
            for m in 0..=self.max_edges {
                if m > 0 && slots.is_empty() {
                    break;
                }
                // multisets of m slots (non-decreasing index sequences)
                let mut edge_sets: Vec<Vec<usize>> = vec![vec![]];
                for _ in 0..m {
                    let mut next = vec![];
                    for s in &edge_sets {
                        let lo = s.last().copied().unwrap_or(0);
                        for k in lo..slots.len() {
                            let mut t = s.clone();
                            t.push(k);
                            next.push(t);
                        }
                    }
                    edge_sets = next;
                }
                for ns in &node_sets {
                    for es in &edge_sets {
                        labelled += 1;
                        let edges: Vec<(usize, usize, usize)> = es.iter().map(|&i| slots[i]).collect();
                        let g = self.make(ns, &edges);
                        if seen.insert(g.canonical_key()) {
                            out.push(g);
                        }
                    }
                }
            }
        }
        (out, labelled)
    }
}
