//! Comparison of an engine answer with a [`RefAnswer`], asking only for what the property
//! statement fixes:
//!
//! * no ORDER BY, no window: equal multisets of rows;
//! * ORDER BY: the row at position *i* must pair with the *i*-th smallest key (rows with equal
//!   keys may come in any order; a non-returned key is recovered from the reference pairing);
//!   NULL keys may sit at either end as one block;
//! * SKIP/LIMIT under ORDER BY: the same with positions shifted by SKIP;
//! * SKIP/LIMIT without ORDER BY: the right size and a sub-multiset of the unlimited answer.
//!
//! Values are normalised before comparing ([`canon_value`]): integral floats and ints compare
//! equal, other floats are rounded to 12 significant digits, `collect` lists are sorted.

use super::eval::{RefAnswer, cmp_values};
use grafeo_common::types::Value;
use std::collections::BTreeMap;

/// Totally ordered, hashable normal form of a result value.
#[derive(Clone, Debug, PartialEq, Eq, PartialOrd, Ord, Hash)]
pub enum CVal {
    Null,
    Bool(bool),
    Int(i64),
    /// bits of the float rounded to 12 significant digits
    Float(u64),
    Str(String),
    /// element-sorted
    List(Vec<CVal>),
    Other(String),
}

pub fn canon_value(v: &Value) -> CVal {
    match v {
        Value::Null => CVal::Null,
        Value::Bool(b) => CVal::Bool(*b),
        Value::Int64(i) => CVal::Int(*i),
        Value::Float64(f) => {
            if f.is_finite() && f.fract() == 0.0 && f.abs() < 9.0e15 {
                CVal::Int(*f as i64)
            } else if f.is_finite() {
                let r: f64 = format!("{f:.11e}").parse().unwrap_or(*f);
                CVal::Float(r.to_bits())
            } else {
                CVal::Float(f.to_bits())
            }
        }
        Value::String(s) => CVal::Str(s.as_str().to_string()),
        Value::List(l) => {
            let mut v: Vec<CVal> = l.iter().map(canon_value).collect();
            v.sort();
            CVal::List(v)
        }
        o => CVal::Other(format!("{o:?}")),
    }
}

/// Normal form of a result: node / edge values are already ids (`Int64`) in this engine; ints and
/// integral floats are unified; lists are sorted. Row order is preserved.
pub fn canon_rows(rows: &[Vec<Value>]) -> Vec<Vec<CVal>> {
    rows.iter().map(|r| r.iter().map(canon_value).collect()).collect()
}

/// Multiset of canonical rows.
pub fn multiset(rows: &[Vec<CVal>]) -> BTreeMap<Vec<CVal>, usize> {
    let mut m = BTreeMap::new();
    for r in rows {
        *m.entry(r.clone()).or_insert(0) += 1;
    }
    m
}
fn sub_multiset(a: &BTreeMap<Vec<CVal>, usize>, b: &BTreeMap<Vec<CVal>, usize>) -> bool {
    a.iter().all(|(k, n)| b.get(k).copied().unwrap_or(0) >= *n)
}

/// Kinds of disagreement between engine and reference.
pub const KINDS: [&str; 7] = ["missing-rows", "extra-rows", "wrong-value", "wrong-order", "wrong-window", "wrong-arity", "panic"];

#[derive(Clone, Debug, PartialEq)]
pub enum Verdict {
    /// Agreement; the listed tolerances were needed.
    Ok(Vec<&'static str>),
    Bad { kind: &'static str, detail: String },
}
impl Verdict {
    pub fn is_ok(&self) -> bool {
        matches!(self, Verdict::Ok(_))
    }
    pub fn kind(&self) -> Option<&'static str> {
        match self {
            Verdict::Bad { kind, .. } => Some(kind),
            _ => None,
        }
    }
}

fn show(rows: &[Vec<CVal>]) -> String {
    let cell = |c: &CVal| match c {
        CVal::Null => "NULL".to_string(),
        CVal::Bool(b) => b.to_string(),
        CVal::Int(i) => i.to_string(),
        CVal::Float(b) => format!("{}", f64::from_bits(*b)),
        CVal::Str(s) => format!("'{s}'"),
        CVal::List(l) => format!("{:?}", l),
        CVal::Other(s) => s.clone(),
    };
    let s: Vec<String> = rows.iter().take(12).map(|r| format!("[{}]", r.iter().map(cell).collect::<Vec<_>>().join(","))).collect();
    format!("{}{}", s.join(" "), if rows.len() > 12 { " …" } else { "" })
}

fn multiset_kind(eng: usize, want: usize) -> &'static str {
    if eng < want {
        "missing-rows"
    } else if eng > want {
        "extra-rows"
    } else {
        "wrong-value"
    }
}

/// Judges `engine` against one reference answer.
pub fn compare_one(engine: &[Vec<Value>], r: &RefAnswer) -> Verdict {
    if let Some(bad) = engine.iter().find(|row| row.len() != r.arity) {
        return Verdict::Bad { kind: "wrong-arity", detail: format!("query returns {} item(s) but a row has {} column(s): {:?}", r.arity, bad.len(), bad) };
    }
    let mut tol: Vec<&'static str> = vec![];
    let mut eng = canon_rows(engine);
    // sum over nothing: 0 and NULL are both accepted
    let mut want_all = canon_rows(&r.rows);
    for &c in &r.sum_cols {
        for (rows, is_eng) in [(&mut eng, true), (&mut want_all, false)] {
            for row in rows.iter_mut() {
                if row[c] == CVal::Null {
                    row[c] = CVal::Int(0);
                    if is_eng {
                        tol.push("sum-of-nothing-null");
                    }
                }
            }
        }
    }
    let s = (r.skip as usize).min(want_all.len());
    let e = match r.limit {
        Some(l) => (s + l as usize).min(want_all.len()),
        None => want_all.len(),
    };
    let want_n = e - s;
    let all_ms = multiset(&want_all);
    let eng_ms = multiset(&eng);
    let describe = |what: &str| format!("{what}: engine {} row(s) {} / reference {} row(s) {}{}", eng.len(), show(&eng), want_n, show(&want_all[s..e]), if r.has_window() { format!(" (window skip={} limit={:?} of {} rows: {})", r.skip, r.limit, want_all.len(), show(&want_all)) } else { String::new() });

    match &r.keys {
        None => {
            if !r.has_window() {
                if eng_ms == all_ms {
                    return Verdict::Ok(tol);
                }
                return Verdict::Bad { kind: multiset_kind(eng.len(), want_n), detail: describe("multisets differ") };
            }
            if eng.len() != want_n {
                return Verdict::Bad { kind: multiset_kind(eng.len(), want_n), detail: describe("wrong number of rows under SKIP/LIMIT") };
            }
            if !sub_multiset(&eng_ms, &all_ms) {
                return Verdict::Bad { kind: "wrong-value", detail: describe("rows under SKIP/LIMIT are not taken from the unlimited answer") };
            }
            if want_n < want_all.len() {
                tol.push("window-without-order");
            }
            Verdict::Ok(tol)
        }
        Some(keys) => {
            if eng.len() != want_n {
                return Verdict::Bad { kind: multiset_kind(eng.len(), want_n), detail: describe("wrong number of rows") };
            }
            // the sorted key sequence with the NULL block last / first
            let ck: Vec<CVal> = keys.iter().map(canon_value).collect();
            let nonnull: Vec<CVal> = {
                let mut idx: Vec<usize> = (0..keys.len()).filter(|i| !keys[*i].is_null()).collect();
                idx.sort_by(|a, b| {
                    let o = cmp_values(&keys[*a], &keys[*b]).unwrap_or(std::cmp::Ordering::Equal);
                    if r.desc { o.reverse() } else { o }
                });
                idx.into_iter().map(|i| ck[i].clone()).collect()
            };
            let nulls = keys.len() - nonnull.len();
            let mut placements: Vec<(Vec<CVal>, &'static str)> = vec![];
            let mut last = nonnull.clone();
            last.extend(std::iter::repeat_n(CVal::Null, nulls));
            placements.push((last, "null-keys-last"));
            if nulls > 0 {
                let mut first: Vec<CVal> = std::iter::repeat_n(CVal::Null, nulls).collect();
                first.extend(nonnull.iter().cloned());
                placements.push((first, "null-keys-first"));
            }
            for (seq, name) in &placements {
                let mut pairs: BTreeMap<(Vec<CVal>, CVal), usize> = BTreeMap::new();
                for (row, k) in want_all.iter().zip(&ck) {
                    *pairs.entry((row.clone(), k.clone())).or_insert(0) += 1;
                }
                let mut ok = true;
                for (i, row) in eng.iter().enumerate() {
                    match pairs.get_mut(&(row.clone(), seq[s + i].clone())) {
                        Some(n) if *n > 0 => *n -= 1,
                        _ => {
                            ok = false;
                            break;
                        }
                    }
                }
                if ok {
                    if nulls > 0 {
                        tol.push(name);
                    }
                    return Verdict::Ok(tol);
                }
            }
            let kind = if !r.has_window() || want_n == want_all.len() {
                if eng_ms == all_ms { "wrong-order" } else { multiset_kind(eng.len(), want_n) }
            } else if sub_multiset(&eng_ms, &all_ms) {
                "wrong-window"
            } else {
                "wrong-value"
            };
            Verdict::Bad { kind, detail: format!("{} (ORDER BY keys of the reference rows, in order: {})", describe("not a valid ordered answer"), show(&[placements[0].0.clone()])) }
        }
    }
}

/// Judges `engine` against the reference answer `primary`, falling back to `alt` (the same query
/// evaluated with the other self-loop convention for undirected hops) — both are accepted.
pub fn compare(engine: &[Vec<Value>], primary: &RefAnswer, alt: Option<&RefAnswer>) -> Verdict {
    let v = compare_one(engine, primary);
    if v.is_ok() {
        return v;
    }
    if let Some(a) = alt {
        if let Verdict::Ok(mut t) = compare_one(engine, a) {
            t.push("undirected-self-loop-once");
            return Verdict::Ok(t);
        }
    }
    v
}

/// Do two engine answers to the same question agree? (`ordered`: compare as sequences.)
/// Only meaningful when the reference answer is unique (no window, or a total order).
pub fn answers_agree(a: &[Vec<Value>], b: &[Vec<Value>], ordered: bool) -> bool {
    let (ca, cb) = (canon_rows(a), canon_rows(b));
    if ordered { ca == cb } else { multiset(&ca) == multiset(&cb) }
}
