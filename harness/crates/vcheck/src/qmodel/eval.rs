//! Naive reference evaluator: enumerate ALL bindings of the pattern variables (homomorphism
//! semantics: a node or an edge may be bound by several pattern elements; a variable-length hop
//! enumerates walks), then apply WHERE (three-valued), projection / grouping, DISTINCT, ORDER BY,
//! SKIP / LIMIT, in that order.

use super::ast::*;
use super::graph::{IdMap, QGraph};
use grafeo_common::types::Value;
use std::cmp::Ordering;
use std::collections::BTreeMap;

/// Semantic switches for the places where the property statement under-determines the answer.
#[derive(Clone, Copy, Debug, PartialEq, Eq)]
pub struct EvalOpts {
    /// An undirected hop standing on a self-loop traverses it once per orientation (twice) when
    /// true, once when false.
    pub loop_twice: bool,
}
impl Default for EvalOpts {
    fn default() -> Self {
        EvalOpts { loop_twice: true }
    }
}

#[derive(Clone, Copy, Debug, PartialEq, Eq, PartialOrd, Ord)]
pub enum Bound {
    Node(usize),
    Edge(usize),
}
pub type Binding = BTreeMap<String, Bound>;

/// The reference answer *before* SKIP/LIMIT together with what is needed to judge an engine
/// answer: the ORDER BY key of every row, the window, and which columns are `sum` / `avg`.
#[derive(Clone, Debug)]
pub struct RefAnswer {
    /// Rows after projection / grouping / DISTINCT and (stable) ORDER BY, before SKIP / LIMIT.
    pub rows: Vec<Vec<Value>>,
    /// ORDER BY key of each row (same length as `rows`) when the query orders.
    pub keys: Option<Vec<Value>>,
    pub desc: bool,
    pub skip: u64,
    pub limit: Option<u64>,
    pub arity: usize,
    /// Column indexes holding `sum(..)` (an empty / all-NULL group may be 0 or NULL).
    pub sum_cols: Vec<usize>,
    /// Number of pattern bindings that survived WHERE (non-triviality measure).
    pub bindings: usize,
}

impl RefAnswer {
    /// One valid final answer (the reference order, windowed).
    pub fn windowed(&self) -> Vec<Vec<Value>> {
        let s = (self.skip as usize).min(self.rows.len());
        let e = match self.limit {
            Some(l) => (s + l as usize).min(self.rows.len()),
            None => self.rows.len(),
        };
        self.rows[s..e].to_vec()
    }
    pub fn has_window(&self) -> bool {
        self.skip > 0 || self.limit.is_some()
    }
    /// Are all ORDER BY keys distinct and non-NULL (the order is then total)?
    pub fn total_order(&self) -> bool {
        match &self.keys {
            None => false,
            Some(k) => {
                for i in 0..k.len() {
                    if k[i].is_null() {
                        return false;
                    }
                    for j in 0..i {
                        if cmp_values(&k[i], &k[j]) == Some(Ordering::Equal) {
                            return false;
                        }
                    }
                }
                true
            }
        }
    }
}

/// Comparison of two non-NULL values of comparable type; `None` = unknown (a NULL operand or
/// incomparable types).
pub fn cmp_values(a: &Value, b: &Value) -> Option<Ordering> {
    match (a, b) {
        (Value::Int64(x), Value::Int64(y)) => Some(x.cmp(y)),
        (Value::Float64(x), Value::Float64(y)) => x.partial_cmp(y),
        (Value::Int64(x), Value::Float64(y)) => (*x as f64).partial_cmp(y),
        (Value::Float64(x), Value::Int64(y)) => x.partial_cmp(&(*y as f64)),
        (Value::String(x), Value::String(y)) => Some(x.as_str().cmp(y.as_str())),
        (Value::Bool(x), Value::Bool(y)) => Some(x.cmp(y)),
        _ => None,
    }
}

fn same_type_class(a: &Value, b: &Value) -> bool {
    let c = |v: &Value| match v {
        Value::Int64(_) | Value::Float64(_) => 1,
        Value::String(_) => 2,
        Value::Bool(_) => 3,
        _ => 4,
    };
    c(a) == c(b)
}

/// Three-valued comparison: `None` = unknown.
pub fn eval_cmp(a: &Value, op: CmpOp, b: &Value) -> Option<bool> {
    if a.is_null() || b.is_null() {
        return None;
    }
    if !same_type_class(a, b) {
        // values of different type classes are never equal; their order is unknown
        return match op {
            CmpOp::Eq => Some(false),
            CmpOp::Ne => Some(true),
            _ => None,
        };
    }
    let o = cmp_values(a, b)?;
    Some(match op {
        CmpOp::Eq => o == Ordering::Equal,
        CmpOp::Ne => o != Ordering::Equal,
        CmpOp::Lt => o == Ordering::Less,
        CmpOp::Le => o != Ordering::Greater,
        CmpOp::Gt => o == Ordering::Greater,
        CmpOp::Ge => o != Ordering::Less,
    })
}

struct Ctx<'a> {
    g: &'a QGraph,
    ids: &'a IdMap,
    opts: EvalOpts,
}

impl Ctx<'_> {
    fn prop(&self, b: &Binding, var: &str, key: &str) -> Value {
        match b.get(var) {
            Some(Bound::Node(i)) => self.g.nodes[*i].props.get(key).cloned().unwrap_or(Value::Null),
            Some(Bound::Edge(i)) => self.g.edges[*i].props.get(key).cloned().unwrap_or(Value::Null),
            None => Value::Null,
        }
    }
    fn var(&self, b: &Binding, var: &str) -> Value {
        match b.get(var) {
            Some(Bound::Node(i)) => Value::Int64(self.ids.nodes[*i].0 as i64),
            Some(Bound::Edge(i)) => Value::Int64(self.ids.edges[*i].0 as i64),
            None => Value::Null,
        }
    }
    fn operand(&self, b: &Binding, o: &Operand) -> Value {
        match o {
            Operand::Prop(v, k) => self.prop(b, v, k),
            Operand::Lit(l) => l.clone(),
        }
    }
    fn pred(&self, b: &Binding, p: &Pred) -> Option<bool> {
        match p {
            Pred::Cmp(l, op, r) => eval_cmp(&self.operand(b, l), *op, &self.operand(b, r)),
            Pred::IsNull(o) => Some(self.operand(b, o).is_null()),
            Pred::Not { inner, .. } => self.pred(b, inner).map(|x| !x),
            Pred::And(x, y) => match (self.pred(b, x), self.pred(b, y)) {
                (Some(false), _) | (_, Some(false)) => Some(false),
                (Some(true), Some(true)) => Some(true),
                _ => None,
            },
            Pred::Or(x, y) => match (self.pred(b, x), self.pred(b, y)) {
                (Some(true), _) | (_, Some(true)) => Some(true),
                (Some(false), Some(false)) => Some(false),
                _ => None,
            },
        }
    }
    fn item(&self, b: &Binding, i: &Item) -> Value {
        match i {
            Item::Var(v) => self.var(b, v),
            Item::Prop(v, k) => self.prop(b, v, k),
            Item::Agg { .. } => Value::Null,
        }
    }
    fn node_ok(&self, n: &NodePat, i: usize) -> bool {
        n.labels.iter().all(|l| self.g.nodes[i].labels.contains(l))
    }
    /// One traversal step from `cur`: (edge index, next node) for every way the hop can use an edge.
    fn steps(&self, cur: usize, dir: Dir, etype: Option<&String>) -> Vec<(usize, usize)> {
        let mut out = vec![];
        for (ei, e) in self.g.edges.iter().enumerate() {
            if etype.is_some_and(|t| *t != e.etype) {
                continue;
            }
            match dir {
                Dir::Out => {
                    if e.src == cur {
                        out.push((ei, e.dst));
                    }
                }
                Dir::In => {
                    if e.dst == cur {
                        out.push((ei, e.src));
                    }
                }
                Dir::Both => {
                    if e.src == cur && e.dst == cur {
                        out.push((ei, cur));
                        if self.opts.loop_twice {
                            out.push((ei, cur));
                        }
                    } else if e.src == cur {
                        out.push((ei, e.dst));
                    } else if e.dst == cur {
                        out.push((ei, e.src));
                    }
                }
            }
        }
        out
    }
    fn extend_hops(&self, b: Binding, cur: usize, hops: &[Hop], out: &mut Vec<Binding>) {
        let Some(h) = hops.first() else {
            out.push(b);
            return;
        };
        // (optional single edge, end node) of every walk admitted by this hop
        let mut ends: Vec<(Option<usize>, usize)> = vec![];
        match h.varlen {
            None => {
                for (e, n) in self.steps(cur, h.dir, h.etype.as_ref()) {
                    ends.push((Some(e), n));
                }
            }
            Some((lo, hi)) => {
                let mut frontier = vec![cur];
                if lo == 0 {
                    ends.push((None, cur));
                }
                for len in 1..=hi {
                    let mut next = vec![];
                    for c in &frontier {
                        for (_, n) in self.steps(*c, h.dir, h.etype.as_ref()) {
                            next.push(n);
                        }
                    }
                    if len >= lo {
                        for n in &next {
                            ends.push((None, *n));
                        }
                    }
                    frontier = next;
                }
            }
        }
        for (e, n) in ends {
            if !self.node_ok(&h.to, n) {
                continue;
            }
            let mut b2 = b.clone();
            match b2.get(&h.to.var) {
                Some(Bound::Node(x)) if *x != n => continue,
                Some(Bound::Edge(_)) => continue,
                _ => {
                    b2.insert(h.to.var.clone(), Bound::Node(n));
                }
            }
            if let (Some(ev), Some(e)) = (&h.evar, e) {
                match b2.get(ev) {
                    Some(Bound::Edge(x)) if *x != e => continue,
                    Some(Bound::Node(_)) => continue,
                    _ => {
                        b2.insert(ev.clone(), Bound::Edge(e));
                    }
                }
            }
            self.extend_hops(b2, n, &hops[1..], out);
        }
    }
    fn bindings(&self, q: &Query) -> Vec<Binding> {
        let main = self.match_paths(vec![Binding::new()], &q.paths);
        if q.optional.is_empty() {
            return main;
        }
        let mut out = vec![];
        for b in main {
            let ext = self.match_paths(vec![b.clone()], &q.optional);
            if ext.is_empty() {
                out.push(b); // the optional variables stay unbound (NULL)
            } else {
                out.extend(ext);
            }
        }
        out
    }
    fn match_paths(&self, start: Vec<Binding>, paths: &[PathPat]) -> Vec<Binding> {
        let mut cur = start;
        for p in paths {
            let mut next = vec![];
            for b in cur {
                for i in 0..self.g.nodes.len() {
                    if !self.node_ok(&p.start, i) {
                        continue;
                    }
                    match b.get(&p.start.var) {
                        Some(Bound::Node(x)) if *x != i => continue,
                        Some(Bound::Edge(_)) => continue,
                        _ => {}
                    }
                    let mut b2 = b.clone();
                    b2.insert(p.start.var.clone(), Bound::Node(i));
                    self.extend_hops(b2, i, &p.hops, &mut next);
                }
            }
            cur = next;
        }
        cur
    }
}

/// Pattern bindings of `q` in `g` that satisfy WHERE (in enumeration order).
pub fn bindings(g: &QGraph, q: &Query, opts: EvalOpts) -> Vec<Binding> {
    let ids = IdMap::identity(g);
    let cx = Ctx { g, ids: &ids, opts };
    let mut bs = cx.bindings(q);
    if let Some(w) = &q.where_ {
        bs.retain(|b| cx.pred(b, w) == Some(true));
    }
    bs
}

fn same_value(a: &Value, b: &Value) -> bool {
    // grouping / DISTINCT equality: NULL equals NULL
    match (a, b) {
        (Value::Null, Value::Null) => true,
        (Value::Null, _) | (_, Value::Null) => false,
        _ => cmp_values(a, b) == Some(Ordering::Equal) && same_type_class(a, b),
    }
}
fn same_row(a: &[Value], b: &[Value]) -> bool {
    a.len() == b.len() && a.iter().zip(b).all(|(x, y)| same_value(x, y))
}

fn aggregate(f: AggFn, distinct: bool, is_var: bool, vals: &[Value]) -> Value {
    let mut v: Vec<&Value> = vals.iter().filter(|x| !x.is_null()).collect();
    if distinct {
        let mut d: Vec<&Value> = vec![];
        for x in v {
            if !d.iter().any(|y| same_value(x, y)) {
                d.push(x);
            }
        }
        v = d;
    }
    let _ = is_var;
    match f {
        AggFn::Count => Value::Int64(v.len() as i64),
        AggFn::Sum => {
            if v.iter().all(|x| matches!(x, Value::Int64(_))) {
                Value::Int64(v.iter().map(|x| if let Value::Int64(i) = x { *i } else { 0 }).sum())
            } else {
                Value::Float64(v.iter().map(|x| match x {
                    Value::Int64(i) => *i as f64,
                    Value::Float64(f) => *f,
                    _ => 0.0,
                }).sum())
            }
        }
        AggFn::Min | AggFn::Max => {
            let mut best: Option<&Value> = None;
            for x in v {
                best = match best {
                    None => Some(x),
                    Some(b) => {
                        let o = cmp_values(x, b);
                        if (f == AggFn::Min && o == Some(Ordering::Less)) || (f == AggFn::Max && o == Some(Ordering::Greater)) { Some(x) } else { Some(b) }
                    }
                };
            }
            best.cloned().unwrap_or(Value::Null)
        }
        AggFn::Avg => {
            if v.is_empty() {
                Value::Null
            } else {
                let s: f64 = v.iter().map(|x| match x {
                    Value::Int64(i) => *i as f64,
                    Value::Float64(f) => *f,
                    _ => 0.0,
                }).sum();
                Value::Float64(s / v.len() as f64)
            }
        }
        AggFn::Collect => Value::List(v.into_iter().cloned().collect::<Vec<_>>().into()),
    }
}

/// Evaluates `q` over `g`; node / edge items are rendered as `Int64(id)` through `ids`.
pub fn eval(g: &QGraph, ids: &IdMap, q: &Query, opts: EvalOpts) -> RefAnswer {
    let cx = Ctx { g, ids, opts };
    let mut bs = cx.bindings(q);
    if let Some(w) = &q.where_ {
        bs.retain(|b| cx.pred(b, w) == Some(true));
    }
    let nb = bs.len();
    let arity = q.items.len();
    let mut sum_cols = vec![];
    for (i, it) in q.items.iter().enumerate() {
        if matches!(it, Item::Agg { f: AggFn::Sum, .. }) {
            sum_cols.push(i);
        }
    }
    // rows with their ORDER BY key
    let mut rows: Vec<(Vec<Value>, Value)> = vec![];
    if q.has_agg() {
        let key_idx: Vec<usize> = (0..arity).filter(|i| !q.items[*i].is_agg()).collect();
        let mut groups: Vec<(Vec<Value>, Vec<&Binding>)> = vec![];
        for b in &bs {
            let k: Vec<Value> = key_idx.iter().map(|i| cx.item(b, &q.items[*i])).collect();
            match groups.iter_mut().find(|gk| same_row(&gk.0, &k)) {
                Some(gk) => gk.1.push(b),
                None => groups.push((k, vec![b])),
            }
        }
        if key_idx.is_empty() && groups.is_empty() {
            groups.push((vec![], vec![])); // global aggregate over no rows yields one row
        }
        for (k, members) in &groups {
            let mut row = vec![];
            let mut ki = 0;
            for it in &q.items {
                match it {
                    Item::Agg { f, arg, distinct } => {
                        let vals: Vec<Value> = members.iter().map(|b| cx.item(b, arg)).collect();
                        row.push(aggregate(*f, *distinct, matches!(**arg, Item::Var(_)), &vals));
                    }
                    _ => {
                        row.push(k[ki].clone());
                        ki += 1;
                    }
                }
            }
            let key = match &q.order_by {
                Some(o) => q.items.iter().position(|i| *i == o.key).map(|p| row[p].clone()).unwrap_or(Value::Null),
                None => Value::Null,
            };
            rows.push((row, key));
        }
    } else {
        for b in &bs {
            let row: Vec<Value> = q.items.iter().map(|i| cx.item(b, i)).collect();
            let key = match &q.order_by {
                Some(o) => cx.item(b, &o.key),
                None => Value::Null,
            };
            rows.push((row, key));
        }
    }
    if q.distinct {
        let mut d: Vec<(Vec<Value>, Value)> = vec![];
        for r in rows {
            if !d.iter().any(|x| same_row(&x.0, &r.0)) {
                d.push(r);
            }
        }
        rows = d;
    }
    let mut desc = false;
    if let Some(o) = &q.order_by {
        desc = o.desc;
        // reference placement: NULL is the greatest value (last ascending, first descending)
        rows.sort_by(|a, b| {
            let o = match (a.1.is_null(), b.1.is_null()) {
                (true, true) => Ordering::Equal,
                (true, false) => Ordering::Greater,
                (false, true) => Ordering::Less,
                _ => cmp_values(&a.1, &b.1).unwrap_or(Ordering::Equal),
            };
            if desc { o.reverse() } else { o }
        });
    }
    let keys = q.order_by.as_ref().map(|_| rows.iter().map(|r| r.1.clone()).collect());
    RefAnswer { rows: rows.into_iter().map(|r| r.0).collect(), keys, desc, skip: q.skip.unwrap_or(0), limit: q.limit, arity, sum_cols, bindings: nb }
}
