//! Renderers from the neutral [`Query`] to the four front ends.
//!
//! `render` returns `None` when the *renderer* has no spelling for the query in that language
//! (Gremlin / GraphQL cover a subset); an `Err` from the engine on a rendered text is counted by
//! callers as "not expressible", never as a wrong answer.
//!
//! Probed facts the spellings rely on (pinned tree): GQL and Cypher share
//! `MATCH (x:A:B)-[e:K*1..2]->(y) WHERE .. RETURN [DISTINCT] .. ORDER BY .. [DESC] SKIP n LIMIT n`;
//! GQL has no `IS NULL`, no `count(*)`; GraphQL maps a lower-case root field `a` to label `A`
//! (capitalize_first), a nested field to an outgoing edge type (case preserved), `where:{p_gt:1}`
//! suffix operators, `orderBy:{p:ASC}`, `skip`, `first`; Gremlin covers
//! `g.V().hasLabel().has(k, pred).out|in|both(type)...order().by(k[,desc]).values(k).dedup().skip().limit()`
//! and the terminal `count()/sum()/min()/max()/mean()`.

use super::ast::*;
use grafeo_common::types::Value;

#[derive(Clone, Copy, Debug, PartialEq, Eq, Hash, PartialOrd, Ord)]
pub enum Lang {
    Gql,
    Cypher,
    Gremlin,
    GraphQL,
}
impl Lang {
    pub const ALL: [Lang; 4] = [Lang::Gql, Lang::Cypher, Lang::Gremlin, Lang::GraphQL];
    pub fn name(self) -> &'static str {
        match self {
            Lang::Gql => "gql",
            Lang::Cypher => "cypher",
            Lang::Gremlin => "gremlin",
            Lang::GraphQL => "graphql",
        }
    }
    pub fn from_name(s: &str) -> Option<Lang> {
        Lang::ALL.into_iter().find(|l| l.name() == s)
    }
}

/// Text of `q` in `lang`, or `None` if this renderer cannot spell it there.
pub fn render(q: &Query, lang: Lang) -> Option<String> {
    match lang {
        Lang::Gql | Lang::Cypher => Some(render_gql_like(q)),
        Lang::Gremlin => render_gremlin(q),
        Lang::GraphQL => render_graphql(q),
    }
}

fn lit(v: &Value) -> String {
    match v {
        Value::Null => "NULL".into(),
        Value::Bool(b) => if *b { "true" } else { "false" }.into(),
        Value::Int64(i) => i.to_string(),
        Value::Float64(f) => {
            if f.fract() == 0.0 { format!("{f:.1}") } else { format!("{f}") }
        }
        Value::String(s) => format!("'{}'", s.as_str()),
        o => format!("{o}"),
    }
}
fn operand(o: &Operand) -> String {
    match o {
        Operand::Prop(v, k) => format!("{v}.{k}"),
        Operand::Lit(v) => lit(v),
    }
}
fn prec(p: &Pred) -> u8 {
    match p {
        Pred::Or(..) => 1,
        Pred::And(..) => 2,
        Pred::Not { .. } => 3,
        Pred::Cmp(..) | Pred::IsNull(_) => 4,
    }
}
/// WHERE text with minimal parentheses under the standard precedence OR < AND < NOT < comparison.
pub fn render_pred(p: &Pred) -> String {
    let child = |c: &Pred, min: u8| if prec(c) < min { format!("({})", render_pred(c)) } else { render_pred(c) };
    match p {
        Pred::Cmp(l, op, r) => format!("{} {} {}", operand(l), op.sym(), operand(r)),
        Pred::IsNull(o) => format!("{} IS NULL", operand(o)),
        Pred::And(a, b) => format!("{} AND {}", child(a, 2), child(b, 3)),
        Pred::Or(a, b) => format!("{} OR {}", child(a, 1), child(b, 2)),
        Pred::Not { inner, parens } => {
            if *parens { format!("NOT ({})", render_pred(inner)) } else { format!("NOT {}", child(inner, 3)) }
        }
    }
}
fn node_pat(n: &NodePat) -> String {
    let l: String = n.labels.iter().map(|l| format!(":{l}")).collect();
    format!("({}{})", n.var, l)
}
fn path_pat(p: &PathPat) -> String {
    let mut s = node_pat(&p.start);
    for h in &p.hops {
        let mut inner = String::new();
        if let Some(e) = &h.evar {
            inner.push_str(e);
        }
        if let Some(t) = &h.etype {
            inner.push(':');
            inner.push_str(t);
        }
        if let Some((a, b)) = h.varlen {
            inner.push_str(&format!("*{a}..{b}"));
        }
        let (l, r) = match h.dir {
            Dir::Out => ("-", "->"),
            Dir::In => ("<-", "-"),
            Dir::Both => ("-", "-"),
        };
        s.push_str(&format!("{l}[{inner}]{r}{}", node_pat(&h.to)));
    }
    s
}
fn item(i: &Item) -> String {
    match i {
        Item::Var(v) => v.clone(),
        Item::Prop(v, k) => format!("{v}.{k}"),
        Item::Agg { f, arg, distinct } => format!("{}({}{})", f.name(), if *distinct { "DISTINCT " } else { "" }, item(arg)),
    }
}

/// GQL and Cypher share the spelling of the core.
pub fn render_gql_like(q: &Query) -> String {
    let mut s = format!("MATCH {}", q.paths.iter().map(path_pat).collect::<Vec<_>>().join(", "));
    if !q.optional.is_empty() {
        s.push_str(&format!(" OPTIONAL MATCH {}", q.optional.iter().map(path_pat).collect::<Vec<_>>().join(", ")));
    }
    if let Some(w) = &q.where_ {
        s.push_str(&format!(" WHERE {}", render_pred(w)));
    }
    s.push_str(" RETURN ");
    if q.distinct {
        s.push_str("DISTINCT ");
    }
    s.push_str(&q.items.iter().map(item).collect::<Vec<_>>().join(", "));
    if let Some(o) = &q.order_by {
        s.push_str(&format!(" ORDER BY {}{}", item(&o.key), if o.desc { " DESC" } else { "" }));
    }
    if let Some(n) = q.skip {
        s.push_str(&format!(" SKIP {n}"));
    }
    if let Some(n) = q.limit {
        s.push_str(&format!(" LIMIT {n}"));
    }
    s
}

/// Flattens a predicate into a conjunction of `var.key op literal` atoms; `None` if it is not one.
fn conj_atoms(p: &Pred, out: &mut Vec<(String, String, CmpOp, Value)>) -> Option<()> {
    match p {
        Pred::And(a, b) => {
            conj_atoms(a, out)?;
            conj_atoms(b, out)
        }
        Pred::Cmp(Operand::Prop(v, k), op, Operand::Lit(l)) => {
            out.push((v.clone(), k.clone(), *op, l.clone()));
            Some(())
        }
        Pred::Cmp(Operand::Lit(l), op, Operand::Prop(v, k)) => {
            let flipped = match op {
                CmpOp::Lt => CmpOp::Gt,
                CmpOp::Le => CmpOp::Ge,
                CmpOp::Gt => CmpOp::Lt,
                CmpOp::Ge => CmpOp::Le,
                o => *o,
            };
            out.push((v.clone(), k.clone(), flipped, l.clone()));
            Some(())
        }
        _ => None,
    }
}

fn glit(v: &Value) -> Option<String> {
    match v {
        Value::Int64(i) => Some(i.to_string()),
        Value::String(s) => Some(format!("'{}'", s.as_str())),
        Value::Bool(b) => Some(b.to_string()),
        Value::Float64(f) => Some(format!("{f:?}")),
        _ => None,
    }
}

/// Gremlin: one path, anonymous fixed-length hops, conjunctive literal filters, one result item
/// taken from the last vertex of the traversal.
pub fn render_gremlin(q: &Query) -> Option<String> {
    if q.paths.len() != 1 || q.items.len() != 1 || !q.optional.is_empty() {
        return None;
    }
    let p = &q.paths[0];
    if p.hops.iter().any(|h| h.varlen.is_some()) {
        return None;
    }
    let last = p.hops.last().map(|h| &h.to).unwrap_or(&p.start);
    let mut atoms = vec![];
    if let Some(w) = &q.where_ {
        conj_atoms(w, &mut atoms)?;
    }
    let node_steps = |n: &NodePat, atoms: &[(String, String, CmpOp, Value)]| -> Option<String> {
        let mut s = String::new();
        for l in &n.labels {
            s.push_str(&format!(".hasLabel('{l}')"));
        }
        for (v, k, op, l) in atoms {
            if *v == n.var {
                let l = glit(l)?;
                s.push_str(&match op {
                    CmpOp::Eq => format!(".has('{k}', {l})"),
                    CmpOp::Ne => format!(".has('{k}', neq({l}))"),
                    CmpOp::Lt => format!(".has('{k}', lt({l}))"),
                    CmpOp::Le => format!(".has('{k}', lte({l}))"),
                    CmpOp::Gt => format!(".has('{k}', gt({l}))"),
                    CmpOp::Ge => format!(".has('{k}', gte({l}))"),
                });
            }
        }
        Some(s)
    };
    // every atom must be about a node variable of the path, each variable bound once
    let mut vars: Vec<&str> = vec![&p.start.var];
    for h in &p.hops {
        if vars.contains(&h.to.var.as_str()) {
            return None;
        }
        vars.push(&h.to.var);
    }
    if atoms.iter().any(|a| !vars.contains(&a.0.as_str())) {
        return None;
    }
    let mut s = String::from("g.V()");
    s.push_str(&node_steps(&p.start, &atoms)?);
    for h in &p.hops {
        let step = match h.dir {
            Dir::Out => "out",
            Dir::In => "in",
            Dir::Both => "both",
        };
        match &h.etype {
            Some(t) => s.push_str(&format!(".{step}('{t}')")),
            None => s.push_str(&format!(".{step}()")),
        }
        s.push_str(&node_steps(&h.to, &atoms)?);
    }
    // result item
    let (base, aggf) = match &q.items[0] {
        Item::Agg { f, arg, distinct } => {
            if *distinct {
                return None;
            }
            (&**arg, Some(*f))
        }
        o => (o, None),
    };
    let on_last = match base {
        Item::Var(v) | Item::Prop(v, _) => *v == last.var,
        _ => false,
    };
    if !on_last {
        return None;
    }
    if let Some(o) = &q.order_by {
        match &o.key {
            Item::Prop(v, k) if *v == last.var => s.push_str(&format!(".order().by('{k}'{})", if o.desc { ", desc" } else { "" })),
            _ => return None,
        }
    }
    match aggf {
        None => {
            if let Item::Prop(_, k) = base {
                // a projected property combined with a window is not rendered: TinkerPop's values()
                // skips missing properties while the engine emits NULL, so window sizes are
                // under-determined there
                if q.has_window() {
                    return None;
                }
                s.push_str(&format!(".values('{k}')"));
            }
            if q.distinct {
                s.push_str(".dedup()");
            }
            if let Some(n) = q.skip {
                s.push_str(&format!(".skip({n})"));
            }
            if let Some(n) = q.limit {
                s.push_str(&format!(".limit({n})"));
            }
        }
        Some(f) => {
            if q.distinct || q.has_window() || q.order_by.is_some() {
                return None;
            }
            match (f, base) {
                (AggFn::Count, Item::Var(_)) => s.push_str(".count()"),
                (AggFn::Sum, Item::Prop(_, k)) => s.push_str(&format!(".values('{k}').sum()")),
                (AggFn::Min, Item::Prop(_, k)) => s.push_str(&format!(".values('{k}').min()")),
                (AggFn::Max, Item::Prop(_, k)) => s.push_str(&format!(".values('{k}').max()")),
                (AggFn::Avg, Item::Prop(_, k)) => s.push_str(&format!(".values('{k}').mean()")),
                _ => return None,
            }
        }
    }
    Some(s)
}

/// GraphQL: root field = the single label of the start node, nested fields = outgoing typed hops
/// to unlabelled nodes, scalar fields = projected properties (in item order), `where` objects =
/// conjunctive literal filters, `orderBy` on a property of the root, `skip` / `first`.
pub fn render_graphql(q: &Query) -> Option<String> {
    if q.paths.len() != 1 || q.distinct || q.has_agg() || !q.optional.is_empty() {
        return None;
    }
    let p = &q.paths[0];
    if p.start.labels.len() != 1 {
        return None;
    }
    let mut vars: Vec<&str> = vec![&p.start.var];
    for h in &p.hops {
        if h.dir != Dir::Out || h.varlen.is_some() || h.etype.is_none() || !h.to.labels.is_empty() || vars.contains(&h.to.var.as_str()) {
            return None;
        }
        vars.push(&h.to.var);
    }
    let mut atoms = vec![];
    if let Some(w) = &q.where_ {
        conj_atoms(w, &mut atoms)?;
    }
    if atoms.iter().any(|a| !vars.contains(&a.0.as_str())) {
        return None;
    }
    let where_obj = |var: &str| -> Option<Option<String>> {
        let mut fields: Vec<(String, String)> = vec![];
        for (v, k, op, l) in &atoms {
            if v == var {
                let name = match op {
                    CmpOp::Eq => k.clone(),
                    CmpOp::Ne => format!("{k}_ne"),
                    CmpOp::Lt => format!("{k}_lt"),
                    CmpOp::Le => format!("{k}_lte"),
                    CmpOp::Gt => format!("{k}_gt"),
                    CmpOp::Ge => format!("{k}_gte"),
                };
                if fields.iter().any(|f| f.0 == name) {
                    return None; // an input object cannot repeat a field
                }
                let l = match l {
                    Value::Int64(i) => i.to_string(),
                    Value::String(s) => format!("\"{}\"", s.as_str()),
                    Value::Bool(b) => b.to_string(),
                    Value::Float64(f) => format!("{f:?}"),
                    _ => return None,
                };
                fields.push((name, l));
            }
        }
        Some(if fields.is_empty() { None } else { Some(format!("where: {{ {} }}", fields.iter().map(|(n, l)| format!("{n}: {l}")).collect::<Vec<_>>().join(", "))) })
    };
    // items: property of a path variable only (or the root node itself when it is the only item and there are no hops)
    let level_of = |i: &Item| -> Option<usize> {
        match i {
            Item::Prop(v, _) => vars.iter().position(|x| x == v),
            _ => None,
        }
    };
    let root_only_node = q.items.len() == 1 && p.hops.is_empty() && matches!(&q.items[0], Item::Var(v) if *v == p.start.var);
    if !root_only_node && q.items.iter().any(|i| level_of(i).is_none()) {
        return None;
    }
    // selection text of level d covering items[lo..hi] (all of level >= d)
    fn selection(q: &Query, p: &PathPat, vars: &[&str], d: usize, lo: usize, hi: usize, where_obj: &dyn Fn(&str) -> Option<Option<String>>) -> Option<String> {
        let lvl = |i: &Item| match i {
            Item::Prop(v, _) => vars.iter().position(|x| x == v).unwrap(),
            _ => 0,
        };
        let mut parts = vec![];
        let mut i = lo;
        let mut nested_done = false;
        while i < hi {
            if lvl(&q.items[i]) == d {
                if let Item::Prop(_, k) = &q.items[i] {
                    parts.push(k.clone());
                }
                i += 1;
            } else {
                if nested_done || d >= p.hops.len() {
                    return None;
                }
                let mut j = i;
                while j < hi && lvl(&q.items[j]) > d {
                    j += 1;
                }
                let h = &p.hops[d];
                let args = match where_obj(&h.to.var)? {
                    Some(w) => format!("({w})"),
                    None => String::new(),
                };
                let inner = selection(q, p, vars, d + 1, i, j, where_obj)?;
                parts.push(format!("{}{} {{ {} }}", h.etype.as_ref().unwrap(), args, inner));
                nested_done = true;
                i = j;
            }
        }
        // the pattern continues below this level but nothing deeper is projected: not expressible
        if !nested_done && d < p.hops.len() {
            return None;
        }
        Some(parts.join(" "))
    }
    let mut args = vec![];
    if let Some(w) = where_obj(&p.start.var)? {
        args.push(w);
    }
    if let Some(o) = &q.order_by {
        match &o.key {
            Item::Prop(v, k) if *v == p.start.var => args.push(format!("orderBy: {{ {k}: {} }}", if o.desc { "DESC" } else { "ASC" })),
            _ => return None,
        }
    }
    if let Some(n) = q.skip {
        args.push(format!("skip: {n}"));
    }
    if let Some(n) = q.limit {
        args.push(format!("first: {n}"));
    }
    let root = p.start.labels[0].to_lowercase();
    let args = if args.is_empty() { String::new() } else { format!("({})", args.join(", ")) };
    if root_only_node {
        return Some(format!("{{ {root}{args} }}"));
    }
    let sel = selection(q, p, &vars, 0, 0, q.items.len(), &where_obj)?;
    Some(format!("{{ {root}{args} {{ {sel} }} }}"))
}
