//! Running a query text against the real engine.

use super::render::Lang;
use grafeo_common::types::Value;
use grafeo_engine::{GrafeoDB, Session};

/// Outcome of one execution on the real engine.
#[derive(Clone, Debug, PartialEq)]
pub enum Exec {
    Rows(Vec<Vec<Value>>),
    /// The front end / planner / executor returned `Err` ("not expressible" for C08).
    Err(String),
    Panic(String),
}

/// Runs `text` in `lang` through a temporary session of `db`; `Err` carries the engine's message.
/// Panics are NOT caught here (wrap in `vcore::catch`, or use [`exec_session`]).
pub fn run_query(db: &GrafeoDB, lang: Lang, text: &str) -> Result<Vec<Vec<Value>>, String> {
    let r = match lang {
        Lang::Gql => db.execute(text),
        Lang::Cypher => db.execute_cypher(text),
        Lang::Gremlin => db.execute_gremlin(text),
        Lang::GraphQL => db.execute_graphql(text),
    };
    r.map(|q| q.rows).map_err(|e| e.to_string())
}

/// Same through an existing session (cheaper when many queries hit one database).
pub fn run_query_session(s: &Session, lang: Lang, text: &str) -> Result<Vec<Vec<Value>>, String> {
    let r = match lang {
        Lang::Gql => s.execute(text),
        Lang::Cypher => s.execute_cypher(text),
        Lang::Gremlin => s.execute_gremlin(text),
        Lang::GraphQL => s.execute_graphql(text),
    };
    r.map(|q| q.rows).map_err(|e| e.to_string())
}

/// [`run_query_session`] under `catch_unwind`.
pub fn exec_session(s: &Session, lang: Lang, text: &str) -> Exec {
    match vcore::catch(|| run_query_session(s, lang, text)) {
        Ok(Ok(rows)) => Exec::Rows(rows),
        Ok(Err(e)) => Exec::Err(e),
        Err(p) => Exec::Panic(p),
    }
}
