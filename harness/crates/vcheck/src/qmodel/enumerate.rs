//! Depth-bounded enumeration of the core query grammar, simplest first.
//!
//! Every query is a choice of: pattern shape (node / 1 hop / variable-length hop / 2 hops /
//! comma-joined patterns / cartesian), per-hop direction, labels, edge types, named or anonymous
//! edges, a WHERE predicate, the returned items (plain or aggregate, with or without grouping
//! key), DISTINCT, ORDER BY (returned / non-returned key, asc / desc), SKIP / LIMIT.  Each
//! non-default choice has a weight (mostly 1); `all_queries(d)` is the set of all combinations of
//! total weight <= d, ordered by (weight, generation order).  The set is closed under
//! `Query::shrinks` for most shrink steps, so the first counterexample per root cause is a simplest one.

use super::ast::*;

struct Pat {
    w: u32,
    paths: Vec<PathPat>,
    optional: Vec<PathPat>,
    /// node variables in pattern order
    nodes: Vec<&'static str>,
    /// named single-hop edge variables
    edges: Vec<&'static str>,
    shape: Shape,
}
#[derive(Clone, Copy, PartialEq)]
enum Shape {
    Node,
    Hop1,
    VarLen,
    Hop2,
    Chain,
    Fork,
    Cycle,
    Cartesian,
    Optional,
}

const DIRS: [(Dir, u32); 3] = [(Dir::Out, 0), (Dir::In, 1), (Dir::Both, 1)];

fn patterns(depth: u32) -> Vec<Pat> {
    let mut out = vec![];
    let lab = |l: &[&str]| -> Vec<&'static str> {
        l.iter()
            .map(|s| match *s {
                "A" => "A",
                _ => "B",
            })
            .collect()
    };
    // node
    for (lx, w) in [(vec![], 0u32), (lab(&["A"]), 1), (lab(&["A", "B"]), 2)] {
        out.push(Pat { w, optional: vec![], paths: vec![PathPat { start: node("x", &lx), hops: vec![] }], nodes: vec!["x"], edges: vec![], shape: Shape::Node });
    }
    // 1 hop
    for (lx, wlx) in [(vec![], 0u32), (lab(&["A"]), 1)] {
        for (ly, wly) in [(vec![], 0u32), (lab(&["B"]), 1)] {
            for (d, wd) in DIRS {
                for (t, wt) in [(None, 0u32), (Some("K"), 1)] {
                    for (named, wn) in [(true, 0u32), (false, 1)] {
                        let w = 1 + wlx + wly + wd + wt + wn;
                        if w > depth {
                            continue;
                        }
                        out.push(Pat { w, optional: vec![], paths: vec![PathPat { start: node("x", &lx), hops: vec![hop(d, if named { Some("e") } else { None }, t, node("y", &ly))] }],
                            nodes: vec!["x", "y"],
                            edges: if named { vec!["e"] } else { vec![] },
                            shape: Shape::Hop1,
                        });
                    }
                }
            }
        }
    }
    // variable-length hop *1..2
    for (lx, wlx) in [(vec![], 0u32), (lab(&["A"]), 1)] {
        for (d, wd) in DIRS {
            for (t, wt) in [(None, 0u32), (Some("K"), 1)] {
                let w = 2 + wlx + wd + wt;
                if w > depth {
                    continue;
                }
                let mut h = hop(d, None, t, node("y", &[]));
                h.varlen = Some((1, 2));
                out.push(Pat { w, optional: vec![], paths: vec![PathPat { start: node("x", &lx), hops: vec![h] }], nodes: vec!["x", "y"], edges: vec![], shape: Shape::VarLen });
            }
        }
    }
    // 2 hops
    for (lx, wlx) in [(vec![], 0u32), (lab(&["A"]), 1)] {
        for (lz, wlz) in [(vec![], 0u32), (lab(&["B"]), 1)] {
            for (d1, wd1) in DIRS {
                for (d2, wd2) in DIRS {
                    for (t1, wt1) in [(None, 0u32), (Some("K"), 1)] {
                        for (t2, wt2) in [(None, 0u32), (Some("K"), 1), (Some("L"), 1)] {
                            for (named, wn) in [(true, 0u32), (false, 1)] {
                                let w = 2 + wlx + wlz + wd1 + wd2 + wt1 + wt2 + wn;
                                if w > depth {
                                    continue;
                                }
                                out.push(Pat { w, optional: vec![], paths: vec![PathPat {
                                        start: node("x", &lx),
                                        hops: vec![hop(d1, if named { Some("e") } else { None }, t1, node("y", &[])), hop(d2, if named { Some("f") } else { None }, t2, node("z", &lz))],
                                    }],
                                    nodes: vec!["x", "y", "z"],
                                    edges: if named { vec!["e", "f"] } else { vec![] },
                                    shape: Shape::Hop2,
                                });
                            }
                        }
                    }
                }
            }
        }
    }
    // comma-joined patterns sharing a variable
    for (t, wt) in [(None, 0u32), (Some("K"), 1)] {
        let w = 2 + wt;
        if w > depth {
            continue;
        }
        let one = |a: &str, e: &str, b: &str| PathPat { start: node(a, &[]), hops: vec![hop(Dir::Out, Some(e), t, node(b, &[]))] };
        out.push(Pat { w, optional: vec![], paths: vec![one("x", "e", "y"), one("y", "f", "z")], nodes: vec!["x", "y", "z"], edges: vec!["e", "f"], shape: Shape::Chain });
        out.push(Pat { w, optional: vec![], paths: vec![one("x", "e", "y"), one("x", "f", "z")], nodes: vec!["x", "y", "z"], edges: vec!["e", "f"], shape: Shape::Fork });
        out.push(Pat { w, optional: vec![], paths: vec![one("x", "e", "y"), one("y", "f", "x")], nodes: vec!["x", "y"], edges: vec!["e", "f"], shape: Shape::Cycle });
    }
    // cartesian product of two node patterns
    for (lx, wlx) in [(vec![], 0u32), (lab(&["A"]), 1)] {
        let w = 1 + wlx;
        if w > depth {
            continue;
        }
        out.push(Pat { w, optional: vec![], paths: vec![PathPat { start: node("x", &lx), hops: vec![] }, PathPat { start: node("y", &[]), hops: vec![] }], nodes: vec!["x", "y"], edges: vec![], shape: Shape::Cartesian });
    }
    // OPTIONAL MATCH of one hop from a matched node
    for (t, wt) in [(None, 0u32), (Some("K"), 1)] {
        for (d, wd) in DIRS {
            let w = 2 + wt + wd;
            out.push(Pat {
                w,
                optional: vec![PathPat { start: node("x", &[]), hops: vec![hop(d, Some("e"), t, node("y", &[]))] }],
                paths: vec![PathPat { start: node("x", &[]), hops: vec![] }],
                nodes: vec!["x", "y"],
                edges: vec!["e"],
                shape: Shape::Optional,
            });
        }
    }
    out.retain(|p| p.w <= depth);
    out
}

fn wheres(p: &Pat) -> Vec<(u32, Option<Pred>)> {
    let x = p.nodes[0];
    let mut v: Vec<(u32, Option<Pred>)> = vec![(0, None)];
    let c = |var: &str, key: &str, op: CmpOp, l: Operand| cmp(prop(var, key), op, l);
    for op in CmpOp::ALL {
        v.push((1, Some(c(x, "p", op, lit_i(1)))));
    }
    v.push((1, Some(c(x, "p", CmpOp::Eq, lit_i(2)))));
    v.push((1, Some(c(x, "p", CmpOp::Lt, lit_i(2)))));
    v.push((1, Some(cmp(lit_i(2), CmpOp::Gt, prop(x, "p")))));
    v.push((1, Some(c(x, "s", CmpOp::Eq, lit_s("x")))));
    v.push((1, Some(c(x, "s", CmpOp::Ne, lit_s("x")))));
    v.push((1, Some(Pred::IsNull(prop(x, "p")))));
    if p.nodes.len() > 1 {
        let y = *p.nodes.last().unwrap();
        v.push((1, Some(c(y, "p", CmpOp::Eq, lit_i(1)))));
        for op in [CmpOp::Eq, CmpOp::Lt, CmpOp::Ne, CmpOp::Ge] {
            v.push((1, Some(cmp(prop(x, "p"), op, prop(y, "p")))));
        }
    }
    if let Some(e) = p.edges.first() {
        v.push((1, Some(c(e, "w", CmpOp::Eq, lit_i(1)))));
        v.push((1, Some(c(e, "w", CmpOp::Gt, lit_i(1)))));
    }
    let p1 = || c(x, "p", CmpOp::Eq, lit_i(1));
    let gt1 = || c(x, "p", CmpOp::Gt, lit_i(1));
    let sx = || c(x, "s", CmpOp::Eq, lit_s("x"));
    let bx = Box::new;
    v.push((2, Some(Pred::And(bx(p1()), bx(sx())))));
    v.push((2, Some(Pred::Or(bx(p1()), bx(sx())))));
    v.push((2, Some(Pred::Or(bx(p1()), bx(c(x, "p", CmpOp::Eq, lit_i(2)))))));
    v.push((2, Some(Pred::And(bx(c(x, "p", CmpOp::Ge, lit_i(1))), bx(c(x, "p", CmpOp::Lt, lit_i(2)))))));
    for parens in [false, true] {
        v.push((2, Some(Pred::Not { inner: bx(gt1()), parens })));
        v.push((2, Some(Pred::Not { inner: bx(p1()), parens })));
        v.push((2, Some(Pred::Not { inner: bx(sx()), parens })));
    }
    if p.nodes.len() > 1 {
        let y = *p.nodes.last().unwrap();
        v.push((2, Some(Pred::And(bx(p1()), bx(c(y, "p", CmpOp::Eq, lit_i(2)))))));
        v.push((2, Some(Pred::Or(bx(p1()), bx(c(y, "p", CmpOp::Eq, lit_i(1)))))));
        for parens in [false, true] {
            v.push((2, Some(Pred::Not { inner: bx(cmp(prop(x, "p"), CmpOp::Eq, prop(y, "p"))), parens })));
        }
    }
    v.push((3, Some(Pred::And(bx(Pred::Not { inner: bx(p1()), parens: false }), bx(sx())))));
    v.push((3, Some(Pred::And(bx(p1()), bx(Pred::Not { inner: bx(sx()), parens: true })))));
    v.push((3, Some(Pred::Not { inner: bx(Pred::Or(bx(p1()), bx(sx()))), parens: true })));
    v.push((3, Some(Pred::Not { inner: bx(Pred::IsNull(prop(x, "p"))), parens: true })));
    v.push((3, Some(Pred::Or(bx(Pred::And(bx(p1()), bx(sx()))), bx(gt1())))));
    v
}

fn plain_returns(p: &Pat) -> Vec<(u32, Vec<Item>)> {
    let named = !p.edges.is_empty();
    let mut v = vec![];
    match p.shape {
        Shape::Node => {
            v.push((0, vec![ivar("x")]));
            v.push((0, vec![iprop("x", "p")]));
            v.push((1, vec![iprop("x", "s")]));
            v.push((1, vec![ivar("x"), iprop("x", "p")]));
            v.push((1, vec![iprop("x", "p"), iprop("x", "s")]));
        }
        Shape::Hop1 | Shape::VarLen => {
            v.push((0, vec![ivar("x"), ivar("y")]));
            v.push((0, vec![ivar("y")]));
            v.push((0, vec![iprop("y", "p")]));
            v.push((1, vec![iprop("x", "p")]));
            v.push((1, vec![iprop("x", "p"), iprop("y", "p")]));
            if named && p.shape == Shape::Hop1 {
                v.push((1, vec![ivar("e")]));
                v.push((1, vec![ivar("x"), iprop("e", "w")]));
            }
        }
        Shape::Hop2 => {
            v.push((0, vec![ivar("x"), ivar("z")]));
            v.push((0, vec![ivar("z")]));
            v.push((0, vec![iprop("z", "p")]));
            v.push((1, vec![ivar("y"), ivar("z")]));
            v.push((1, vec![iprop("x", "p"), iprop("z", "p")]));
            if named {
                v.push((1, vec![ivar("e"), ivar("f")]));
            }
        }
        Shape::Chain => {
            v.push((0, vec![ivar("x"), ivar("z")]));
            v.push((0, vec![ivar("e"), ivar("f")]));
            v.push((1, vec![iprop("x", "p"), iprop("z", "p")]));
        }
        Shape::Fork => {
            v.push((0, vec![ivar("y"), ivar("z")]));
            v.push((0, vec![ivar("e"), ivar("f")]));
        }
        Shape::Cycle => {
            v.push((0, vec![ivar("x"), ivar("y")]));
            v.push((0, vec![ivar("e"), ivar("f")]));
        }
        Shape::Cartesian => {
            v.push((0, vec![ivar("x"), ivar("y")]));
            v.push((1, vec![iprop("x", "p"), iprop("y", "p")]));
        }
        Shape::Optional => {
            v.push((0, vec![ivar("x"), ivar("y")]));
            v.push((0, vec![ivar("x")]));
            v.push((1, vec![iprop("x", "p"), iprop("y", "p")]));
            v.push((1, vec![ivar("x"), ivar("e")]));
        }
    }
    v
}

fn agg_returns(p: &Pat) -> Vec<(u32, Vec<Item>)> {
    let last = *p.nodes.last().unwrap();
    let first = p.nodes[0];
    let mut aggs: Vec<(u32, Item)> = vec![(1, agg(AggFn::Count, ivar(last))), (1, agg(AggFn::Count, iprop(last, "p")))];
    for f in [AggFn::Sum, AggFn::Min, AggFn::Max, AggFn::Avg, AggFn::Collect] {
        aggs.push((1, agg(f, iprop(last, "p"))));
    }
    aggs.push((2, Item::Agg { f: AggFn::Count, arg: Box::new(iprop(last, "p")), distinct: true }));
    if p.shape == Shape::Hop1 && !p.edges.is_empty() {
        aggs.push((1, agg(AggFn::Count, ivar("e"))));
        aggs.push((1, agg(AggFn::Sum, iprop("e", "w"))));
    }
    let mut groups: Vec<(u32, Option<Item>)> = vec![(0, None)];
    if p.nodes.len() == 1 {
        groups.push((1, Some(iprop(last, "s"))));
        groups.push((1, Some(ivar(last))));
    } else {
        groups.push((1, Some(ivar(first))));
        groups.push((1, Some(iprop(first, "p"))));
    }
    let mut v = vec![];
    for (wg, g) in &groups {
        for (wa, a) in &aggs {
            let mut items = vec![];
            if let Some(g) = g {
                items.push(g.clone());
            }
            items.push(a.clone());
            v.push((wg + wa, items));
        }
    }
    // grouping a node by its own aggregated property, and two aggregates at once
    if p.nodes.len() == 1 {
        v.push((2, vec![iprop(last, "p"), agg(AggFn::Count, ivar(last))]));
    }
    v.push((2, vec![agg(AggFn::Count, ivar(last)), agg(AggFn::Sum, iprop(last, "p"))]));
    v
}

const WINDOWS: [(u32, Option<u64>, Option<u64>); 7] = [(0, None, None), (1, None, Some(1)), (1, Some(1), None), (1, None, Some(2)), (2, Some(1), Some(1)), (2, Some(2), None), (2, None, Some(0))];

/// `(weight, query)` for every query of the core grammar with weight <= `depth_bound`,
/// ordered by (weight, generation order).
pub fn all_queries_weighted(depth_bound: u32) -> Vec<(u32, Query)> {
    let mut out: Vec<(u32, Query)> = vec![];
    for p in patterns(depth_bound) {
        let ws = wheres(&p);
        let plain = plain_returns(&p);
        let aggs = agg_returns(&p);
        for (ww, w) in &ws {
            if p.shape == Shape::Optional && w.is_some() {
                continue;
            }
            let base = p.w + ww;
            if base > depth_bound {
                continue;
            }
            // plain projections
            for (wi, items) in &plain {
                for distinct in [false, true] {
                    let b2 = base + wi + distinct as u32;
                    if b2 > depth_bound {
                        continue;
                    }
                    // ORDER BY candidates
                    let mut orders: Vec<(u32, Option<OrderBy>)> = vec![(0, None)];
                    if let Some(k) = items.iter().find(|i| matches!(i, Item::Prop(..))) {
                        orders.push((1, Some(OrderBy { key: k.clone(), desc: false })));
                        orders.push((2, Some(OrderBy { key: k.clone(), desc: true })));
                    }
                    if !distinct {
                        let base_var = match &items[0] {
                            Item::Var(v) | Item::Prop(v, _) => v.clone(),
                            _ => unreachable!(),
                        };
                        let is_edge = p.edges.contains(&base_var.as_str());
                        let cands: Vec<&str> = if is_edge { vec!["w"] } else { vec!["p", "s"] };
                        if let Some(k) = cands.into_iter().map(|k| Item::Prop(base_var.clone(), k.to_string())).find(|k| !items.contains(k)) {
                            orders.push((1, Some(OrderBy { key: k.clone(), desc: false })));
                            orders.push((2, Some(OrderBy { key: k, desc: true })));
                        }
                    }
                    for (wo, o) in &orders {
                        for (wwin, skip, limit) in WINDOWS {
                            let total = b2 + wo + wwin;
                            if total > depth_bound {
                                continue;
                            }
                            let q = Query { paths: p.paths.clone(), optional: p.optional.clone(), where_: w.clone(), items: items.clone(), distinct, order_by: o.clone(), skip, limit };
                            debug_assert!(q.well_formed());
                            out.push((total, q));
                        }
                    }
                }
            }
            // aggregates
            for (wi, items) in &aggs {
                let b2 = base + wi;
                if b2 > depth_bound {
                    continue;
                }
                let mut orders: Vec<(u32, Option<OrderBy>)> = vec![(0, None)];
                if let Some(k) = items.iter().find(|i| matches!(i, Item::Prop(..))) {
                    orders.push((1, Some(OrderBy { key: k.clone(), desc: false })));
                    orders.push((2, Some(OrderBy { key: k.clone(), desc: true })));
                }
                for (wo, o) in &orders {
                    for (wwin, skip, limit) in WINDOWS {
                        let total = b2 + wo + wwin;
                        if total > depth_bound {
                            continue;
                        }
                        let q = Query { paths: p.paths.clone(), optional: p.optional.clone(), where_: w.clone(), items: items.clone(), distinct: false, order_by: o.clone(), skip, limit };
                        debug_assert!(q.well_formed());
                        out.push((total, q));
                    }
                }
            }
        }
    }
    out.sort_by_key(|(w, _)| *w); // stable: generation order within a weight
    out
}

/// The queries of [`all_queries_weighted`] without their weights.
pub fn all_queries(depth_bound: u32) -> Vec<Query> {
    all_queries_weighted(depth_bound).into_iter().map(|(_, q)| q).collect()
}
