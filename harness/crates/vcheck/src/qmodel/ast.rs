//! Language-neutral AST of the shared read-query core.
//!
//! ```text
//! Query   := MATCH Path {, Path} [WHERE Pred] RETURN [DISTINCT] Item {, Item}
//!            [ORDER BY Operand [DESC]] [SKIP n] [LIMIT n]
//! Path    := Node { Hop }            Node := (var [:Label{:Label}])
//! Hop     := dir [edgevar] [:Type] [*min..max] Node
//! Pred    := Operand op Operand | Pred AND Pred | Pred OR Pred | NOT Pred | NOT (Pred) | Operand IS NULL
//! Operand := var.key | literal
//! Item    := var | var.key | agg(var | var.key) | agg(DISTINCT var.key)
//! ```
//! Variables with the same name in different paths are the same variable (join).
//! Non-aggregate items next to aggregate items are grouping keys.

use grafeo_common::types::Value;
use serde_json::{Value as J, json};
use std::collections::BTreeMap;

#[derive(Clone, Copy, Debug, PartialEq, Eq, Hash, PartialOrd, Ord)]
pub enum Dir {
    /// `-[..]->`
    Out,
    /// `<-[..]-`
    In,
    /// `-[..]-`
    Both,
}

#[derive(Clone, Debug, PartialEq, Eq, Hash)]
pub struct NodePat {
    pub var: String,
    pub labels: Vec<String>,
}

#[derive(Clone, Debug, PartialEq, Eq, Hash)]
pub struct Hop {
    pub dir: Dir,
    /// Edge variable (None = anonymous; multiplicity per edge is the same either way).
    pub evar: Option<String>,
    pub etype: Option<String>,
    /// `*min..max` (walk semantics). The edge variable of such a hop cannot be projected.
    pub varlen: Option<(u32, u32)>,
    pub to: NodePat,
}

#[derive(Clone, Debug, PartialEq, Eq, Hash)]
pub struct PathPat {
    pub start: NodePat,
    pub hops: Vec<Hop>,
}

#[derive(Clone, Copy, Debug, PartialEq, Eq, Hash, PartialOrd, Ord)]
pub enum CmpOp {
    Eq,
    Ne,
    Lt,
    Le,
    Gt,
    Ge,
}
impl CmpOp {
    pub const ALL: [CmpOp; 6] = [CmpOp::Eq, CmpOp::Ne, CmpOp::Lt, CmpOp::Le, CmpOp::Gt, CmpOp::Ge];
    pub fn sym(self) -> &'static str {
        match self {
            CmpOp::Eq => "=",
            CmpOp::Ne => "<>",
            CmpOp::Lt => "<",
            CmpOp::Le => "<=",
            CmpOp::Gt => ">",
            CmpOp::Ge => ">=",
        }
    }
    pub fn name(self) -> &'static str {
        match self {
            CmpOp::Eq => "eq",
            CmpOp::Ne => "ne",
            CmpOp::Lt => "lt",
            CmpOp::Le => "le",
            CmpOp::Gt => "gt",
            CmpOp::Ge => "ge",
        }
    }
}

#[derive(Clone, Debug, PartialEq)]
pub enum Operand {
    Prop(String, String),
    Lit(Value),
}

#[derive(Clone, Debug, PartialEq)]
pub enum Pred {
    Cmp(Operand, CmpOp, Operand),
    And(Box<Pred>, Box<Pred>),
    Or(Box<Pred>, Box<Pred>),
    /// `parens=false` renders `NOT a > 1` (the standard binds NOT weaker than comparison, so this
    /// still means NOT (a > 1)); `parens=true` renders `NOT (a > 1)`.
    Not { inner: Box<Pred>, parens: bool },
    IsNull(Operand),
}

#[derive(Clone, Copy, Debug, PartialEq, Eq, Hash, PartialOrd, Ord)]
pub enum AggFn {
    Count,
    Sum,
    Min,
    Max,
    Avg,
    Collect,
}
impl AggFn {
    pub const ALL: [AggFn; 6] = [AggFn::Count, AggFn::Sum, AggFn::Min, AggFn::Max, AggFn::Avg, AggFn::Collect];
    pub fn name(self) -> &'static str {
        match self {
            AggFn::Count => "count",
            AggFn::Sum => "sum",
            AggFn::Min => "min",
            AggFn::Max => "max",
            AggFn::Avg => "avg",
            AggFn::Collect => "collect",
        }
    }
}

#[derive(Clone, Debug, PartialEq)]
pub enum Item {
    /// The node / edge itself (rendered by the engine as its id).
    Var(String),
    Prop(String, String),
    /// `f(arg)`; `arg` is `Item::Var` or `Item::Prop`.
    Agg { f: AggFn, arg: Box<Item>, distinct: bool },
}
impl Item {
    pub fn is_agg(&self) -> bool {
        matches!(self, Item::Agg { .. })
    }
}

#[derive(Clone, Debug, PartialEq)]
pub struct OrderBy {
    /// `Item::Var` or `Item::Prop` (may or may not be one of the returned items).
    pub key: Item,
    pub desc: bool,
}

#[derive(Clone, Debug, PartialEq)]
pub struct Query {
    pub paths: Vec<PathPat>,
    /// `OPTIONAL MATCH <paths>` after the mandatory patterns (left-join semantics: a binding of
    /// the mandatory part without any extension is kept once, the new variables being NULL).
    /// Not combined with WHERE (the languages disagree on what it then filters).
    pub optional: Vec<PathPat>,
    pub where_: Option<Pred>,
    pub items: Vec<Item>,
    pub distinct: bool,
    pub order_by: Option<OrderBy>,
    pub skip: Option<u64>,
    pub limit: Option<u64>,
}

// ---- small constructors -------------------------------------------------------------------

pub fn node(var: &str, labels: &[&str]) -> NodePat {
    NodePat { var: var.to_string(), labels: labels.iter().map(|s| s.to_string()).collect() }
}
pub fn hop(dir: Dir, evar: Option<&str>, etype: Option<&str>, to: NodePat) -> Hop {
    Hop { dir, evar: evar.map(String::from), etype: etype.map(String::from), varlen: None, to }
}
pub fn prop(var: &str, key: &str) -> Operand {
    Operand::Prop(var.to_string(), key.to_string())
}
pub fn lit_i(i: i64) -> Operand {
    Operand::Lit(Value::Int64(i))
}
pub fn lit_s(s: &str) -> Operand {
    Operand::Lit(Value::from(s))
}
pub fn cmp(l: Operand, op: CmpOp, r: Operand) -> Pred {
    Pred::Cmp(l, op, r)
}
pub fn ivar(v: &str) -> Item {
    Item::Var(v.to_string())
}
pub fn iprop(v: &str, k: &str) -> Item {
    Item::Prop(v.to_string(), k.to_string())
}
pub fn agg(f: AggFn, arg: Item) -> Item {
    Item::Agg { f, arg: Box::new(arg), distinct: false }
}

impl Query {
    /// `MATCH <paths> RETURN <items>` without further clauses.
    pub fn simple(paths: Vec<PathPat>, items: Vec<Item>) -> Query {
        Query { paths, optional: vec![], where_: None, items, distinct: false, order_by: None, skip: None, limit: None }
    }
    pub fn has_agg(&self) -> bool {
        self.items.iter().any(|i| i.is_agg())
    }
    pub fn has_window(&self) -> bool {
        self.skip.is_some() || self.limit.is_some()
    }
    /// Is the ORDER BY key one of the returned items?
    pub fn order_key_returned(&self) -> Option<bool> {
        self.order_by.as_ref().map(|o| self.items.iter().any(|i| *i == o.key))
    }
    /// All node variables in order of first appearance.
    pub fn node_vars(&self) -> Vec<String> {
        let mut v: Vec<String> = vec![];
        for p in &self.paths {
            for n in std::iter::once(&p.start).chain(p.hops.iter().map(|h| &h.to)) {
                if !v.contains(&n.var) {
                    v.push(n.var.clone());
                }
            }
        }
        v
    }
    pub fn hop_count(&self) -> usize {
        self.paths.iter().map(|p| p.hops.len()).sum()
    }

    /// `(variable, key)` of every property the query reads (WHERE, RETURN, ORDER BY).
    pub fn props_read(&self) -> Vec<(String, String)> {
        let mut out = vec![];
        fn it(i: &Item, out: &mut Vec<(String, String)>) {
            match i {
                Item::Prop(v, k) => out.push((v.clone(), k.clone())),
                Item::Agg { arg, .. } => it(arg, out),
                Item::Var(_) => {}
            }
        }
        fn pr(p: &Pred, out: &mut Vec<(String, String)>) {
            let mut op = |o: &Operand| {
                if let Operand::Prop(v, k) = o {
                    out.push((v.clone(), k.clone()));
                }
            };
            match p {
                Pred::Cmp(l, _, r) => {
                    op(l);
                    op(r);
                }
                Pred::IsNull(o) => op(o),
                Pred::And(a, b) | Pred::Or(a, b) => {
                    pr(a, out);
                    pr(b, out);
                }
                Pred::Not { inner, .. } => pr(inner, out),
            }
        }
        for i in &self.items {
            it(i, &mut out);
        }
        if let Some(w) = &self.where_ {
            pr(w, &mut out);
        }
        if let Some(o) = &self.order_by {
            it(&o.key, &mut out);
        }
        out
    }
    /// Names of the single-hop edge variables.
    pub fn edge_vars(&self) -> Vec<String> {
        self.paths.iter().chain(self.optional.iter()).flat_map(|p| p.hops.iter()).filter(|h| h.varlen.is_none()).filter_map(|h| h.evar.clone()).collect()
    }

    /// Clause-shape features for violation signatures (flat string map).
    pub fn features(&self) -> BTreeMap<&'static str, String> {
        let mut f = BTreeMap::new();
        let hops: Vec<&Hop> = self.paths.iter().flat_map(|p| p.hops.iter()).collect();
        let dirs = |hs: &[&Hop]| -> String {
            let mut d: Vec<&str> = hs
                .iter()
                .map(|h| match h.dir {
                    Dir::Out => "out",
                    Dir::In => "in",
                    Dir::Both => "undirected",
                })
                .collect();
            d.sort();
            d.dedup();
            d.join("+")
        };
        let pattern = if self.paths.len() > 1 {
            if hops.is_empty() { "cartesian".to_string() } else { format!("comma-{}paths-{}", self.paths.len(), dirs(&hops)) }
        } else if hops.is_empty() {
            "node".to_string()
        } else {
            format!("{}hop-{}", hops.len(), dirs(&hops))
        };
        f.insert("pattern", pattern);
        let mut seen: Vec<&str> = vec![];
        let mut shared = false;
        for p in &self.paths {
            let mut mine: Vec<&str> = vec![];
            for n in std::iter::once(&p.start).chain(p.hops.iter().map(|h| &h.to)) {
                if seen.contains(&n.var.as_str()) || mine.contains(&n.var.as_str()) {
                    shared = true;
                }
                mine.push(&n.var);
            }
            seen.extend(mine);
        }
        f.insert("optional", if self.optional.is_empty() { "no" } else { "yes" }.into());
        f.insert("join", if shared { "shared-var" } else { "none" }.into());
        let evars = self.edge_vars();
        f.insert("edge_prop_read", if self.props_read().iter().any(|(v, _)| evars.contains(v)) { "yes" } else { "no" }.into());
        f.insert("varlen", if hops.iter().any(|h| h.varlen.is_some()) { "yes" } else { "no" }.into());
        let nlab: usize = self.paths.iter().map(|p| std::iter::once(&p.start).chain(p.hops.iter().map(|h| &h.to)).map(|n| n.labels.len()).max().unwrap_or(0)).max().unwrap_or(0);
        f.insert("labels", match nlab {
            0 => "none",
            1 => "single",
            _ => "multi",
        }.into());
        f.insert("etype", if hops.iter().any(|h| h.etype.is_some()) { "yes" } else { "no" }.into());
        fn shape(p: &Pred) -> String {
            match p {
                Pred::Cmp(l, _, r) => match (l, r) {
                    (Operand::Prop(..), Operand::Prop(..)) => "cmp2".into(),
                    _ => "cmp".into(),
                },
                Pred::And(a, b) => format!("and({}|{})", shape(a), shape(b)),
                Pred::Or(a, b) => format!("or({}|{})", shape(a), shape(b)),
                Pred::Not { inner, parens } => format!("{}({})", if *parens { "not-paren" } else { "not" }, shape(inner)),
                Pred::IsNull(_) => "isnull".into(),
            }
        }
        fn ops(p: &Pred, out: &mut Vec<&'static str>) {
            match p {
                Pred::Cmp(_, op, _) => out.push(op.name()),
                Pred::And(a, b) | Pred::Or(a, b) => {
                    ops(a, out);
                    ops(b, out);
                }
                Pred::Not { inner, .. } => ops(inner, out),
                Pred::IsNull(_) => {}
            }
        }
        fn conn(p: &Pred, out: &mut std::collections::BTreeSet<&'static str>, bare_not: &mut bool) {
            match p {
                Pred::And(a, b) => {
                    out.insert("and");
                    conn(a, out, bare_not);
                    conn(b, out, bare_not);
                }
                Pred::Or(a, b) => {
                    out.insert("or");
                    conn(a, out, bare_not);
                    conn(b, out, bare_not);
                }
                Pred::Not { inner, parens } => {
                    out.insert("not");
                    if !*parens {
                        *bare_not = true;
                    }
                    conn(inner, out, bare_not);
                }
                _ => {}
            }
        }
        let mut cs = std::collections::BTreeSet::new();
        let mut bare = false;
        if let Some(p) = &self.where_ {
            conn(p, &mut cs, &mut bare);
        }
        // coarse fields for ledger matchers
        f.insert("connective", if cs.is_empty() { "none".into() } else { cs.into_iter().collect::<Vec<_>>().join("+") });
        f.insert("bare_not", if bare { "yes" } else { "no" }.into());
        f.insert("has_where", if self.where_.is_some() { "yes" } else { "no" }.into());
        f.insert("has_agg", if self.has_agg() { "yes" } else { "no" }.into());
        f.insert("has_order", if self.order_by.is_some() { "yes" } else { "no" }.into());
        f.insert("has_window", if self.has_window() { "yes" } else { "no" }.into());
        f.insert("hops", self.hop_count().to_string());
        match &self.where_ {
            None => {
                f.insert("where", "none".into());
            }
            Some(p) => {
                f.insert("where", shape(p));
                let mut o = vec![];
                ops(p, &mut o);
                f.insert("where_op", o.join("+"));
            }
        }
        f.insert("distinct", if self.distinct { "yes" } else { "no" }.into());
        f.insert("order_by", match (&self.order_by, self.order_key_returned()) {
            (None, _) => "none".to_string(),
            (Some(o), Some(ret)) => format!("{}-{}", if ret { "returned-key" } else { "non-returned-key" }, if o.desc { "desc" } else { "asc" }),
            _ => unreachable!(),
        });
        f.insert("skip_limit", match (self.skip, self.limit) {
            (None, None) => "none",
            (Some(_), None) => "skip",
            (None, Some(_)) => "limit",
            (Some(_), Some(_)) => "skip+limit",
        }.into());
        let aggs: Vec<String> = self
            .items
            .iter()
            .filter_map(|i| match i {
                Item::Agg { f, arg, distinct } => Some(format!("{}{}-{}", f.name(), if *distinct { "-distinct" } else { "" }, if matches!(**arg, Item::Var(_)) { "var" } else { "prop" })),
                _ => None,
            })
            .collect();
        f.insert("aggregate", if aggs.is_empty() { "none".into() } else { aggs.join("+") });
        // aliases used by other checkers' signatures
        f.insert("agg", f["aggregate"].clone());
        f.insert("window", f["skip_limit"].clone());
        f.insert("group", if self.has_agg() && self.items.iter().any(|i| !i.is_agg()) { "yes" } else { "no" }.into());
        let kinds: Vec<&str> = self
            .items
            .iter()
            .filter(|i| !i.is_agg())
            .map(|i| match i {
                Item::Var(_) => "var",
                _ => "prop",
            })
            .collect();
        f.insert("return", if kinds.is_empty() { "agg-only".into() } else { kinds.join("+") });
        f
    }

    /// Replaces every use of variable `from` in WHERE / RETURN / ORDER BY by `to`.
    fn subst_uses(&mut self, from: &str, to: &str) {
        fn it(i: &mut Item, from: &str, to: &str) {
            match i {
                Item::Var(v) | Item::Prop(v, _) => {
                    if v == from {
                        *v = to.to_string();
                    }
                }
                Item::Agg { arg, .. } => it(arg, from, to),
            }
        }
        fn op(o: &mut Operand, from: &str, to: &str) {
            if let Operand::Prop(v, _) = o {
                if v == from {
                    *v = to.to_string();
                }
            }
        }
        fn pr(p: &mut Pred, from: &str, to: &str) {
            match p {
                Pred::Cmp(l, _, r) => {
                    op(l, from, to);
                    op(r, from, to);
                }
                Pred::And(a, b) | Pred::Or(a, b) => {
                    pr(a, from, to);
                    pr(b, from, to);
                }
                Pred::Not { inner, .. } => pr(inner, from, to),
                Pred::IsNull(o) => op(o, from, to),
            }
        }
        for i in self.items.iter_mut() {
            it(i, from, to);
        }
        if let Some(w) = self.where_.as_mut() {
            pr(w, from, to);
        }
        if let Some(o) = self.order_by.as_mut() {
            it(&mut o.key, from, to);
        }
    }

    /// One-step simplifications (drop one clause / label / type / hop / item), used to minimise
    /// a failing query while the failure persists. Every result is a well-formed query.
    pub fn shrinks(&self) -> Vec<Query> {
        let mut out = vec![];
        let mut push = |q: Query| {
            if q.well_formed() {
                out.push(q);
            }
        };
        // clauses
        if !self.optional.is_empty() {
            let mut q = self.clone();
            q.optional.clear();
            push(q);
            // make the optional part mandatory
            let mut q = self.clone();
            let o = std::mem::take(&mut q.optional);
            q.paths.extend(o);
            push(q);
        }
        if self.where_.is_some() {
            let mut q = self.clone();
            q.where_ = None;
            push(q);
            match self.where_.as_ref().unwrap() {
                Pred::And(a, b) | Pred::Or(a, b) => {
                    for s in [a, b] {
                        let mut q = self.clone();
                        q.where_ = Some((**s).clone());
                        push(q);
                    }
                }
                Pred::Not { inner, .. } => {
                    let mut q = self.clone();
                    q.where_ = Some((**inner).clone());
                    push(q);
                }
                _ => {}
            }
        }
        if self.distinct {
            let mut q = self.clone();
            q.distinct = false;
            push(q);
        }
        if self.order_by.is_some() {
            let mut q = self.clone();
            q.order_by = None;
            push(q);
            if self.order_by.as_ref().unwrap().desc {
                let mut q = self.clone();
                q.order_by.as_mut().unwrap().desc = false;
                push(q);
            }
        }
        if self.skip.is_some() {
            let mut q = self.clone();
            q.skip = None;
            push(q);
        }
        if self.limit.is_some() {
            let mut q = self.clone();
            q.limit = None;
            push(q);
        }
        // items
        if self.items.len() > 1 {
            for i in 0..self.items.len() {
                let mut q = self.clone();
                q.items.remove(i);
                push(q);
            }
        }
        for (i, it) in self.items.iter().enumerate() {
            if let Item::Agg { arg, distinct, f } = it {
                if *distinct {
                    let mut q = self.clone();
                    q.items[i] = Item::Agg { f: *f, arg: arg.clone(), distinct: false };
                    push(q);
                }
                let mut q = self.clone();
                q.items[i] = (**arg).clone();
                push(q);
            }
        }
        // pattern: labels, types, varlen, direction, last hop, extra paths
        for pi in 0..self.paths.len() {
            if self.paths.len() > 1 {
                let mut q = self.clone();
                q.paths.remove(pi);
                push(q);
            }
            let p = &self.paths[pi];
            for li in 0..p.start.labels.len() {
                let mut q = self.clone();
                q.paths[pi].start.labels.remove(li);
                push(q);
            }
            for hi in 0..p.hops.len() {
                for li in 0..p.hops[hi].to.labels.len() {
                    let mut q = self.clone();
                    q.paths[pi].hops[hi].to.labels.remove(li);
                    push(q);
                }
                if p.hops[hi].etype.is_some() {
                    let mut q = self.clone();
                    q.paths[pi].hops[hi].etype = None;
                    push(q);
                }
                if p.hops[hi].varlen.is_some() {
                    let mut q = self.clone();
                    q.paths[pi].hops[hi].varlen = None;
                    push(q);
                }
                if p.hops[hi].dir != Dir::Out {
                    let mut q = self.clone();
                    q.paths[pi].hops[hi].dir = Dir::Out;
                    push(q);
                }
            }
            if !p.hops.is_empty() {
                // drop the last hop; uses of its end variable move to the new last node
                let mut q = self.clone();
                let h = q.paths[pi].hops.pop().unwrap();
                let prev = q.paths[pi].hops.last().map(|h| h.to.var.clone()).unwrap_or(q.paths[pi].start.var.clone());
                if !q.node_vars().contains(&h.to.var) {
                    q.subst_uses(&h.to.var, &prev);
                }
                push(q);
                // drop the first hop (path then starts at the second node)
                let mut q = self.clone();
                let h = q.paths[pi].hops.remove(0);
                let old = std::mem::replace(&mut q.paths[pi].start, h.to);
                if !q.node_vars().contains(&old.var) {
                    let new = q.paths[pi].start.var.clone();
                    q.subst_uses(&old.var, &new);
                }
                push(q);
            }
        }
        // drop a whole path, moving the uses of its start variable to the first remaining node variable
        if self.paths.len() > 1 {
            for pi in 0..self.paths.len() {
                let mut q = self.clone();
                let gone = q.paths.remove(pi);
                let keep = q.paths[0].start.var.clone();
                for v in std::iter::once(&gone.start).chain(gone.hops.iter().map(|h| &h.to)) {
                    if !q.node_vars().contains(&v.var) {
                        q.subst_uses(&v.var, &keep);
                    }
                }
                push(q);
            }
        }
        // a projected property becomes the variable itself
        for (i, it) in self.items.iter().enumerate() {
            if self.order_by.as_ref().is_some_and(|o| o.key == *it) {
                continue; // keep a returned sort key returned
            }
            if let Item::Prop(v, _) = it {
                let mut q = self.clone();
                q.items[i] = Item::Var(v.clone());
                push(q);
            }
        }
        out
    }

    /// Every variable used in WHERE / RETURN / ORDER BY is bound by the pattern, edge variables
    /// of variable-length hops are not used, at least one item.
    pub fn well_formed(&self) -> bool {
        if self.items.is_empty() || self.paths.is_empty() {
            return false;
        }
        if !self.optional.is_empty() && self.where_.is_some() {
            return false;
        }
        let mut bound: Vec<&str> = vec![];
        for p in self.paths.iter().chain(self.optional.iter()) {
            bound.push(&p.start.var);
            for h in &p.hops {
                bound.push(&h.to.var);
                if let (Some(e), None) = (&h.evar, h.varlen) {
                    bound.push(e);
                }
            }
        }
        let ok_item = |i: &Item| -> bool {
            let base = match i {
                Item::Agg { arg, .. } => arg,
                o => o,
            };
            match base {
                Item::Var(v) | Item::Prop(v, _) => bound.contains(&v.as_str()),
                Item::Agg { .. } => false,
            }
        };
        fn ok_pred(p: &Pred, bound: &[&str]) -> bool {
            let ok_op = |o: &Operand| match o {
                Operand::Prop(v, _) => bound.contains(&v.as_str()),
                Operand::Lit(_) => true,
            };
            match p {
                Pred::Cmp(l, _, r) => ok_op(l) && ok_op(r),
                Pred::And(a, b) | Pred::Or(a, b) => ok_pred(a, bound) && ok_pred(b, bound),
                Pred::Not { inner, .. } => ok_pred(inner, bound),
                Pred::IsNull(o) => ok_op(o),
            }
        }
        if !self.items.iter().all(ok_item) {
            return false;
        }
        if let Some(p) = &self.where_ {
            if !ok_pred(p, &bound) {
                return false;
            }
        }
        if let Some(o) = &self.order_by {
            if !ok_item(&o.key) {
                return false;
            }
            // under aggregation / DISTINCT the key must be one of the returned non-aggregate items
            if (self.has_agg() || self.distinct) && !self.items.iter().any(|i| *i == o.key) {
                return false;
            }
        }
        true
    }

    /// JSON form (round-trips through [`Query::from_json`]); used in replay cases.
    pub fn to_json(&self) -> J {
        fn np(n: &NodePat) -> J {
            json!({"var": n.var, "labels": n.labels})
        }
        fn it(i: &Item) -> J {
            match i {
                Item::Var(v) => json!({"var": v}),
                Item::Prop(v, k) => json!({"var": v, "key": k}),
                Item::Agg { f, arg, distinct } => json!({"agg": f.name(), "arg": it(arg), "distinct": distinct}),
            }
        }
        fn op(o: &Operand) -> J {
            match o {
                Operand::Prop(v, k) => json!({"var": v, "key": k}),
                Operand::Lit(Value::Int64(i)) => json!({"int": i}),
                Operand::Lit(Value::Float64(x)) => json!({"float": x}),
                Operand::Lit(Value::String(s)) => json!({"str": s.as_str()}),
                Operand::Lit(Value::Bool(b)) => json!({"bool": b}),
                Operand::Lit(_) => json!({"null": true}),
            }
        }
        fn pr(p: &Pred) -> J {
            match p {
                Pred::Cmp(l, o, r) => json!({"cmp": o.name(), "l": op(l), "r": op(r)}),
                Pred::And(a, b) => json!({"and": [pr(a), pr(b)]}),
                Pred::Or(a, b) => json!({"or": [pr(a), pr(b)]}),
                Pred::Not { inner, parens } => json!({"not": pr(inner), "parens": parens}),
                Pred::IsNull(o) => json!({"isnull": op(o)}),
            }
        }
        let pp = |p: &PathPat| {
            json!({
                "start": np(&p.start),
                "hops": p.hops.iter().map(|h| json!({
                    "dir": match h.dir { Dir::Out => "out", Dir::In => "in", Dir::Both => "both" },
                    "evar": h.evar, "etype": h.etype,
                    "varlen": h.varlen.map(|(a, b)| vec![a, b]),
                    "to": np(&h.to),
                })).collect::<Vec<_>>(),
            })
        };
        json!({
            "paths": self.paths.iter().map(pp).collect::<Vec<_>>(),
            "optional": self.optional.iter().map(pp).collect::<Vec<_>>(),
            "where": self.where_.as_ref().map(pr),
            "items": self.items.iter().map(it).collect::<Vec<_>>(),
            "distinct": self.distinct,
            "order_by": self.order_by.as_ref().map(|o| json!({"key": it(&o.key), "desc": o.desc})),
            "skip": self.skip, "limit": self.limit,
        })
    }

    pub fn from_json(j: &J) -> Option<Query> {
        fn np(j: &J) -> Option<NodePat> {
            Some(NodePat { var: j.get("var")?.as_str()?.to_string(), labels: j.get("labels")?.as_array()?.iter().filter_map(|x| x.as_str().map(String::from)).collect() })
        }
        fn it(j: &J) -> Option<Item> {
            if let Some(a) = j.get("agg") {
                let f = AggFn::ALL.into_iter().find(|f| Some(f.name()) == a.as_str())?;
                return Some(Item::Agg { f, arg: Box::new(it(j.get("arg")?)?), distinct: j.get("distinct")?.as_bool()? });
            }
            let v = j.get("var")?.as_str()?.to_string();
            Some(match j.get("key") {
                Some(k) => Item::Prop(v, k.as_str()?.to_string()),
                None => Item::Var(v),
            })
        }
        fn op(j: &J) -> Option<Operand> {
            if let Some(v) = j.get("var") {
                return Some(Operand::Prop(v.as_str()?.to_string(), j.get("key")?.as_str()?.to_string()));
            }
            Some(Operand::Lit(if let Some(i) = j.get("int") {
                Value::Int64(i.as_i64()?)
            } else if let Some(x) = j.get("float") {
                Value::Float64(x.as_f64()?)
            } else if let Some(s) = j.get("str") {
                Value::from(s.as_str()?)
            } else if let Some(b) = j.get("bool") {
                Value::Bool(b.as_bool()?)
            } else {
                Value::Null
            }))
        }
        fn pr(j: &J) -> Option<Pred> {
            if let Some(c) = j.get("cmp") {
                let o = CmpOp::ALL.into_iter().find(|o| Some(o.name()) == c.as_str())?;
                return Some(Pred::Cmp(op(j.get("l")?)?, o, op(j.get("r")?)?));
            }
            if let Some(a) = j.get("and") {
                return Some(Pred::And(Box::new(pr(&a[0])?), Box::new(pr(&a[1])?)));
            }
            if let Some(a) = j.get("or") {
                return Some(Pred::Or(Box::new(pr(&a[0])?), Box::new(pr(&a[1])?)));
            }
            if let Some(n) = j.get("not") {
                return Some(Pred::Not { inner: Box::new(pr(n)?), parens: j.get("parens")?.as_bool()? });
            }
            Some(Pred::IsNull(op(j.get("isnull")?)?))
        }
        let mut paths = vec![];
        let mut optional = vec![];
        let empty = vec![];
        let np_ = j.get("paths")?.as_array()?.len();
        for (pi, p) in j.get("paths")?.as_array()?.iter().chain(j.get("optional").and_then(|x| x.as_array()).unwrap_or(&empty).iter()).enumerate() {
            let mut hops = vec![];
            for h in p.get("hops")?.as_array()? {
                hops.push(Hop {
                    dir: match h.get("dir")?.as_str()? {
                        "out" => Dir::Out,
                        "in" => Dir::In,
                        _ => Dir::Both,
                    },
                    evar: h.get("evar").and_then(|x| x.as_str()).map(String::from),
                    etype: h.get("etype").and_then(|x| x.as_str()).map(String::from),
                    varlen: h.get("varlen").and_then(|x| x.as_array()).map(|a| (a[0].as_u64().unwrap_or(1) as u32, a[1].as_u64().unwrap_or(1) as u32)),
                    to: np(h.get("to")?)?,
                });
            }
            let pat = PathPat { start: np(p.get("start")?)?, hops };
            if pi < np_ {
                paths.push(pat);
            } else {
                optional.push(pat);
            }
        }
        let where_ = match j.get("where") {
            Some(J::Null) | None => None,
            Some(w) => Some(pr(w)?),
        };
        let items = j.get("items")?.as_array()?.iter().map(it).collect::<Option<Vec<_>>>()?;
        let order_by = match j.get("order_by") {
            Some(J::Null) | None => None,
            Some(o) => Some(OrderBy { key: it(o.get("key")?)?, desc: o.get("desc")?.as_bool()? }),
        };
        Some(Query { paths, optional, where_, items, distinct: j.get("distinct")?.as_bool()?, order_by, skip: j.get("skip").and_then(|x| x.as_u64()), limit: j.get("limit").and_then(|x| x.as_u64()) })
    }
}
