//! Shared query model: small-graph enumeration, query AST, naive reference evaluator, renderers (owned by the C08 checker).
