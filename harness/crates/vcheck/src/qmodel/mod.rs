//! Shared query model (owned by the C08 checker, reused by C09 / C10 / C11).
//!
//! # What is here
//!
//! * [`graph`] — [`QGraph`] (plain-Rust property multigraph), [`GraphSpace`] (explicit finite
//!   product of node kinds x edge kinds x sizes) with [`GraphSpace::enumerate`] (one graph per
//!   isomorphism class, simplest first), [`load`] / [`load_into`] (fresh in-memory `GrafeoDB`
//!   through the non-transactional create API, returns the [`IdMap`]), `QGraph::shrinks`,
//!   `QGraph::features`, JSON round trip.
//! * [`ast`] — [`Query`] and friends: comma-separated path patterns (node, fixed hops with
//!   direction / type / labels, variable-length hop), [`Pred`] (comparison of property with
//!   literal or property, AND / OR / NOT with or without parentheses, IS NULL), [`Item`]
//!   (variable, property, aggregate), DISTINCT, [`OrderBy`], SKIP / LIMIT; `Query::features`
//!   (clause-shape map for signatures), `Query::shrinks`, JSON round trip.
//! * [`enumerate`] — [`all_queries`]`(depth_bound)`: the core grammar in deterministic
//!   simplest-first order (weight = number of non-default clause features).
//! * [`render`] — [`render`]`(query, lang) -> Option<String>` for [`Lang::Gql`], [`Lang::Cypher`],
//!   [`Lang::Gremlin`], [`Lang::GraphQL`].
//! * [`eval`] — [`eval`]`(graph, ids, query, opts) -> RefAnswer`: naive all-bindings evaluator
//!   (homomorphism / walk semantics, three-valued WHERE), [`bindings`].
//! * [`compare`] — [`compare`] (engine rows vs reference, with the explicit tolerances),
//!   [`canon_rows`], [`multiset`], [`answers_agree`].
//! * [`exec`] — [`run_query`], [`run_query_session`], [`exec_session`] (panic-catching).
//! * [`check_rows`] — one-call reference check of an engine answer (eval + compare).
//!
//! # Semantics fixed by the model (read before reusing)
//!
//! * homomorphism matching; a variable-length hop `*a..b` enumerates walks of a..b edges;
//! * same variable name in several paths = same binding; `optional` paths are a left join;
//! * WHERE is three-valued (Kleene); comparison with a missing property is unknown; values of
//!   different type classes are unequal and unordered;
//! * `count(x.k)` counts non-NULL values, `sum` over nothing is 0 (NULL tolerated), `min/max/avg`
//!   over nothing are NULL, `collect` skips NULLs and is compared as a multiset;
//! * non-aggregate items next to aggregates are the grouping key; a global aggregate over no
//!   bindings yields one row;
//! * DISTINCT, then ORDER BY (NULL greatest in the reference; either end accepted), then SKIP,
//!   then LIMIT;
//! * node / edge items are rendered as `Int64(id)` — what this engine returns for `RETURN n`.
//!
//! # Typical use
//!
//! ```ignore
//! let (graphs, _) = GraphSpace { max_nodes: 2, max_edges: 2, node_kinds: GraphSpace::core_node_kinds(), edge_kinds: GraphSpace::plain_edge_kinds() }.enumerate();
//! let queries = all_queries(3);
//! for g in &graphs {
//!     let (db, ids) = load(g);
//!     let s = db.session();
//!     for q in &queries {
//!         let want = eval(g, &ids, q, EvalOpts::default());
//!         if let Some(text) = render(q, Lang::Gql) {
//!             if let Exec::Rows(rows) = exec_session(&s, Lang::Gql, &text) {
//!                 let v = compare(&rows, &want, None);
//!             }
//!         }
//!     }
//! }
//! ```

/// Reference check of one engine answer: evaluates `q` over `g` under both self-loop conventions
/// for undirected hops and applies [`compare`] (all documented tolerances).
pub fn check_rows(g: &QGraph, ids: &IdMap, q: &Query, rows: &[Vec<grafeo_common::types::Value>]) -> Verdict {
    let want = eval(g, ids, q, EvalOpts { loop_twice: true });
    let undirected_over_loop = g.edges.iter().any(|e| e.src == e.dst) && q.paths.iter().chain(q.optional.iter()).any(|p| p.hops.iter().any(|h| h.dir == Dir::Both));
    let alt = if undirected_over_loop { Some(eval(g, ids, q, EvalOpts { loop_twice: false })) } else { None };
    compare(rows, &want, alt.as_ref())
}

pub mod ast;
pub mod compare;
pub mod enumerate;
pub mod eval;
pub mod exec;
pub mod graph;
pub mod render;

pub use ast::*;
pub use compare::{CVal, Verdict, answers_agree, canon_rows, canon_value, compare, compare_one, multiset};
pub use enumerate::{all_queries, all_queries_weighted};
pub use eval::{Binding, Bound, EvalOpts, RefAnswer, bindings, cmp_values, eval, eval_cmp};
pub use exec::{Exec, exec_session, run_query, run_query_session};
pub use graph::{EdgeKind, GraphSpace, IdMap, NodeKind, QEdge, QGraph, QNode, load, load_into};
pub use render::{Lang, render, render_gql_like, render_graphql, render_gremlin, render_pred};
