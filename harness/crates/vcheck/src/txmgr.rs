//! C03 / C04 component layer: explicit-state search over the real
//! `TransactionManager` (engine SEQ, DESIGN.md §2/E1, §3/C03, §3/C04).
//!
//! State = event history, rebuilt by replay on a fresh manager.  Key = the
//! harness ledger (per transaction: level, start epoch as returned, registered
//! read/write sets, status + commit epoch as returned, whether gc forgot it) —
//! which is the whole of what the manager's future can depend on.

use grafeo_common::types::{EdgeId, EpochId, NodeId, TxId};
use grafeo_common::utils::error::{Error, TransactionError};
use grafeo_engine::transaction::{EntityId, IsolationLevel, TransactionManager, TxState};
use serde_json::{Value, json};
use std::collections::{BTreeSet, HashSet};
use vcore::{Report, Tier, Violation};

#[derive(Clone, Copy, PartialEq, Eq, Debug, Hash)]
pub enum Ev {
    Begin(u8),     // level: 0 SI, 1 Serializable, 2 ReadCommitted
    Write(u8, u8), // tx index, entity index
    Read(u8, u8),
    Commit(u8),
    Abort(u8),
    Gc,
}

impl Ev {
    pub fn to_json(self) -> Value {
        match self {
            Ev::Begin(l) => json!(["begin", l]),
            Ev::Write(t, x) => json!(["write", t, x]),
            Ev::Read(t, x) => json!(["read", t, x]),
            Ev::Commit(t) => json!(["commit", t]),
            Ev::Abort(t) => json!(["abort", t]),
            Ev::Gc => json!(["gc"]),
        }
    }
    pub fn from_json(v: &Value) -> Option<Ev> {
        let a = v.as_array()?;
        let n = |i: usize| a.get(i).and_then(|x| x.as_u64()).map(|x| x as u8);
        Some(match a.first()?.as_str()? {
            "begin" => Ev::Begin(n(1)?),
            "write" => Ev::Write(n(1)?, n(2)?),
            "read" => Ev::Read(n(1)?, n(2)?),
            "commit" => Ev::Commit(n(1)?),
            "abort" => Ev::Abort(n(1)?),
            "gc" => Ev::Gc,
            _ => return None,
        })
    }
}

fn level(l: u8) -> IsolationLevel {
    match l {
        0 => IsolationLevel::SnapshotIsolation,
        1 => IsolationLevel::Serializable,
        _ => IsolationLevel::ReadCommitted,
    }
}
fn entity(x: u8) -> EntityId {
    match x {
        0 => EntityId::Node(NodeId::new(0)),
        1 => EntityId::Node(NodeId::new(1)),
        // same numeric id as Node 0 on purpose: node/edge namespaces must not be confused
        _ => EntityId::Edge(EdgeId::new(0)),
    }
}

#[derive(Clone, Copy, PartialEq, Eq, Debug)]
enum St {
    Active,
    Committed { epoch: u64, at: usize }, // at = event index of the commit
    Aborted,
}

#[derive(Clone, Debug)]
struct LTx {
    id: TxId,
    level: u8,
    start: u64,
    begin_at: usize,
    writes: BTreeSet<u8>,
    reads: BTreeSet<u8>,
    // what each read observed: (entity, index of the committed writer whose version was seen, or None = initial / own write)
    read_from: Vec<(u8, Option<usize>, bool)>, // (entity, writer, own)
    st: St,
    gone: bool,
    end_at: Option<usize>,
}

pub struct Sys {
    mgr: TransactionManager,
    /// shadow manager that receives every event except gc (gc-erased twin)
    twin: TransactionManager,
    txs: Vec<LTx>,
    twin_ids: Vec<TxId>,
}

#[derive(Clone, Copy, PartialEq, Eq, Debug)]
enum Verdict {
    Ok(u64),
    WriteConflict,
    Serialization,
    Invalid,
    Other,
}
fn verdict(r: &Result<EpochId, Error>) -> Verdict {
    match r {
        Ok(e) => Verdict::Ok(e.as_u64()),
        Err(Error::Transaction(TransactionError::WriteConflict(_))) => Verdict::WriteConflict,
        Err(Error::Transaction(TransactionError::SerializationFailure(_))) => Verdict::Serialization,
        Err(Error::Transaction(TransactionError::InvalidState(_))) => Verdict::Invalid,
        Err(_) => Verdict::Other,
    }
}
fn vname(v: Verdict) -> &'static str {
    match v {
        Verdict::Ok(_) => "ok",
        Verdict::WriteConflict => "write-conflict",
        Verdict::Serialization => "serialization-failure",
        Verdict::Invalid => "invalid-state",
        Verdict::Other => "other-error",
    }
}

pub struct Cfg {
    pub prop: &'static str,
    pub max_tx: usize,
    pub entities: u8,
    pub levels: Vec<u8>,
    pub reads: bool,
    pub max_access: usize, // per transaction reads+writes
    pub depth: usize,
    pub max_gc: usize,
}

impl Sys {
    fn new() -> Self {
        Sys { mgr: TransactionManager::new(), twin: TransactionManager::new(), txs: vec![], twin_ids: vec![] }
    }

    fn key(&self) -> String {
        let mut s = String::new();
        for t in &self.txs {
            let st = match t.st {
                St::Active => "A".to_string(),
                St::Committed { epoch, .. } => format!("C{epoch}"),
                St::Aborted => "X".to_string(),
            };
            s.push_str(&format!("[{}:{}:{}:{:?}:{:?}:{}:{}]", t.level, t.start, st, t.writes, t.reads, t.gone as u8, t.id.as_u64()));
        }
        s.push_str(&format!("|e{}", self.mgr.current_epoch().as_u64()));
        // observation of the real bookkeeping (hook H9): two histories are merged only if the
        // manager itself is in the same state, not merely the harness's belief about it
        s.push_str(&format!("|{:?}|{:?}", self.mgr.verif_dump(), self.twin.verif_dump()));
        s
    }

    /// Applies one event to the real manager(s) and the ledger; returns the
    /// violations the oracles find *at this step*.
    fn step(&mut self, ev: Ev, at: usize, hist: &[Ev], cfg_prop: &str, out: &mut Vec<Violation>) {
        let case = || json!({"engine":"SEQ/txmgr","history": hist[..=at].iter().map(|e| e.to_json()).collect::<Vec<_>>()});
        let mut viol = |fields: &[(&str, &str)], detail: String| {
            out.push(Violation::new(fields, case(), detail));
        };
        match ev {
            Ev::Begin(l) => {
                let id = self.mgr.begin_with_isolation(level(l));
                let tid = self.twin.begin_with_isolation(level(l));
                let start = self.mgr.start_epoch(id).map(|e| e.as_u64());
                let Some(start) = start else {
                    viol(&[("layer", "manager"), ("kind", "begin-not-registered")], format!("start_epoch({id:?}) is None right after begin"));
                    return;
                };
                if self.txs.iter().any(|t| t.id == id) {
                    viol(&[("layer", "manager"), ("kind", "duplicate-tx-id")], format!("begin returned id {id:?} twice"));
                }
                if self.mgr.state(id) != Some(TxState::Active) {
                    viol(&[("layer", "manager"), ("kind", "begin-not-active")], format!("state after begin = {:?}", self.mgr.state(id)));
                }
                if self.mgr.isolation_level(id) != Some(level(l)) {
                    viol(&[("layer", "manager"), ("kind", "isolation-level-lost")], format!("isolation_level = {:?}", self.mgr.isolation_level(id)));
                }
                // epochs must respect real time: every commit that happened before this begin has epoch <= start
                for t in &self.txs {
                    if let St::Committed { epoch, .. } = t.st {
                        if epoch > start {
                            viol(
                                &[("layer", "manager"), ("kind", "start-epoch-before-earlier-commit")],
                                format!("tx began after a commit at epoch {epoch} but got start epoch {start}"),
                            );
                        }
                    }
                }
                self.txs.push(LTx {
                    id,
                    level: l,
                    start,
                    begin_at: at,
                    writes: BTreeSet::new(),
                    reads: BTreeSet::new(),
                    read_from: vec![],
                    st: St::Active,
                    gone: false,
                    end_at: None,
                });
                self.twin_ids.push(tid);
            }
            Ev::Write(t, x) | Ev::Read(t, x) => {
                let is_w = matches!(ev, Ev::Write(..));
                let (id, active, gone) = {
                    let tx = &self.txs[t as usize];
                    (tx.id, tx.st == St::Active, tx.gone)
                };
                let r = if is_w { self.mgr.record_write(id, entity(x)) } else { self.mgr.record_read(id, entity(x)) };
                let _ = if is_w { self.twin.record_write(self.twin_ids[t as usize], entity(x)) } else { self.twin.record_read(self.twin_ids[t as usize], entity(x)) };
                if active && !gone {
                    if r.is_err() {
                        viol(&[("layer", "manager"), ("kind", "access-refused-on-active")], format!("{ev:?} -> {r:?}"));
                        return;
                    }
                    if is_w {
                        self.txs[t as usize].writes.insert(x);
                        // public accessor must agree
                        let ws: Option<HashSet<EntityId>> = self.mgr.get_write_set(id).ok();
                        let want: HashSet<EntityId> = self.txs[t as usize].writes.iter().map(|e| entity(*e)).collect();
                        if ws.as_ref() != Some(&want) {
                            viol(&[("layer", "manager"), ("kind", "write-set-mismatch")], format!("get_write_set = {ws:?}, registered {want:?}"));
                        }
                    } else {
                        // data semantics attached by the harness: what version does this read observe?
                        let own = self.txs[t as usize].writes.contains(&x);
                        let begin_at = self.txs[t as usize].begin_at;
                        let mut src: Option<(usize, usize)> = None; // (writer idx, commit at)
                        for (i, o) in self.txs.iter().enumerate() {
                            if let St::Committed { at: cat, .. } = o.st {
                                if cat < begin_at && o.writes.contains(&x) && src.map_or(true, |(_, a)| cat > a) {
                                    src = Some((i, cat));
                                }
                            }
                        }
                        let tx = &mut self.txs[t as usize];
                        tx.reads.insert(x);
                        tx.read_from.push((x, src.map(|s| s.0), own));
                    }
                } else if r.is_ok() {
                    viol(&[("layer", "manager"), ("kind", "access-accepted-on-finished")], format!("{ev:?} on finished tx returned Ok"));
                }
            }
            Ev::Abort(t) => {
                let (id, active) = (self.txs[t as usize].id, self.txs[t as usize].st == St::Active && !self.txs[t as usize].gone);
                let r = self.mgr.abort(id);
                let _ = self.twin.abort(self.twin_ids[t as usize]);
                if active {
                    if r.is_err() {
                        viol(&[("layer", "manager"), ("kind", "abort-refused")], format!("{r:?}"));
                        return;
                    }
                    self.txs[t as usize].st = St::Aborted;
                    self.txs[t as usize].end_at = Some(at);
                    if self.mgr.state(id) != Some(TxState::Aborted) {
                        viol(&[("layer", "manager"), ("kind", "abort-state")], format!("state after abort = {:?}", self.mgr.state(id)));
                    }
                } else if r.is_ok() {
                    viol(&[("layer", "manager"), ("kind", "abort-accepted-on-finished")], "abort of a finished tx returned Ok".into());
                }
            }
            Ev::Gc => {
                self.mgr.gc();
                for t in self.txs.iter_mut() {
                    let st = self.mgr.state(t.id);
                    if st.is_none() {
                        if t.st == St::Active {
                            out.push(Violation::new(
                                &[("layer", "manager"), ("kind", "gc-removed-active")],
                                json!({"engine":"SEQ/txmgr","history": hist[..=at].iter().map(|e| e.to_json()).collect::<Vec<_>>()}),
                                format!("gc removed active tx {:?}", t.id),
                            ));
                        }
                        t.gone = true;
                    }
                }
            }
            Ev::Commit(t) => {
                let ti = t as usize;
                let id = self.txs[ti].id;
                let was_active = self.txs[ti].st == St::Active && !self.txs[ti].gone;
                let r = self.mgr.commit(id);
                let v = verdict(&r);
                let tv = verdict(&self.twin.commit(self.twin_ids[ti]));
                if !was_active {
                    if let Verdict::Ok(_) = v {
                        viol(&[("layer", "manager"), ("kind", "commit-accepted-on-finished")], "commit of a finished tx returned Ok".into());
                    }
                    return;
                }
                // --- gc invariance (C03 clause c): the same commit in the gc-erased twin history
                let same = match (v, tv) {
                    (Verdict::Ok(_), Verdict::Ok(_)) => true,
                    (a, b) => a == b,
                };
                if !same && cfg_prop == "C03" {
                    viol(
                        &[("layer", "manager"), ("kind", "gc-changes-verdict"), ("with_gc", vname(v)), ("without_gc", vname(tv))],
                        format!("commit of tx#{t}: with gc events -> {}, same history without gc -> {}", vname(v), vname(tv)),
                    );
                }
                // --- reference verdict from the ledger, using real-time order of the history
                let me = self.txs[ti].clone();
                let mut ww_overlap = false; // intersecting writer committed after we began
                let mut ww_any = false; // any committed intersecting writer (whenever)
                let mut rw_overlap = false; // someone committed after we began and wrote what we read
                let mut any_overlap = false; // any other transaction's lifetime intersects ours
                for (i, o) in self.txs.iter().enumerate() {
                    if i == ti {
                        continue;
                    }
                    let o_end = o.end_at.unwrap_or(usize::MAX);
                    // lifetimes [begin_at, end_at] intersect with ours [me.begin_at, at]
                    if o.begin_at < at && o_end > me.begin_at {
                        any_overlap = true;
                    }
                    if let St::Committed { at: cat, .. } = o.st {
                        let inter_w = o.writes.intersection(&me.writes).next().is_some();
                        let inter_r = o.writes.intersection(&me.reads).next().is_some();
                        if inter_w {
                            ww_any = true;
                            if cat > me.begin_at {
                                ww_overlap = true;
                            }
                        }
                        if inter_r && cat > me.begin_at {
                            rw_overlap = true;
                        }
                    }
                }
                let lvl = match me.level { 0 => "si", 1 => "serializable", _ => "read-committed" };
                match v {
                    Verdict::Ok(epoch) => {
                        if ww_overlap {
                            viol(
                                &[("layer", "manager"), ("kind", "lost-update-both-commit"), ("level", lvl)],
                                format!("tx#{t} committed although an overlapping transaction that wrote the same entity committed first"),
                            );
                        }
                        if me.level == 1 && rw_overlap && !ww_overlap && cfg_prop == "C04" && !me.writes.is_empty() {
                            viol(
                                &[("layer", "manager"), ("kind", "ssi-missing-refusal")],
                                format!("serializable tx#{t} committed although it read an entity that an overlapping transaction modified and committed first"),
                            );
                        }
                        // epochs: unique, increasing, after every earlier begin
                        for o in &self.txs {
                            if let St::Committed { epoch: e2, .. } = o.st {
                                if e2 >= epoch {
                                    viol(&[("layer", "manager"), ("kind", "commit-epoch-not-increasing")], format!("commit epoch {epoch} after earlier commit epoch {e2}"));
                                }
                            }
                            if o.start >= epoch {
                                viol(&[("layer", "manager"), ("kind", "commit-epoch-not-after-start")], format!("commit epoch {epoch} <= start epoch {} of a tx begun earlier", o.start));
                            }
                        }
                        self.txs[ti].st = St::Committed { epoch, at };
                        self.txs[ti].end_at = Some(at);
                        if self.mgr.state(id) != Some(TxState::Committed) {
                            viol(&[("layer", "manager"), ("kind", "commit-state")], format!("state after commit = {:?}", self.mgr.state(id)));
                        }
                    }
                    Verdict::WriteConflict => {
                        if !ww_any {
                            viol(
                                &[("layer", "manager"), ("kind", "write-conflict-without-writer"), ("level", lvl)],
                                format!("tx#{t} refused with a write conflict although no committed transaction wrote any of its entities"),
                            );
                        } else if !ww_overlap {
                            viol(
                                &[("layer", "manager"), ("kind", "refused-by-earlier-writer"), ("level", lvl), ("gc_ran", if hist[..at].contains(&Ev::Gc) { "yes" } else { "no" })],
                                format!("tx#{t} refused with a write conflict although every writer of its entities had committed before it began"),
                            );
                        }
                    }
                    Verdict::Serialization => {
                        if cfg_prop == "C04" {
                            if me.writes.is_empty() && !rw_overlap {
                                viol(&[("layer", "manager"), ("kind", "read-only-refused")], format!("read-only tx#{t} refused with a serialization failure"));
                            } else if !any_overlap {
                                viol(&[("layer", "manager"), ("kind", "non-overlapping-refused")], format!("tx#{t} overlaps no other transaction but was refused with a serialization failure"));
                            } else if me.level != 1 {
                                viol(&[("layer", "manager"), ("kind", "non-serializable-level-got-ssi-failure"), ("level", lvl)], format!("tx#{t} is not Serializable but got a serialization failure"));
                            }
                        }
                    }
                    Verdict::Invalid | Verdict::Other => {
                        viol(&[("layer", "manager"), ("kind", "active-commit-invalid-state")], format!("commit of an active tx -> {r:?}"));
                    }
                }
                if !matches!(v, Verdict::Ok(_)) {
                    // refused commit: the transaction must not count as committed
                    if self.mgr.state(id) == Some(TxState::Committed) {
                        viol(&[("layer", "manager"), ("kind", "refused-but-committed")], "commit returned an error but state is Committed".into());
                    }
                    if cfg_prop == "C04" && me.level == 1 && !any_overlap {
                        if !matches!(v, Verdict::Serialization) {
                            // non-overlapping refused for another reason is C03's subject unless ww; nothing here
                        }
                    }
                }
                if cfg_prop == "C04" {
                    self.check_serialization_graph(at, hist, out);
                }
            }
        }
        // state invariants after every step
        let active_model = self.txs.iter().filter(|t| t.st == St::Active).count();
        if self.mgr.active_count() != active_model {
            out.push(Violation::new(
                &[("layer", "manager"), ("kind", "active-count")],
                json!({"engine":"SEQ/txmgr","history": hist[..=at].iter().map(|e| e.to_json()).collect::<Vec<_>>()}),
                format!("active_count = {}, ledger says {}", self.mgr.active_count(), active_model),
            ));
        }
        let min_active = self.mgr.min_active_epoch().as_u64();
        for t in &self.txs {
            if t.st == St::Active && min_active > t.start {
                out.push(Violation::new(
                    &[("layer", "manager"), ("kind", "min-active-epoch-too-high")],
                    json!({"engine":"SEQ/txmgr","history": hist[..=at].iter().map(|e| e.to_json()).collect::<Vec<_>>()}),
                    format!("min_active_epoch = {min_active} > start epoch {} of an active tx", t.start),
                ));
            }
            // finished transactions never return to Active
            if t.st != St::Active && self.mgr.state(t.id) == Some(TxState::Active) {
                out.push(Violation::new(
                    &[("layer", "manager"), ("kind", "finished-became-active")],
                    json!({"engine":"SEQ/txmgr","history": hist[..=at].iter().map(|e| e.to_json()).collect::<Vec<_>>()}),
                    format!("tx {:?} is finished in the ledger but Active in the manager", t.id),
                ));
            }
        }
    }

    /// C04 clause (i): when every transaction is Serializable, the direct
    /// serialization graph over committed transactions is acyclic and every
    /// edge between writing transactions points forward in commit order.
    fn check_serialization_graph(&self, at: usize, hist: &[Ev], out: &mut Vec<Violation>) {
        if self.txs.iter().any(|t| t.level != 1) {
            return;
        }
        let committed: Vec<usize> = self.txs.iter().enumerate().filter(|(_, t)| matches!(t.st, St::Committed { .. })).map(|(i, _)| i).collect();
        let cat = |i: usize| match self.txs[i].st {
            St::Committed { at, .. } => at,
            _ => usize::MAX,
        };
        let mut edges: Vec<(usize, usize, &'static str)> = vec![];
        for &a in &committed {
            for &b in &committed {
                if a == b {
                    continue;
                }
                // ww: a -> b if both wrote x and a committed first
                if cat(a) < cat(b) && self.txs[a].writes.intersection(&self.txs[b].writes).next().is_some() {
                    edges.push((a, b, "ww"));
                }
            }
        }
        for &b in &committed {
            for (x, src, own) in &self.txs[b].read_from {
                if *own {
                    continue;
                }
                // wr: src -> b
                if let Some(s) = src {
                    if matches!(self.txs[*s].st, St::Committed { .. }) && *s != b {
                        edges.push((*s, b, "wr"));
                    }
                }
                // rw: b -> every committed writer of x whose version is later than the one b read
                let seen_at = src.map(|s| cat(s)).unwrap_or(0);
                for &k in &committed {
                    if k != b && self.txs[k].writes.contains(x) && (src.is_none() || cat(k) > seen_at) && Some(k) != *src {
                        edges.push((b, k, "rw"));
                    }
                }
            }
        }
        // forward-in-commit-order check between writing transactions
        for (a, b, kind) in &edges {
            if cat(*a) > cat(*b) && !self.txs[*a].writes.is_empty() && !self.txs[*b].writes.is_empty() {
                out.push(Violation::new(
                    &[("layer", "manager"), ("kind", "dependency-against-commit-order"), ("edge", kind)],
                    json!({"engine":"SEQ/txmgr","history": hist[..=at].iter().map(|e| e.to_json()).collect::<Vec<_>>()}),
                    format!("{kind} dependency tx#{a} -> tx#{b} but tx#{a} committed after tx#{b}: not equivalent to commit order"),
                ));
                return;
            }
        }
        // cycle check (DFS)
        let n = self.txs.len();
        let mut color = vec![0u8; n];
        fn dfs(u: usize, edges: &[(usize, usize, &'static str)], color: &mut [u8]) -> bool {
            color[u] = 1;
            for (a, b, _) in edges {
                if *a == u {
                    if color[*b] == 1 {
                        return true;
                    }
                    if color[*b] == 0 && dfs(*b, edges, color) {
                        return true;
                    }
                }
            }
            color[u] = 2;
            false
        }
        for &c in &committed {
            if color[c] == 0 && dfs(c, &edges, &mut color) {
                out.push(Violation::new(
                    &[("layer", "manager"), ("kind", "serialization-graph-cycle")],
                    json!({"engine":"SEQ/txmgr","history": hist[..=at].iter().map(|e| e.to_json()).collect::<Vec<_>>()}),
                    format!("committed Serializable transactions form a dependency cycle: {edges:?}"),
                ));
                return;
            }
        }
    }

    fn enabled(&self, cfg: &Cfg, hist: &[Ev]) -> Vec<Ev> {
        let mut v = vec![];
        if self.txs.len() < cfg.max_tx {
            for l in &cfg.levels {
                v.push(Ev::Begin(*l));
            }
        }
        for (i, t) in self.txs.iter().enumerate() {
            let i = i as u8;
            if t.st == St::Active {
                let used = t.writes.len() + t.reads.len();
                if used < cfg.max_access {
                    for x in 0..cfg.entities {
                        if !t.writes.contains(&x) {
                            v.push(Ev::Write(i, x));
                        }
                        if cfg.reads && !t.reads.contains(&x) {
                            v.push(Ev::Read(i, x));
                        }
                    }
                }
                v.push(Ev::Commit(i));
                v.push(Ev::Abort(i));
            }
        }
        // one misuse probe per finished transaction (no new state expected)
        for (i, t) in self.txs.iter().enumerate() {
            if t.st != St::Active && !t.gone {
                v.push(Ev::Commit(i as u8));
            }
        }
        let gcs = hist.iter().filter(|e| **e == Ev::Gc).count();
        if gcs < cfg.max_gc && hist.last() != Some(&Ev::Gc) && !self.txs.is_empty() {
            v.push(Ev::Gc);
        }
        v
    }
}

fn replay(hist: &[Ev], prop: &str, check_all: bool) -> (Sys, Vec<Violation>) {
    let mut sys = Sys::new();
    let mut out = vec![];
    for (i, ev) in hist.iter().enumerate() {
        let mut step_out = vec![];
        sys.step(*ev, i, hist, prop, &mut step_out);
        if check_all || i + 1 == hist.len() {
            out.extend(step_out);
        }
    }
    (sys, out)
}

pub fn cfg_for(prop: &'static str, tier: Tier) -> Vec<Cfg> {
    let c = |max_tx, entities, levels: &[u8], reads, max_access, depth, max_gc| Cfg { prop, max_tx, entities, levels: levels.to_vec(), reads, max_access, depth, max_gc };
    match (prop, tier) {
        // layer A: 3 transactions x 2 entities x 2 accesses; layer B: 4 transactions (two readers pinning
        // different epochs around a committed writer + an epoch-advancing commit) on a single contended entity
        ("C03", Tier::Quick) => vec![c(3, 2, &[0], false, 2, 10, 2), c(4, 2, &[0], false, 1, 12, 2), c(5, 1, &[0], false, 1, 13, 1)],
        ("C03", Tier::Thorough) => vec![c(3, 3, &[0, 2], false, 3, 14, 2), c(4, 2, &[0], false, 2, 12, 2), c(5, 1, &[0], false, 1, 14, 1)],
        ("C04", Tier::Quick) => vec![c(3, 2, &[1], true, 2, 10, 1), c(4, 1, &[1], true, 1, 11, 1)],
        (_, _) => vec![c(3, 2, &[1, 0], true, 3, 13, 1), c(4, 2, &[1], true, 2, 12, 1)],
    }
}

/// BFS over histories, deduplicated by ledger key.
pub fn explore(cfg: &Cfg, rep: &mut Report) {
    let mut seen: HashSet<String> = HashSet::new();
    let (s0, _) = replay(&[], cfg.prop, false);
    seen.insert(s0.key());
    let mut frontier: Vec<Vec<Ev>> = vec![vec![]];
    rep.states += 1;
    let mut commit_outcomes: BTreeSet<&'static str> = BTreeSet::new();
    let mut depth_done = 0;
    for d in 0..cfg.depth {
        if frontier.is_empty() {
            break;
        }
        let results = vcore::par_map(&frontier, vcore::cores(), |_, h| {
            let (sys, _) = replay(h, cfg.prop, false);
            let evs = sys.enabled(cfg, h);
            let mut succ = vec![];
            for ev in evs {
                let mut h2 = h.clone();
                h2.push(ev);
                let (s2, viols) = replay(&h2, cfg.prop, false);
                let outcome: Option<&'static str> = if let Ev::Commit(t) = ev {
                    Some(match s2.txs[t as usize].st {
                        St::Committed { .. } => "committed",
                        _ => "refused",
                    })
                } else {
                    None
                };
                succ.push((s2.key(), h2, viols, outcome));
            }
            succ
        });
        let mut next = vec![];
        for succ in results {
            for (k, h2, viols, outcome) in succ {
                rep.transitions += 1;
                rep.evaluations += 1;
                if let Some(o) = outcome {
                    commit_outcomes.insert(o);
                }
                let bad = !viols.is_empty();
                for v in viols {
                    rep.violation(v);
                }
                if seen.insert(k.clone()) {
                    rep.states += 1;
                    rep.nontrivial(&k);
                    if rep.states % 997 == 3 {
                        rep.sample(json!(h2.iter().map(|e| e.to_json()).collect::<Vec<_>>()));
                    }
                    // do not expand past a violating step: the ledger no longer describes the implementation
                    if !bad {
                        next.push(h2);
                    }
                }
            }
        }
        depth_done = d + 1;
        frontier = next;
        if rep.violation_total() > 2_000_000 {
            rep.exhaustive = false;
            break;
        }
    }
    let mut layers = rep.extra.get("layers").and_then(|l| l.as_array()).cloned().unwrap_or_default();
    layers.push(json!({
        "bounds": {"max_tx": cfg.max_tx, "entities": cfg.entities, "levels": cfg.levels, "reads": cfg.reads, "max_access_per_tx": cfg.max_access, "depth": cfg.depth, "max_gc": cfg.max_gc},
        "depth_completed": depth_done,
        "frontier_left_at_depth_bound": frontier.len(),
        "states": seen.len(),
        "commit_outcomes_seen": commit_outcomes.iter().collect::<Vec<_>>(),
    }));
    rep.set("layers", json!(layers));
}

pub fn replay_case(case: &Value, prop: &str) -> Vec<Violation> {
    let hist: Vec<Ev> = case.get("history").and_then(|h| h.as_array()).map(|a| a.iter().filter_map(Ev::from_json).collect()).unwrap_or_default();
    let (_, v1) = replay(&hist, prop, true);
    let (_, v2) = replay(&hist, prop, true);
    let s1: Vec<String> = v1.iter().map(|v| v.sig_string()).collect();
    let s2: Vec<String> = v2.iter().map(|v| v.sig_string()).collect();
    if s1 != s2 {
        vcore::machinery_failure("replay of the same manager history gave different observations twice");
    }
    v1
}


/// Integration layer through sessions (DESIGN.md §3/C03, §3/C04): a handful of exhaustively enumerated
/// two-session histories on a shared in-memory GrafeoDB. C03: both sessions modify the same node while
/// their transactions overlap — at most one commit may succeed. C04: the write-skew shape at Serializable.
pub fn session_layer(prop: &str, rep: &mut Report) {
    use grafeo_common::types::Value;
    use grafeo_engine::GrafeoDB;
    let writes: [(&str, &str); 3] = [("set-property", "MATCH (n:G {name: 'a'}) SET n.v = 2"), ("add-label", "MATCH (n:G {name: 'a'}) SET n:L2"), ("delete-node", "MATCH (n:G {name: 'a'}) DETACH DELETE n")];
    // all interleavings of (begin, write, commit) x 2 sessions in which both begin before either commits
    let steps = ["b0", "w0", "c0", "b1", "w1", "c1"];
    let mut orders: Vec<Vec<&str>> = vec![];
    fn perms<'a>(rest: Vec<&'a str>, cur: Vec<&'a str>, out: &mut Vec<Vec<&'a str>>) {
        if rest.is_empty() {
            out.push(cur);
            return;
        }
        for i in 0..rest.len() {
            let mut r = rest.clone();
            let x = r.remove(i);
            let mut c = cur.clone();
            c.push(x);
            perms(r, c, out);
        }
    }
    perms(steps.to_vec(), vec![], &mut orders);
    let pos = |o: &Vec<&str>, x: &str| o.iter().position(|y| *y == x).unwrap();
    orders.retain(|o| pos(o, "b0") < pos(o, "w0") && pos(o, "w0") < pos(o, "c0") && pos(o, "b1") < pos(o, "w1") && pos(o, "w1") < pos(o, "c1") && pos(o, "b0") < pos(o, "c1") && pos(o, "b1") < pos(o, "c0"));
    for (wi, (wname0, w0)) in writes.iter().enumerate() {
        for (wname1, w1) in writes.iter().skip(if prop == "C03" { 0 } else { wi }) {
            for ord in &orders {
                let db = GrafeoDB::new_in_memory();
                db.create_node_with_props(&["G"], [("name", Value::String("a".into())), ("v", Value::Int64(1))]);
                db.create_node_with_props(&["G"], [("name", Value::String("b".into())), ("v", Value::Int64(1))]);
                let mut s = [db.session(), db.session()];
                let mut committed = [false, false];
                let level = if prop == "C04" { grafeo_engine::transaction::IsolationLevel::Serializable } else { grafeo_engine::transaction::IsolationLevel::SnapshotIsolation };
                for st in ord {
                    let i = if st.ends_with('0') { 0 } else { 1 };
                    match &st[..1] {
                        "b" => {
                            let _ = s[i].begin_tx_with_isolation(level);
                        }
                        "w" => {
                            if prop == "C03" {
                                let _ = s[i].execute(if i == 0 { w0 } else { w1 });
                            } else {
                                // write skew: each reads the other's node and writes its own
                                let (mine, other) = if i == 0 { ("a", "b") } else { ("b", "a") };
                                let _ = s[i].execute(&format!("MATCH (n:G {{name: '{other}'}}) RETURN n.v"));
                                let _ = s[i].execute(&format!("MATCH (n:G {{name: '{mine}'}}) SET n.v = 0"));
                            }
                        }
                        _ => committed[i] = s[i].commit().is_ok(),
                    }
                }
                rep.evaluations += 1;
                rep.transitions += ord.len() as u64;
                rep.nontrivial(&(prop, wname0, wname1, ord));
                if committed[0] && committed[1] {
                    let case = json!({"engine": "SEQ/session-pair", "order": ord, "writes": [wname0, wname1]});
                    if prop == "C03" {
                        rep.violation(Violation::new(&[("layer", "session"), ("kind", "both-overlapping-writers-committed"), ("write0", wname0), ("write1", wname1)], case, format!("two overlapping session transactions both modified node a ({wname0} / {wname1}) and both commits succeeded (order {ord:?})")));
                    } else {
                        rep.violation(Violation::new(&[("layer", "session"), ("kind", "write-skew-both-committed")], case, format!("two overlapping Serializable session transactions each read the node the other wrote and both commits succeeded (order {ord:?})")));
                    }
                }
            }
            if prop == "C04" {
                return;
            }
        }
    }
}

pub fn run(prop: &'static str, args: vcore::Args) -> i32 {
    let (tier, replay) = (args.tier, args.replay.as_deref());
    if let Some(p) = replay {
        let case = vcore::read_replay_case(p);
        return crate::replay_report(prop, replay_case(&case, prop));
    }
    let mut rep = Report::new(prop, tier, "model_checking");
    let cfgs = cfg_for(prop, tier);
    rep.rule = "BFS over event histories of the real TransactionManager (begin/write/read/commit/abort/gc), deduplicated on the ledger key; a state is non-trivial/distinct when its ledger key is new".into();
    for cfg in &cfgs {
        let t0 = rep.elapsed_s();
        explore(cfg, &mut rep);
        eprintln!("layer max_tx={} entities={} depth={}: states so far {} ({:.1}s)", cfg.max_tx, cfg.entities, cfg.depth, rep.states, rep.elapsed_s() - t0);
    }
    session_layer(prop, &mut rep);
    rep.traces_validated = rep.transitions; // every transition is executed on the real manager
    for m in &args.merge {
        // threaded layer (engine SCHED, scenario S7): schedules explored under the controlled scheduler
        rep.merge_partial(m, "sched_layer");
    }
    rep.assumptions.push("data semantics of reads (which version a read observes) are attached by the harness: last version committed before the reader began, or its own write".into());
    rep.finish()
}

