//! C13 store layer: explicit-state search over the real `RdfStore`
//! (engine SEQ).  Reference model: a `BTreeSet` of triple indexes.

use grafeo_common::types::TxId;
use grafeo_core::graph::rdf::{RdfStore, RdfStoreConfig, Term, Triple, TriplePattern};
use serde_json::{Value, json};
use std::collections::BTreeSet;
use vcore::{SeqModel, sigv};

#[derive(Clone, Copy, Debug, PartialEq, Eq)]
pub enum Ev {
    Insert(u8),
    Remove(u8),
    Clear,
    TxInsert(u8, u8),
    TxRemove(u8, u8),
    TxCommit(u8),
    TxRollback(u8),
}

pub fn subj(i: u8) -> Term {
    match i {
        0 => Term::iri("http://ex.org/a"),
        1 => Term::blank("b"),
        _ => Term::iri("http://ex.org/absent"),
    }
}
pub fn pred(i: u8) -> Term {
    match i {
        0 => Term::iri("http://ex.org/p"),
        1 => Term::iri("http://ex.org/q"),
        _ => Term::iri("http://ex.org/absent"),
    }
}
pub fn obj(i: u8) -> Term {
    match i {
        0 => Term::iri("http://ex.org/a"), // same IRI as subject 0
        1 => Term::literal("x"),
        2 => Term::lang_literal("x", "en"),
        3 => Term::typed_literal("1", "http://www.w3.org/2001/XMLSchema#integer"),
        4 => Term::blank("b"), // same blank node as subject 1
        _ => Term::literal("absent"),
    }
}

pub struct Model {
    /// universe of triples as (s,p,o) index tuples
    pub universe: Vec<(u8, u8, u8)>,
    pub index_objects: bool,
    pub txs: u8,
    pub max_pending: usize,
}

impl Model {
    pub fn triple(&self, i: u8) -> Triple {
        let (s, p, o) = self.universe[i as usize];
        Triple::new(subj(s), pred(p), obj(o))
    }
}

pub struct Sys {
    store: RdfStore,
    set: BTreeSet<u8>,
    pending: Vec<Vec<(bool, u8)>>, // per tx: (is_insert, triple)
}

fn txid(t: u8) -> TxId {
    TxId::new(2 + t as u64)
}

impl Model {
    fn idx_of(&self, t: &Triple) -> Option<u8> {
        (0..self.universe.len() as u8).find(|i| &self.triple(*i) == t)
    }
    /// multiset of universe indexes in a result; None when a triple outside the universe shows up
    fn canon(&self, r: &[std::sync::Arc<Triple>]) -> Result<Vec<u8>, String> {
        let mut v = vec![];
        for t in r {
            match self.idx_of(t) {
                Some(i) => v.push(i),
                None => return Err(format!("{t}")),
            }
        }
        v.sort();
        Ok(v)
    }

    fn oracle(&self, sys: &Sys, out: &mut Vec<(Vec<(String, String)>, String)>) {
        let st = &sys.store;
        let io = if self.index_objects { "on" } else { "off" };
        let model: Vec<u8> = sys.set.iter().copied().collect();
        // len / is_empty / contains / triples
        if st.len() != model.len() {
            out.push((sigv(&[("layer", "store"), ("kind", "len"), ("object_index", io)]), format!("len() = {}, set has {}", st.len(), model.len())));
        }
        if st.is_empty() != model.is_empty() {
            out.push((sigv(&[("layer", "store"), ("kind", "is_empty"), ("object_index", io)]), format!("is_empty() = {}", st.is_empty())));
        }
        for i in 0..self.universe.len() as u8 {
            let c = st.contains(&self.triple(i));
            if c != sys.set.contains(&i) {
                out.push((sigv(&[("layer", "store"), ("kind", "contains"), ("object_index", io)]), format!("contains(t{i}) = {c}, set says {}", !c)));
            }
        }
        match self.canon(&st.triples()) {
            Ok(v) if v == model => {}
            o => out.push((sigv(&[("layer", "store"), ("kind", "triples"), ("object_index", io)]), format!("triples() = {o:?}, set = {model:?}"))),
        }
        // all 8 pattern shapes x all term choices (incl. one absent term per position)
        let s_terms: Vec<Option<u8>> = vec![None, Some(0), Some(1), Some(9)];
        let p_terms: Vec<Option<u8>> = vec![None, Some(0), Some(1), Some(9)];
        let o_terms: Vec<Option<u8>> = vec![None, Some(0), Some(1), Some(2), Some(3), Some(4), Some(9)];
        for s in &s_terms {
            for p in &p_terms {
                for o in &o_terms {
                    let pat = TriplePattern { subject: s.map(subj), predicate: p.map(pred), object: o.map(obj) };
                    let want: Vec<u8> = model
                        .iter()
                        .copied()
                        .filter(|i| {
                            let (ts, tp, to) = self.universe[*i as usize];
                            s.map_or(true, |x| x == ts) && p.map_or(true, |x| x == tp) && o.map_or(true, |x| x == to)
                        })
                        .collect();
                    let got = self.canon(&st.find(&pat));
                    if got.as_ref() != Ok(&want) {
                        let shape = format!("{}{}{}", if s.is_some() { "S" } else { "?" }, if p.is_some() { "P" } else { "?" }, if o.is_some() { "O" } else { "?" });
                        let kind = match &got {
                            Ok(g) if g.len() > want.len() || has_dup(g) => "find-surplus-or-duplicate",
                            Ok(_) => "find-missing",
                            Err(_) => "find-foreign-triple",
                        };
                        out.push((
                            sigv(&[("layer", "store"), ("kind", kind), ("shape", &shape), ("object_index", io)]),
                            format!("find({shape} s={s:?} p={p:?} o={o:?}) = {got:?}, expected {want:?}"),
                        ));
                    }
                }
            }
        }
        for s in [0u8, 1, 9] {
            let want: Vec<u8> = model.iter().copied().filter(|i| self.universe[*i as usize].0 == s).collect();
            let got = self.canon(&st.triples_with_subject(&subj(s)));
            if got.as_ref() != Ok(&want) {
                out.push((sigv(&[("layer", "store"), ("kind", "triples_with_subject"), ("object_index", io)]), format!("s={s}: {got:?} vs {want:?}")));
            }
        }
        for p in [0u8, 1, 9] {
            let want: Vec<u8> = model.iter().copied().filter(|i| self.universe[*i as usize].1 == p).collect();
            let got = self.canon(&st.triples_with_predicate(&pred(p)));
            if got.as_ref() != Ok(&want) {
                out.push((sigv(&[("layer", "store"), ("kind", "triples_with_predicate"), ("object_index", io)]), format!("p={p}: {got:?} vs {want:?}")));
            }
        }
        for o in [0u8, 1, 2, 3, 4, 9] {
            let want: Vec<u8> = model.iter().copied().filter(|i| self.universe[*i as usize].2 == o).collect();
            let got = self.canon(&st.triples_with_object(&obj(o)));
            if got.as_ref() != Ok(&want) {
                out.push((sigv(&[("layer", "store"), ("kind", "triples_with_object"), ("object_index", io)]), format!("o={o}: {got:?} vs {want:?}")));
            }
        }
        // distinct term listings: exactly the terms that occur, once each
        let mut want_s: Vec<String> = model.iter().map(|i| subj(self.universe[*i as usize].0).to_string()).collect();
        want_s.sort();
        want_s.dedup();
        let mut got_s: Vec<String> = st.subjects().iter().map(|t| t.to_string()).collect();
        got_s.sort();
        if got_s != want_s {
            out.push((sigv(&[("layer", "store"), ("kind", "subjects"), ("object_index", io)]), format!("subjects() = {got_s:?}, expected {want_s:?}")));
        }
        let mut want_p: Vec<String> = model.iter().map(|i| pred(self.universe[*i as usize].1).to_string()).collect();
        want_p.sort();
        want_p.dedup();
        let mut got_p: Vec<String> = st.predicates().iter().map(|t| t.to_string()).collect();
        got_p.sort();
        if got_p != want_p {
            out.push((sigv(&[("layer", "store"), ("kind", "predicates"), ("object_index", io)]), format!("predicates() = {got_p:?}, expected {want_p:?}")));
        }
        let mut want_o: Vec<String> = model.iter().map(|i| obj(self.universe[*i as usize].2).to_string()).collect();
        want_o.sort();
        want_o.dedup();
        let mut got_o: Vec<String> = st.objects().iter().map(|t| t.to_string()).collect();
        got_o.sort();
        if got_o != want_o {
            out.push((sigv(&[("layer", "store"), ("kind", "objects"), ("object_index", io)]), format!("objects() = {got_o:?}, expected {want_o:?}")));
        }
        let stats = st.stats();
        if stats.triple_count != model.len() || stats.subject_count != want_s.len() || stats.predicate_count != want_p.len() || (self.index_objects && stats.object_count != want_o.len()) {
            out.push((
                sigv(&[("layer", "store"), ("kind", "stats"), ("object_index", io)]),
                format!("stats() = {}/{}/{}/{}, expected {}/{}/{}/{}", stats.triple_count, stats.subject_count, stats.predicate_count, stats.object_count, model.len(), want_s.len(), want_p.len(), want_o.len()),
            ));
        }
    }
}

fn has_dup(v: &[u8]) -> bool {
    v.windows(2).any(|w| w[0] == w[1])
}

impl SeqModel for Model {
    type Ev = Ev;
    type Sys = Sys;
    fn init(&self) -> Sys {
        Sys {
            store: RdfStore::with_config(RdfStoreConfig { initial_capacity: 4, index_objects: self.index_objects }),
            set: BTreeSet::new(),
            pending: vec![vec![]; self.txs as usize],
        }
    }
    fn enabled(&self, sys: &Sys, _h: &[Ev]) -> Vec<Ev> {
        let n = self.universe.len() as u8;
        let mut v = vec![];
        for i in 0..n {
            v.push(Ev::Insert(i));
        }
        for i in 0..n {
            v.push(Ev::Remove(i));
        }
        v.push(Ev::Clear);
        for t in 0..self.txs {
            if sys.pending[t as usize].len() < self.max_pending {
                for i in 0..n {
                    v.push(Ev::TxInsert(t, i));
                    v.push(Ev::TxRemove(t, i));
                }
            }
            v.push(Ev::TxCommit(t));
            v.push(Ev::TxRollback(t));
        }
        v
    }
    fn apply(&self, sys: &mut Sys, ev: &Ev, check: bool, out: &mut Vec<(Vec<(String, String)>, String)>) {
        let io = if self.index_objects { "on" } else { "off" };
        match *ev {
            Ev::Insert(i) => {
                let r = sys.store.insert(self.triple(i));
                let want = sys.set.insert(i);
                if check && r != want {
                    out.push((sigv(&[("layer", "store"), ("kind", "insert-return"), ("object_index", io)]), format!("insert(t{i}) returned {r}, expected {want}")));
                }
            }
            Ev::Remove(i) => {
                let r = sys.store.remove(&self.triple(i));
                let want = sys.set.remove(&i);
                if check && r != want {
                    out.push((sigv(&[("layer", "store"), ("kind", "remove-return"), ("object_index", io)]), format!("remove(t{i}) returned {r}, expected {want}")));
                }
            }
            Ev::Clear => {
                sys.store.clear();
                sys.set.clear();
            }
            Ev::TxInsert(t, i) => {
                sys.store.insert_in_tx(txid(t), self.triple(i));
                sys.pending[t as usize].push((true, i));
            }
            Ev::TxRemove(t, i) => {
                sys.store.remove_in_tx(txid(t), self.triple(i));
                sys.pending[t as usize].push((false, i));
            }
            Ev::TxCommit(t) => {
                let n = sys.store.commit_tx(txid(t));
                let ops = std::mem::take(&mut sys.pending[t as usize]);
                let _ = n; // the returned count is not part of the property (a coalescing buffer may report fewer)
                for (ins, i) in ops {
                    if ins {
                        sys.set.insert(i);
                    } else {
                        sys.set.remove(&i);
                    }
                }
            }
            Ev::TxRollback(t) => {
                let n = sys.store.rollback_tx(txid(t));
                sys.pending[t as usize].clear();
                let _ = n;
            }
        }
        if check {
            self.oracle(sys, out);
        }
    }
    fn key(&self, sys: &Sys) -> String {
        // observation (sorted triple listing through the public API) + ledger of pending operations
        let mut obs: Vec<String> = sys.store.triples().iter().map(|t| t.to_string()).collect();
        obs.sort();
        format!("{obs:?}|{:?}", sys.pending)
    }
    fn ev_str(&self, ev: &Ev) -> String {
        match *ev {
            Ev::Insert(i) => format!("insert({i})"),
            Ev::Remove(i) => format!("remove({i})"),
            Ev::Clear => "clear()".into(),
            Ev::TxInsert(t, i) => format!("tx_insert({t},{i})"),
            Ev::TxRemove(t, i) => format!("tx_remove({t},{i})"),
            Ev::TxCommit(t) => format!("tx_commit({t})"),
            Ev::TxRollback(t) => format!("tx_rollback({t})"),
        }
    }
    fn engine_name(&self) -> String {
        "SEQ/rdfstore".into()
    }
    fn config_json(&self) -> Value {
        json!({"universe": self.universe, "index_objects": self.index_objects, "txs": self.txs, "max_pending": self.max_pending})
    }
    fn nontrivial(&self, sys: &Sys) -> bool {
        !sys.set.is_empty()
    }
}

pub fn parse_ev(s: &str) -> Option<Ev> {
    let (name, rest) = s.split_once('(')?;
    let args: Vec<u8> = rest.trim_end_matches(')').split(',').filter(|x| !x.is_empty()).filter_map(|x| x.trim().parse().ok()).collect();
    Some(match name {
        "insert" => Ev::Insert(*args.first()?),
        "remove" => Ev::Remove(*args.first()?),
        "clear" => Ev::Clear,
        "tx_insert" => Ev::TxInsert(*args.first()?, *args.get(1)?),
        "tx_remove" => Ev::TxRemove(*args.first()?, *args.get(1)?),
        "tx_commit" => Ev::TxCommit(*args.first()?),
        "tx_rollback" => Ev::TxRollback(*args.first()?),
        _ => return None,
    })
}

pub fn model_from_config(c: &Value) -> Model {
    let universe = c["universe"].as_array().map(|a| a.iter().map(|t| (t[0].as_u64().unwrap_or(0) as u8, t[1].as_u64().unwrap_or(0) as u8, t[2].as_u64().unwrap_or(0) as u8)).collect()).unwrap_or_default();
    Model { universe, index_objects: c["index_objects"].as_bool().unwrap_or(true), txs: c["txs"].as_u64().unwrap_or(1) as u8, max_pending: c["max_pending"].as_u64().unwrap_or(2) as usize }
}

pub const UNIVERSE_Q: &[(u8, u8, u8)] = &[(0, 0, 0), (0, 0, 1), (0, 1, 1), (1, 0, 1), (1, 1, 2), (0, 0, 3)];
pub const UNIVERSE_T: &[(u8, u8, u8)] = &[(0, 0, 0), (0, 0, 1), (0, 1, 1), (1, 0, 1), (1, 1, 2), (0, 0, 3), (1, 0, 4), (0, 0, 2)];
