//! C01 / C02 integration layer: explicit-state search over histories of sessions on a
//! shared in-memory `GrafeoDB` (engine SEQ; DESIGN.md §3/C01, §3/C02).
//!
//! Reads are not alphabet letters: after EVERY transition EVERY live session executes the whole
//! probe bundle (label scan, unlabelled scan, expand, 2-hop, projection, count, filters, Cypher scan,
//! point lookups, neighbour listings, batch lookup, SPARQL patterns) twice.  The reference model is a
//! list of committed operations plus per-transaction overlays; a mismatch is attributed to the single
//! foreign operation (uncommitted / rolled back / committed later / own / committed) that explains
//! it, which yields the causal signature (anomaly, write-kind, probe, reader-status).

use grafeo_common::types::{EdgeId, NodeId, Value};
use grafeo_engine::{GrafeoDB, Session};
use serde_json::{Value as J, json};
use std::collections::{BTreeMap, BTreeSet};
use vcore::{SeqModel, sigv};

#[derive(Clone, Copy, Debug, PartialEq, Eq, Hash, PartialOrd, Ord)]
pub enum W {
    CreateNode,     // statement: INSERT (:G {name:'c<sid>'})
    CreateNodeApi,  // session.create_node_with_props(["G"], name 'd<sid>')
    DeleteNodeB,    // MATCH (n:G {name:'b'}) DETACH DELETE n
    CreateEdge,     // MATCH (a),(b) CREATE (b)-[:K]->(a)
    CreateEdgeApi,  // session.create_edge(b, a, "K")
    DeleteEdge,     // MATCH (a)-[e:K]->(b) DELETE e   (the G0 edge a->b)
    SetProp,        // SET a.v = 2
    RemoveProp,     // REMOVE a.v
    AddLabel,       // SET a:L2
    RemoveLabel,    // REMOVE a:L1
    InsertTriple,   // SPARQL INSERT DATA t1
    DeleteTriple,   // SPARQL DELETE DATA t0
    InsertTriple0,  // SPARQL INSERT DATA t0 (already present: idempotent)
    DeleteTriple1,  // SPARQL DELETE DATA t1
}
pub const ALL_W: [W; 14] = [W::CreateNode, W::SetProp, W::DeleteNodeB, W::CreateEdge, W::DeleteEdge, W::RemoveProp, W::AddLabel, W::RemoveLabel, W::InsertTriple, W::DeleteTriple, W::CreateNodeApi, W::CreateEdgeApi, W::InsertTriple0, W::DeleteTriple1];
fn wname(w: W) -> &'static str {
    match w {
        W::CreateNode => "create-node",
        W::CreateNodeApi => "create-node-api",
        W::DeleteNodeB => "detach-delete-node",
        W::CreateEdge => "create-edge",
        W::CreateEdgeApi => "create-edge-api",
        W::DeleteEdge => "delete-edge",
        W::SetProp => "set-property",
        W::RemoveProp => "remove-property",
        W::AddLabel => "add-label",
        W::RemoveLabel => "remove-label",
        W::InsertTriple => "insert-triple",
        W::DeleteTriple => "delete-triple",
        W::InsertTriple0 => "insert-existing-triple",
        W::DeleteTriple1 => "delete-inserted-triple",
    }
}
fn wparse(s: &str) -> Option<W> {
    ALL_W.iter().copied().find(|w| wname(*w) == s)
}

#[derive(Clone, Debug, PartialEq)]
pub enum Ev {
    Begin(u8, u8), // session, level (0 default/SI, 1 serializable)
    Commit(u8),
    Rollback(u8),
    /// commit that is made to fail through the public TransactionManager API (hook H5): 0 = abort_all_active first
    FailCommit(u8, u8),
    /// drop the session value (with its open transaction) and open a fresh one in the slot
    DropSession(u8),
    Write(u8, W),
}
pub fn ev_str(e: &Ev) -> String {
    match e {
        Ev::Begin(s, l) => format!("begin({s},{l})"),
        Ev::Commit(s) => format!("commit({s})"),
        Ev::Rollback(s) => format!("rollback({s})"),
        Ev::FailCommit(s, k) => format!("fail_commit({s},{k})"),
        Ev::DropSession(s) => format!("drop_session({s})"),
        Ev::Write(s, w) => format!("write({s},{})", wname(*w)),
    }
}
pub fn parse_ev(s: &str) -> Option<Ev> {
    let (name, rest) = s.split_once('(')?;
    let args: Vec<&str> = rest.trim_end_matches(')').split(',').map(|x| x.trim()).collect();
    let n = |i: usize| args.get(i).and_then(|x| x.parse::<u8>().ok());
    Some(match name {
        "begin" => Ev::Begin(n(0)?, n(1)?),
        "commit" => Ev::Commit(n(0)?),
        "rollback" => Ev::Rollback(n(0)?),
        "fail_commit" => Ev::FailCommit(n(0)?, n(1)?),
        "drop_session" => Ev::DropSession(n(0)?),
        "write" => Ev::Write(n(0)?, wparse(args.get(1)?)?),
        _ => return None,
    })
}

/// One applied write, as the model sees it (ids are the ones the store handed out).
#[derive(Clone, Debug, PartialEq)]
struct Op {
    w: W,
    sid: u8,
    node_id: Option<u64>,
    edge_id: Option<u64>,
}

#[derive(Clone, Debug, Default, PartialEq)]
struct MNode {
    name: String,
    labels: BTreeSet<String>,
    v: Option<i64>,
}
#[derive(Clone, Debug, Default, PartialEq)]
struct MGraph {
    nodes: BTreeMap<u64, MNode>,
    edges: BTreeMap<u64, (u64, u64, String)>,
    triples: BTreeSet<u8>,
}

const A: u64 = 0;
const B: u64 = 1;

fn g0() -> MGraph {
    let mut g = MGraph::default();
    g.nodes.insert(A, MNode { name: "a".into(), labels: ["G", "L1"].iter().map(|s| s.to_string()).collect(), v: Some(1) });
    g.nodes.insert(B, MNode { name: "b".into(), labels: ["G"].iter().map(|s| s.to_string()).collect(), v: None });
    g.edges.insert(0, (A, B, "K".into()));
    g.triples.insert(0);
    g
}

fn apply(g: &mut MGraph, op: &Op) {
    match op.w {
        W::CreateNode | W::CreateNodeApi => {
            let name = format!("{}{}", if op.w == W::CreateNode { "c" } else { "d" }, op.sid);
            g.nodes.insert(op.node_id.unwrap_or(999), MNode { name, labels: ["G".to_string()].into_iter().collect(), v: None });
        }
        W::DeleteNodeB => {
            if g.nodes.remove(&B).is_some() {
                g.edges.retain(|_, e| e.0 != B && e.1 != B);
            }
        }
        W::CreateEdge | W::CreateEdgeApi => {
            if g.nodes.contains_key(&A) && g.nodes.contains_key(&B) {
                g.edges.insert(op.edge_id.unwrap_or(999), (B, A, "K".into()));
            }
        }
        W::DeleteEdge => {
            g.edges.retain(|_, e| !(e.0 == A && e.1 == B && e.2 == "K"));
        }
        W::SetProp => {
            if let Some(n) = g.nodes.get_mut(&A) {
                n.v = Some(2);
            }
        }
        W::RemoveProp => {
            if let Some(n) = g.nodes.get_mut(&A) {
                n.v = None;
            }
        }
        W::AddLabel => {
            if let Some(n) = g.nodes.get_mut(&A) {
                n.labels.insert("L2".into());
            }
        }
        W::RemoveLabel => {
            if let Some(n) = g.nodes.get_mut(&A) {
                n.labels.remove("L1");
            }
        }
        W::InsertTriple => {
            g.triples.insert(1);
        }
        W::DeleteTriple => {
            g.triples.remove(&0);
        }
        W::InsertTriple0 => {
            g.triples.insert(0);
        }
        W::DeleteTriple1 => {
            g.triples.remove(&1);
        }
    }
}
fn graph_of(ops: &[&Op]) -> MGraph {
    let mut g = g0();
    for o in ops {
        apply(&mut g, o);
    }
    g
}

const T0: &str = "<http://ex.org/a> <http://ex.org/p> \"x\"";
const T1: &str = "<http://ex.org/b> <http://ex.org/p> \"y\"";

// ---------------------------------------------------------------------------
// probes
// ---------------------------------------------------------------------------

pub const PROBES: [&str; 23] = [
    "label-scan", "unlabelled-scan", "label-scan-L1", "label-scan-L2", "expand", "two-hop", "projection", "count", "filter-eq-1", "filter-eq-2", "filter-range", "cypher-label-scan",
    "get_node", "node_exists", "get_edge", "neighbors-out", "neighbors-in", "get_nodes_batch", "sparql-all", "sparql-bound", "gremlin-label-scan", "graphql-label-scan", "two-hop-any",
];

fn rows_str(r: Result<grafeo_engine::database::QueryResult, grafeo_common::utils::error::Error>) -> String {
    match r {
        Ok(q) => {
            let mut rows: Vec<String> = q.rows.iter().map(|r| r.iter().map(vs).collect::<Vec<_>>().join(",")).collect();
            rows.sort();
            rows.join(" | ")
        }
        Err(e) => format!("ERR({})", vcore::truncate(&e.to_string(), 60)),
    }
}
fn vs(v: &Value) -> String {
    match v {
        Value::Null => "null".into(),
        Value::Int64(i) => i.to_string(),
        Value::String(s) => s.to_string(),
        o => format!("{o:?}"),
    }
}

fn names<'a>(g: &'a MGraph, f: impl Fn(&MNode) -> bool) -> Vec<String> {
    let mut v: Vec<String> = g.nodes.values().filter(|n| f(n)).map(|n| n.name.clone()).collect();
    v.sort();
    v
}

/// Expected canonical answer of probe `p` on model graph `g`.
fn expected(p: usize, g: &MGraph) -> String {
    let q = |v: Vec<String>| v.join(" | ");
    match PROBES[p] {
        "label-scan" | "cypher-label-scan" | "gremlin-label-scan" | "graphql-label-scan" => q(names(g, |n| n.labels.contains("G"))),
        "unlabelled-scan" => q(names(g, |_| true)),
        "label-scan-L1" => q(names(g, |n| n.labels.contains("L1"))),
        "label-scan-L2" => q(names(g, |n| n.labels.contains("L2"))),
        "expand" => {
            let mut v: Vec<String> = g.edges.values().filter(|e| e.2 == "K").filter_map(|e| Some(format!("{},{}", g.nodes.get(&e.0)?.name, g.nodes.get(&e.1)?.name))).collect();
            v.sort();
            q(v)
        }
        "two-hop" | "two-hop-any" => {
            let mut v = vec![];
            for e1 in g.edges.values() {
                for e2 in g.edges.values() {
                    if e1.1 == e2.0 {
                        if let (Some(x), Some(z)) = (g.nodes.get(&e1.0), g.nodes.get(&e2.1)) {
                            v.push(format!("{},{}", x.name, z.name));
                        }
                    }
                }
            }
            v.sort();
            q(v)
        }
        "projection" => {
            let mut v: Vec<String> = g.nodes.values().filter(|n| n.labels.contains("G")).map(|n| format!("{},{}", n.name, n.v.map_or("null".to_string(), |x| x.to_string()))).collect();
            v.sort();
            q(v)
        }
        "count" => q(vec![g.nodes.values().filter(|n| n.labels.contains("G")).count().to_string()]),
        "filter-eq-1" => q(names(g, |n| n.labels.contains("G") && n.v == Some(1))),
        "filter-eq-2" => q(names(g, |n| n.labels.contains("G") && n.v == Some(2))),
        "filter-range" => q(names(g, |n| n.labels.contains("G") && n.v.is_some_and(|x| x > 0))),
        "get_node" => {
            let mut v = vec![];
            for id in 0..6u64 {
                match g.nodes.get(&id) {
                    Some(n) => v.push(format!("{id}:{}:{:?}:{:?}", n.name, n.labels, n.v)),
                    None => v.push(format!("{id}:none")),
                }
            }
            q(v)
        }
        "node_exists" => q((0..6u64).map(|id| format!("{id}:{}", g.nodes.contains_key(&id))).collect()),
        "get_edge" => q((0..4u64).map(|id| match g.edges.get(&id) {
            Some(e) => format!("{id}:{}>{}:{}", e.0, e.1, e.2),
            None => format!("{id}:none"),
        }).collect()),
        "neighbors-out" => {
            let mut v = vec![];
            for n in [A, B] {
                let mut o: Vec<String> = g.edges.iter().filter(|(_, e)| e.0 == n).map(|(id, e)| format!("{}@{id}", e.1)).collect();
                o.sort();
                v.push(format!("{n}:{o:?}"));
            }
            q(v)
        }
        "neighbors-in" => {
            let mut v = vec![];
            for n in [A, B] {
                let mut o: Vec<String> = g.edges.iter().filter(|(_, e)| e.1 == n).map(|(id, e)| format!("{}@{id}", e.0)).collect();
                o.sort();
                v.push(format!("{n}:{o:?}"));
            }
            q(v)
        }
        "get_nodes_batch" => q((0..4u64).map(|id| format!("{id}:{}", g.nodes.get(&id).map_or("none".to_string(), |n| n.name.clone()))).collect()),
        "sparql-all" => {
            let mut v: Vec<String> = g.triples.iter().map(|t| if *t == 0 { "http://ex.org/a,http://ex.org/p,x".to_string() } else { "http://ex.org/b,http://ex.org/p,y".to_string() }).collect();
            v.sort();
            q(v)
        }
        "sparql-bound" => q(if g.triples.contains(&0) { vec!["http://ex.org/a".to_string()] } else { vec![] }),
        _ => unreachable!(),
    }
}

fn run_probe(p: usize, s: &Session) -> String {
    match PROBES[p] {
        "label-scan" => rows_str(s.execute("MATCH (n:G) RETURN n.name")),
        "unlabelled-scan" => rows_str(s.execute("MATCH (n) RETURN n.name")),
        "label-scan-L1" => rows_str(s.execute("MATCH (n:L1) RETURN n.name")),
        "label-scan-L2" => rows_str(s.execute("MATCH (n:L2) RETURN n.name")),
        "expand" => rows_str(s.execute("MATCH (x)-[:K]->(y) RETURN x.name, y.name")),
        "two-hop" => rows_str(s.execute("MATCH (x)-[:K]->(y)-[:K]->(z) RETURN x.name, z.name")),
        "two-hop-any" => rows_str(s.execute("MATCH (x)-[]->(y)-[]->(z) RETURN x.name, z.name")),
        "projection" => rows_str(s.execute("MATCH (n:G) RETURN n.name, n.v")),
        "count" => rows_str(s.execute("MATCH (n:G) RETURN COUNT(n)")),
        "filter-eq-1" => rows_str(s.execute("MATCH (n:G) WHERE n.v = 1 RETURN n.name")),
        "filter-eq-2" => rows_str(s.execute("MATCH (n:G) WHERE n.v = 2 RETURN n.name")),
        "filter-range" => rows_str(s.execute("MATCH (n:G) WHERE n.v > 0 RETURN n.name")),
        "cypher-label-scan" => rows_str(s.execute_cypher("MATCH (n:G) RETURN n.name")),
        "gremlin-label-scan" => rows_str(s.execute_gremlin("g.V().hasLabel('G').values('name')")),
        "graphql-label-scan" => rows_str(s.execute_graphql("{ G { name } }")),
        "get_node" => {
            let v: Vec<String> = (0..6u64)
                .map(|id| match s.get_node(NodeId::new(id)) {
                    Some(n) => {
                        let labels: BTreeSet<String> = n.labels.iter().map(|l| l.to_string()).collect();
                        let name = n.get_property("name").map(vs).unwrap_or_else(|| "?".into());
                        let v = n.get_property("v").and_then(|x| if let Value::Int64(i) = x { Some(*i) } else { None });
                        format!("{id}:{name}:{labels:?}:{v:?}")
                    }
                    None => format!("{id}:none"),
                })
                .collect();
            v.join(" | ")
        }
        "node_exists" => (0..6u64).map(|id| format!("{id}:{}", s.node_exists(NodeId::new(id)))).collect::<Vec<_>>().join(" | "),
        "get_edge" => (0..4u64)
            .map(|id| match s.get_edge(EdgeId::new(id)) {
                Some(e) => format!("{id}:{}>{}:{}", e.src.as_u64(), e.dst.as_u64(), e.edge_type),
                None => format!("{id}:none"),
            })
            .collect::<Vec<_>>()
            .join(" | "),
        "neighbors-out" => {
            let v: Vec<String> = [A, B]
                .iter()
                .map(|n| {
                    let mut o: Vec<String> = s.get_neighbors_outgoing(NodeId::new(*n)).iter().map(|(d, e)| format!("{}@{}", d.as_u64(), e.as_u64())).collect();
                    o.sort();
                    format!("{n}:{o:?}")
                })
                .collect();
            v.join(" | ")
        }
        "neighbors-in" => {
            let v: Vec<String> = [A, B]
                .iter()
                .map(|n| {
                    let mut o: Vec<String> = s.get_neighbors_incoming(NodeId::new(*n)).iter().map(|(d, e)| format!("{}@{}", d.as_u64(), e.as_u64())).collect();
                    o.sort();
                    format!("{n}:{o:?}")
                })
                .collect();
            v.join(" | ")
        }
        "get_nodes_batch" => {
            let ids: Vec<NodeId> = (0..4u64).map(NodeId::new).collect();
            let r = s.get_nodes_batch(&ids);
            r.iter().enumerate().map(|(i, n)| format!("{i}:{}", n.as_ref().map_or("none".to_string(), |n| n.get_property("name").map(vs).unwrap_or_else(|| "?".into())))).collect::<Vec<_>>().join(" | ")
        }
        "sparql-all" => rows_str(s.execute_sparql("SELECT ?s ?p ?o WHERE { ?s ?p ?o }")),
        "sparql-bound" => rows_str(s.execute_sparql("SELECT ?s WHERE { ?s <http://ex.org/p> \"x\" }")),
        _ => unreachable!(),
    }
}

// ---------------------------------------------------------------------------
// system under exploration
// ---------------------------------------------------------------------------

#[derive(Clone, Debug, Default)]
struct MTx {
    begin_len: usize, // length of the committed log when the transaction began
    ops: Vec<Op>,
}

pub struct Sys {
    db: GrafeoDB,
    sessions: Vec<Option<Session>>,
    tx: Vec<Option<MTx>>,
    committed: Vec<Op>,
    rolled_back: Vec<(Op, &'static str)>, // ops of transactions that ended without a successful commit, with how they ended
    next_node: u64,
    next_edge: u64,
    /// observation fingerprint of the last probe round (part of the state key)
    last_obs: u64,
}

pub struct Model {
    pub prop: &'static str, // "C01" | "C02"
    pub sessions: u8,
    pub writes: Vec<W>,
    /// per session: maximum number of events
    pub caps: Vec<usize>,
    pub writers: Vec<u8>, // sessions allowed to write
    pub levels: Vec<u8>,
    pub probes: Vec<usize>,
    pub second_commit_first: bool, // start from a state in which a transaction already committed (store epoch frozen after the first commit)
    pub endings: bool,             // C02: fail_commit / drop_session events
}

impl Model {
    fn view_ops<'a>(&self, sys: &'a Sys, s: usize) -> Vec<&'a Op> {
        match &sys.tx[s] {
            Some(t) => sys.committed[..t.begin_len].iter().chain(t.ops.iter()).collect(),
            None => sys.committed.iter().collect(),
        }
    }

    fn probe_round(&self, sys: &mut Sys, check: bool, out: &mut Vec<(Vec<(String, String)>, String)>) {
        let mut fp: Vec<String> = vec![];
        for s in 0..self.sessions as usize {
            let Some(sess) = sys.sessions[s].as_ref() else { continue };
            let view = self.view_ops(sys, s);
            let g = graph_of(&view);
            let in_tx = sys.tx[s].is_some();
            for &p in &self.probes {
                let got = run_probe(p, sess);
                let got2 = run_probe(p, sess);
                fp.push(got.clone());
                if !check {
                    continue;
                }
                let status = if in_tx { "in-transaction" } else { "autocommit" };
                if got != got2 && self.prop == "C01" {
                    out.push((sigv(&[("layer", "session"), ("anomaly", "repeat-read-differs"), ("probe", PROBES[p]), ("reader", status), ("write", "-")]), format!("session {s}: {} answered {got} then {got2}", PROBES[p])));
                }
                let want = expected(p, &g);
                if got == want {
                    continue;
                }
                if got.starts_with("ERR(") {
                    // a front end refusing a probe is not a wrong answer; counted by the caller through the key only
                    continue;
                }
                // attribute the difference to one foreign / own operation
                let mut cause: Option<(&'static str, W)> = None;
                let mut ending: &'static str = "-";
                // (1) operations that must NOT be visible: others' uncommitted, rolled back, committed after our begin
                let mut candidates: Vec<(&'static str, &Op, &'static str)> = vec![];
                for (o, t) in sys.tx.iter().enumerate() {
                    if o != s {
                        if let Some(t) = t {
                            for op in &t.ops {
                                candidates.push(("sees-uncommitted", op, "-"));
                            }
                        }
                    }
                }
                for (op, how) in &sys.rolled_back {
                    candidates.push(("sees-rolled-back", op, how));
                }
                if let Some(t) = &sys.tx[s] {
                    for op in &sys.committed[t.begin_len..] {
                        candidates.push(("sees-later-commit", op, "-"));
                    }
                }
                for (an, op, how) in &candidates {
                    let mut v2 = view.clone();
                    v2.push(op);
                    if expected(p, &graph_of(&v2)) == got {
                        cause = Some((an, op.w));
                        ending = how;
                        break;
                    }
                }
                // (2) operations that MUST be visible: own writes, committed operations
                if cause.is_none() {
                    for i in 0..view.len() {
                        let mut v2 = view.clone();
                        let removed = v2.remove(i);
                        if expected(p, &graph_of(&v2)) == got {
                            let own = sys.tx[s].as_ref().is_some_and(|t| i >= t.begin_len);
                            cause = Some((if own { "misses-own-write" } else { "misses-committed" }, removed.w));
                            break;
                        }
                    }
                }
                let (anomaly, w) = match cause {
                    Some((a, w)) => (a, wname(w)),
                    None => ("unexplained", "-"),
                };
                // an unexplained mismatch is identified by what exactly is surplus / missing in the answer
                let diff = if cause.is_none() {
                    let (g_rows, w_rows): (Vec<&str>, Vec<&str>) = (got.split(" | ").filter(|x| !x.is_empty()).collect(), want.split(" | ").filter(|x| !x.is_empty()).collect());
                    let extra: Vec<&str> = g_rows.iter().filter(|x| !w_rows.contains(x)).copied().collect();
                    let missing: Vec<&str> = w_rows.iter().filter(|x| !g_rows.contains(x)).copied().collect();
                    vcore::truncate(&format!("+{extra:?}-{missing:?}"), 120)
                } else {
                    "-".to_string()
                };
                let c02_class = matches!(anomaly, "sees-rolled-back" | "misses-committed");
                let report = if self.prop == "C02" { c02_class || anomaly == "unexplained" } else { !c02_class };
                if report {
                    out.push((
                        sigv(&[("layer", "session"), ("anomaly", anomaly), ("write", w), ("probe", PROBES[p]), ("reader", status), ("ending", ending), ("diff", &diff)]),
                        format!("session {s} ({status}) probe {}: got {got}, expected {want}", PROBES[p]),
                    ));
                }
            }
        }
        // database-level counts reflect the committed state (outside any transaction)
        if check && self.prop == "C01" {
            let view: Vec<&Op> = sys.committed.iter().collect();
            let g = graph_of(&view);
            if sys.db.node_count() != g.nodes.len() {
                out.push((sigv(&[("layer", "database"), ("anomaly", "count-not-committed-state"), ("probe", "node_count"), ("reader", "autocommit"), ("write", "-")]), format!("GrafeoDB::node_count() = {}, committed state has {}", sys.db.node_count(), g.nodes.len())));
            }
            if sys.db.edge_count() != g.edges.len() {
                out.push((sigv(&[("layer", "database"), ("anomaly", "count-not-committed-state"), ("probe", "edge_count"), ("reader", "autocommit"), ("write", "-")]), format!("GrafeoDB::edge_count() = {}, committed state has {}", sys.db.edge_count(), g.edges.len())));
            }
        }
        fp.push(format!("{}/{}", sys.db.node_count(), sys.db.edge_count()));
        sys.last_obs = vcore::hash_of(&fp);
    }

    fn do_write(&self, sys: &mut Sys, s: usize, w: W) -> Op {
        let sess = sys.sessions[s].as_ref().expect("session");
        let mut op = Op { w, sid: s as u8, node_id: None, edge_id: None };
        match w {
            W::CreateNode => {
                let _ = sess.execute(&format!("INSERT (:G {{name: 'c{s}'}})"));
                op.node_id = Some(sys.next_node);
                sys.next_node += 1;
            }
            W::CreateNodeApi => {
                let id = sess.create_node_with_props(&["G"], [("name", Value::String(format!("d{s}").into()))]);
                op.node_id = Some(id.as_u64());
                sys.next_node = sys.next_node.max(id.as_u64() + 1);
            }
            W::DeleteNodeB => {
                let _ = sess.execute("MATCH (n:G {name: 'b'}) DETACH DELETE n");
            }
            W::CreateEdge => {
                let r = sess.execute("MATCH (x:G {name: 'a'}), (y:G {name: 'b'}) CREATE (y)-[:K]->(x)");
                // an edge id is consumed only if both endpoints were matched
                if r.is_ok() {
                    let view = self.view_ops(sys, s);
                    let g = graph_of(&view);
                    if g.nodes.contains_key(&A) && g.nodes.contains_key(&B) {
                        op.edge_id = Some(sys.next_edge);
                        sys.next_edge += 1;
                    }
                }
            }
            W::CreateEdgeApi => {
                let id = sess.create_edge(NodeId::new(B), NodeId::new(A), "K");
                op.edge_id = Some(id.as_u64());
                sys.next_edge = sys.next_edge.max(id.as_u64() + 1);
            }
            W::DeleteEdge => {
                let _ = sess.execute("MATCH (x:G {name: 'a'})-[e:K]->(y:G {name: 'b'}) DELETE e");
            }
            W::SetProp => {
                let _ = sess.execute("MATCH (n:G {name: 'a'}) SET n.v = 2");
            }
            W::RemoveProp => {
                let _ = sess.execute("MATCH (n:G {name: 'a'}) REMOVE n.v");
            }
            W::AddLabel => {
                let _ = sess.execute("MATCH (n:G {name: 'a'}) SET n:L2");
            }
            W::RemoveLabel => {
                let _ = sess.execute("MATCH (n:G {name: 'a'}) REMOVE n:L1");
            }
            W::InsertTriple => {
                let _ = sess.execute_sparql(&format!("INSERT DATA {{ {T1} }}"));
            }
            W::DeleteTriple => {
                let _ = sess.execute_sparql(&format!("DELETE DATA {{ {T0} }}"));
            }
            W::InsertTriple0 => {
                let _ = sess.execute_sparql(&format!("INSERT DATA {{ {T0} }}"));
            }
            W::DeleteTriple1 => {
                let _ = sess.execute_sparql(&format!("DELETE DATA {{ {T1} }}"));
            }
        }
        op
    }
}

impl SeqModel for Model {
    type Ev = Ev;
    type Sys = Sys;
    fn init(&self) -> Sys {
        let db = GrafeoDB::new_in_memory();
        // G0 through autocommit calls of the non-transactional API
        let a = db.create_node_with_props(&["G", "L1"], [("name", Value::String("a".into())), ("v", Value::Int64(1))]);
        let b = db.create_node_with_props(&["G"], [("name", Value::String("b".into()))]);
        db.create_edge(a, b, "K");
        let _ = db.execute_sparql(&format!("INSERT DATA {{ {T0} }}"));
        if self.second_commit_first {
            // an unrelated committed transaction: the store-epoch machinery only bites after the first commit
            let mut s = db.session();
            let _ = s.begin_tx();
            let _ = s.commit();
        }
        let sessions = (0..self.sessions).map(|_| Some(db.session())).collect();
        Sys { db, sessions, tx: vec![None; self.sessions as usize], committed: vec![], rolled_back: vec![], next_node: 2, next_edge: 1, last_obs: 0 }
    }
    fn enabled(&self, sys: &Sys, hist: &[Ev]) -> Vec<Ev> {
        let mut v = vec![];
        for s in 0..self.sessions {
            let used = hist.iter().filter(|e| matches!(e, Ev::Begin(x, _) | Ev::Commit(x) | Ev::Rollback(x) | Ev::FailCommit(x, _) | Ev::DropSession(x) | Ev::Write(x, _) if *x == s)).count();
            if used >= self.caps[s as usize] {
                continue;
            }
            let in_tx = sys.tx[s as usize].is_some();
            if !in_tx {
                for l in &self.levels {
                    v.push(Ev::Begin(s, *l));
                }
            } else {
                v.push(Ev::Commit(s));
                v.push(Ev::Rollback(s));
                if self.endings {
                    v.push(Ev::FailCommit(s, 0));
                    v.push(Ev::DropSession(s));
                }
            }
            if self.writers.contains(&s) {
                for w in &self.writes {
                    // each write kind at most once per session (names / targets are fixed)
                    if !hist.iter().any(|e| *e == Ev::Write(s, *w)) {
                        v.push(Ev::Write(s, *w));
                    }
                }
            }
        }
        v
    }
    fn apply(&self, sys: &mut Sys, ev: &Ev, check: bool, out: &mut Vec<(Vec<(String, String)>, String)>) {
        match ev.clone() {
            Ev::Begin(s, l) => {
                let s = s as usize;
                let sess = sys.sessions[s].as_mut().expect("session");
                let r = if l == 1 { sess.begin_tx_with_isolation(grafeo_engine::transaction::IsolationLevel::Serializable) } else { sess.begin_tx() };
                if r.is_ok() {
                    sys.tx[s] = Some(MTx { begin_len: sys.committed.len(), ops: vec![] });
                }
            }
            Ev::Commit(s) => {
                let s = s as usize;
                let r = sys.sessions[s].as_mut().expect("session").commit();
                if let Some(t) = sys.tx[s].take() {
                    if r.is_ok() {
                        sys.committed.extend(t.ops);
                    } else {
                        sys.rolled_back.extend(t.ops.into_iter().map(|o| (o, "failed-commit")));
                    }
                }
            }
            Ev::Rollback(s) => {
                let s = s as usize;
                let _ = sys.sessions[s].as_mut().expect("session").rollback();
                if let Some(t) = sys.tx[s].take() {
                    sys.rolled_back.extend(t.ops.into_iter().map(|o| (o, "rollback")));
                }
            }
            Ev::FailCommit(s, _k) => {
                let s = s as usize;
                // make the commit fail through the public TransactionManager API
                sys.db.verif_tx_manager().abort_all_active();
                let r = sys.sessions[s].as_mut().expect("session").commit();
                // every transaction that was active is now aborted: none of their writes may remain visible
                for t in sys.tx.iter_mut() {
                    if let Some(t) = t.take() {
                        sys.rolled_back.extend(t.ops.into_iter().map(|o| (o, "failed-commit")));
                    }
                }
                if r.is_ok() && check {
                    out.push((sigv(&[("layer", "session"), ("anomaly", "commit-ok-after-abort"), ("write", "-"), ("probe", "-"), ("reader", "-")]), "commit returned Ok although the transaction had been aborted".into()));
                }
                // other sessions still believe they are in a transaction: end them so that model and sessions agree
                for o in 0..self.sessions as usize {
                    if o != s {
                        if let Some(sess) = sys.sessions[o].as_mut() {
                            if sess.in_transaction() {
                                let _ = sess.rollback();
                            }
                        }
                    }
                }
            }
            Ev::DropSession(s) => {
                let s = s as usize;
                sys.sessions[s] = None; // drops the Session value with its open transaction
                if let Some(t) = sys.tx[s].take() {
                    sys.rolled_back.extend(t.ops.into_iter().map(|o| (o, "session-drop")));
                }
                sys.sessions[s] = Some(sys.db.session());
            }
            Ev::Write(s, w) => {
                let s = s as usize;
                let op = self.do_write(sys, s, w);
                match sys.tx[s].as_mut() {
                    Some(t) => t.ops.push(op),
                    None => sys.committed.push(op), // autocommit
                }
            }
        }
        self.probe_round(sys, check, out);
    }
    fn key(&self, sys: &Sys) -> String {
        let txs: Vec<String> = sys.tx.iter().map(|t| t.as_ref().map_or("-".to_string(), |t| format!("{}:{:?}", t.begin_len, t.ops.iter().map(|o| (o.w, o.node_id, o.edge_id)).collect::<Vec<_>>()))).collect();
        format!("{:?}|{:?}|{:?}|{}|{}|{:x}", sys.committed.iter().map(|o| (o.w, o.sid, o.node_id, o.edge_id)).collect::<Vec<_>>(), sys.rolled_back.iter().map(|(o, h)| (o.w, o.sid, o.node_id, o.edge_id, *h)).collect::<Vec<_>>(), txs, sys.next_node, sys.next_edge, sys.last_obs)
    }
    fn ev_str(&self, ev: &Ev) -> String {
        ev_str(ev)
    }
    fn engine_name(&self) -> String {
        format!("SEQ/session/{}", self.prop)
    }
    fn config_json(&self) -> J {
        json!({"prop": self.prop, "sessions": self.sessions, "writes": self.writes.iter().map(|w| wname(*w)).collect::<Vec<_>>(), "caps": self.caps, "writers": self.writers, "levels": self.levels, "probes": self.probes, "second_commit_first": self.second_commit_first, "endings": self.endings})
    }
    fn nontrivial(&self, sys: &Sys) -> bool {
        !sys.committed.is_empty() || sys.tx.iter().any(|t| t.as_ref().is_some_and(|t| !t.ops.is_empty())) || !sys.rolled_back.is_empty()
    }
    fn expand_after_violation(&self) -> bool {
        // the reference is driven by the history alone (commit verdicts are inputs), so it stays valid
        true
    }
}

pub fn model_from_json(c: &J) -> Model {
    let arr = |k: &str| c[k].as_array().map(|a| a.iter().filter_map(|x| x.as_u64()).collect::<Vec<u64>>()).unwrap_or_default();
    Model {
        prop: if c["prop"] == "C02" { "C02" } else { "C01" },
        sessions: c["sessions"].as_u64().unwrap_or(2) as u8,
        writes: c["writes"].as_array().map(|a| a.iter().filter_map(|x| x.as_str().and_then(wparse)).collect()).unwrap_or_default(),
        caps: arr("caps").into_iter().map(|x| x as usize).collect(),
        writers: arr("writers").into_iter().map(|x| x as u8).collect(),
        levels: arr("levels").into_iter().map(|x| x as u8).collect(),
        probes: arr("probes").into_iter().map(|x| x as usize).collect(),
        second_commit_first: c["second_commit_first"].as_bool().unwrap_or(false),
        endings: c["endings"].as_bool().unwrap_or(false),
    }
}
