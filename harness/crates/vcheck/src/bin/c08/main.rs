//! C08 (temporary probe skeleton)
use grafeo_engine::GrafeoDB;
use grafeo_common::types::Value;
use std::io::BufRead;

fn main() {
    let _ = vcheck::entry();
    let db = GrafeoDB::new_in_memory();
    // fixed probe graph: n0:A{p:1,s:"x"}, n1:B{p:2}, n2 (no label, no props), n3:A:B{p:1}
    let n0 = db.create_node_with_props(&["A"], [("p", Value::Int64(1)), ("s", Value::from("x"))]);
    let n1 = db.create_node_with_props(&["B"], [("p", Value::Int64(2))]);
    let n2 = db.create_node(&[]);
    let n3 = db.create_node_with_props(&["A", "B"], [("p", Value::Int64(1))]);
    db.create_edge_with_props(n0, n1, "K", [("w", Value::Int64(1))]);
    db.create_edge_with_props(n1, n0, "K", [("w", Value::Int64(2))]);
    db.create_edge(n0, n0, "L");
    db.create_edge(n0, n1, "L");
    db.create_edge(n2, n3, "K");
    let stdin = std::io::stdin();
    for line in stdin.lock().lines() {
        let line = line.unwrap();
        let line = line.trim();
        if line.is_empty() || line.starts_with('#') { continue; }
        let (lang, q) = line.split_once('|').unwrap();
        let r = vcore::catch(|| match lang.trim() {
            "gql" => db.execute(q),
            "cy" => db.execute_cypher(q),
            "gr" => db.execute_gremlin(q),
            "gq" => db.execute_graphql(q),
            _ => panic!("lang"),
        });
        match r {
            Ok(Ok(res)) => println!("{lang}| {q}\n    cols={:?} rows={:?}", res.columns, res.rows),
            Ok(Err(e)) => println!("{lang}| {q}\n    ERR {e}"),
            Err(p) => println!("{lang}| {q}\n    PANIC {p}"),
        }
    }
}
