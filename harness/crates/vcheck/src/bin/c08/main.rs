//! C08 — read queries return the answer the graph-pattern semantics defines (DESIGN.md §3/C08).
//!
//! Engine ENUM: every small graph of an explicit graph space x every query of the depth-bounded
//! core grammar x every front end that can spell it, executed on the real `GrafeoDB` and compared
//! with the naive all-bindings evaluator of `vcheck::qmodel`.  Two front ends that both answer
//! the same question must also agree with each other.
//!
//! Oracles, per (graph, query, language) whose text the engine accepts:
//!  * engine rows == reference rows under `qmodel::compare` (kinds missing-rows / extra-rows /
//!    wrong-value / wrong-order / wrong-window / wrong-arity);
//!  * no panic (kind panic);
//!  * an `Err` is "not expressible" unless the same text is answered on a rich reference graph, in
//!    which case the failure depends on the data and is reported (kind spurious-error);
//!  * two languages that both pass the reference check must also agree with each other
//!    (kind language-disagreement; differences implied by a reference deviation are only counted).
//! Every failing case is minimised (query clauses, then graph elements, to a fixpoint) before its
//! signature is computed, so that a signature names the clause shape and the witness features that
//! are needed for the failure; at most `CASES_PER_SIG` cases per signature are kept (the first in
//! enumeration order, i.e. the simplest).
//!
//! Extra modes (triage aids): `c08 --probe` (reads `gql|cy|gr|gq| text` and `graph| <pretty graph>`
//! lines on stdin), `c08 --list [depth]` (prints the query enumeration with its Gremlin / GraphQL
//! spellings), `c08 --plan "<gql>" "<graph>"` (logical plan before / after the optimizer).
//! Environment: `C08_MAX_GRAPHS=n` (truncate, marks the run non-exhaustive), `C08_DEPTH=d`,
//! `C08_DIGEST=1` (one line per violation signature).

use grafeo_engine::Session;
use serde_json::{Value as J, json};
use std::cell::RefCell;
use std::collections::{BTreeMap, BTreeSet, HashMap};
use vcheck::qmodel::*;

unsafe extern "C" {
    fn mallopt(param: i32, value: i32) -> i32;
}

fn main() {
    // The engine allocates and frees multi-hundred-KB chunk buffers per query; with glibc's default
    // thresholds every one of them is an mmap/munmap pair, which serialises 16 worker threads in
    // the kernel.  Keep such blocks on the heap instead (affects speed only).
    unsafe {
        mallopt(-3, 64 << 20); // M_MMAP_THRESHOLD
        mallopt(-1, 512 << 20); // M_TRIM_THRESHOLD
        mallopt(-2, 16 << 20); // M_TOP_PAD
    }
    std::process::exit(run(vcheck::entry()));
}

// ---------------------------------------------------------------------------------------------
// judging one (graph, query, language)
// ---------------------------------------------------------------------------------------------

#[derive(Clone, Debug)]
enum Judged {
    /// the renderer has no spelling
    NoSpelling,
    /// the engine answered `Err` (counted as not expressible)
    EngineErr(String),
    Ok { rows: Vec<Vec<grafeo_common::types::Value>>, tol: Vec<&'static str>, nonempty: bool },
    Bad { kind: &'static str, detail: String, rows: Vec<Vec<grafeo_common::types::Value>> },
}
impl Judged {
    fn kind(&self) -> Option<&'static str> {
        match self {
            Judged::Bad { kind, .. } => Some(kind),
            _ => None,
        }
    }
    fn rows(&self) -> Option<&Vec<Vec<grafeo_common::types::Value>>> {
        match self {
            Judged::Ok { rows, .. } | Judged::Bad { rows, .. } => Some(rows),
            _ => None,
        }
    }
}

/// A graph on which every pattern of the grammar has matches: all labels, properties, and both
/// edge types between every ordered pair of its three nodes (self-loops included).
fn rich_graph() -> QGraph {
    let mut txt = String::from("(0:A{p:1,s:x}) (1:B{p:2}) (2:A:B{p:1,s:x})");
    for a in 0..3 {
        for b in 0..3 {
            txt.push_str(&format!(" {a}-[K{{w:1}}]->{b} {a}-[L{{w:2}}]->{b}"));
        }
    }
    QGraph::parse_pretty(&txt).unwrap()
}

static EXPRESSIBLE: std::sync::Mutex<Option<HashMap<(Lang, String), bool>>> = std::sync::Mutex::new(None);

/// Does the engine answer `text` at all (on the rich reference graph)?  An `Err` on another graph
/// for a text that is answered here cannot mean "the language does not cover this question".
fn expressible(lang: Lang, text: &str) -> bool {
    let key = (lang, text.to_string());
    if let Some(v) = EXPRESSIBLE.lock().unwrap().get_or_insert_with(HashMap::new).get(&key).copied() {
        return v;
    }
    let dbi = cached_db(&rich_graph());
    let s = dbi.0.session();
    let v = matches!(exec_session(&s, lang, text), Exec::Rows(_));
    EXPRESSIBLE.lock().unwrap().get_or_insert_with(HashMap::new).insert(key, v);
    v
}

fn needs_alt(g: &QGraph, q: &Query) -> bool {
    g.edges.iter().any(|e| e.src == e.dst) && q.paths.iter().chain(q.optional.iter()).any(|p| p.hops.iter().any(|h| h.dir == Dir::Both))
}

fn judge_text(g: &QGraph, ids: &IdMap, s: &Session, q: &Query, lang: Lang, text: &str) -> Judged {
    match exec_session(s, lang, text) {
        Exec::Err(e) => {
            if expressible(lang, text) {
                Judged::Bad { kind: "spurious-error", detail: format!("Err although the same text is answered on the reference graph: {}", e.lines().next().unwrap_or("")), rows: vec![] }
            } else {
                Judged::EngineErr(e)
            }
        }
        Exec::Panic(p) => Judged::Bad { kind: "panic", detail: format!("panic: {p}"), rows: vec![] },
        Exec::Rows(rows) => {
            let want = eval(g, ids, q, EvalOpts { loop_twice: true });
            let alt = if needs_alt(g, q) { Some(eval(g, ids, q, EvalOpts { loop_twice: false })) } else { None };
            // Gremlin `values(k)`: TinkerPop skips elements without the property, this engine emits
            // NULL; the statement does not decide, so NULL rows are dropped on both sides.
            let gremlin_values = lang == Lang::Gremlin && q.items.len() == 1 && matches!(q.items[0], Item::Prop(..));
            let strip = |rows: Vec<Vec<grafeo_common::types::Value>>| -> Vec<Vec<grafeo_common::types::Value>> { rows.into_iter().filter(|r| !(r.len() == 1 && r[0].is_null())).collect() };
            let (rows, want, alt, mut extra_tol) = if gremlin_values {
                let had_null = rows.iter().any(|r| r.len() == 1 && r[0].is_null());
                let fix = |mut a: RefAnswer| {
                    let keep: Vec<bool> = a.rows.iter().map(|r| !(r.len() == 1 && r[0].is_null())).collect();
                    if let Some(k) = a.keys.as_mut() {
                        let mut it = keep.iter();
                        k.retain(|_| *it.next().unwrap());
                    }
                    let mut it = keep.iter();
                    a.rows.retain(|_| *it.next().unwrap());
                    a
                };
                (strip(rows), fix(want), alt.map(fix), if had_null { vec!["gremlin-values-null"] } else { vec![] })
            } else {
                (rows, want, alt, vec![])
            };
            match compare(&rows, &want, alt.as_ref()) {
                Verdict::Ok(mut tol) => {
                    tol.append(&mut extra_tol);
                    Judged::Ok { rows, tol, nonempty: want.bindings > 0 }
                }
                Verdict::Bad { kind, detail } => Judged::Bad { kind, detail, rows },
            }
        }
    }
}

fn judge(g: &QGraph, ids: &IdMap, s: &Session, q: &Query, lang: Lang) -> Judged {
    match render(q, lang) {
        None => Judged::NoSpelling,
        Some(text) => judge_text(g, ids, s, q, lang, &text),
    }
}

/// Is there a reportable disagreement between two languages on (g, q)?  Only judged when the
/// reference answer is unique (no window unless the order is total).  A difference where at
/// least one side already deviates from the reference is implied by that deviation (reported
/// there, with its own root cause) and only counted; what remains are two answers that both pass
/// the reference check yet differ from each other (possible through the tolerances).
/// Returns (differ, reportable).
fn disagree(g: &QGraph, ids: &IdMap, q: &Query, a: &Judged, b: &Judged) -> (bool, bool) {
    let (Some(ra), Some(rb)) = (a.rows(), b.rows()) else { return (false, false) };
    if matches!(a.kind(), Some("panic" | "spurious-error")) || matches!(b.kind(), Some("panic" | "spurious-error")) {
        return (false, false);
    }
    let want = eval(g, ids, q, EvalOpts::default());
    let total = want.total_order();
    if want.has_window() && !total {
        return (false, false);
    }
    // Gremlin values(): NULL rows were dropped on that side, drop them on the other side too
    let single_prop = q.items.len() == 1 && matches!(q.items[0], Item::Prop(..));
    let strip = |rows: &Vec<Vec<grafeo_common::types::Value>>| -> Vec<Vec<grafeo_common::types::Value>> { rows.iter().filter(|r| !(single_prop && r.len() == 1 && r[0].is_null())).cloned().collect() };
    if answers_agree(&strip(ra), &strip(rb), total) {
        return (false, false);
    }
    (true, a.kind().is_none() && b.kind().is_none())
}

// ---------------------------------------------------------------------------------------------
// minimisation of a failing case
// ---------------------------------------------------------------------------------------------

/// (graph, lang(s), query text, panic?) -> does the failure reproduce.  Shared by all workers:
/// minimised witnesses are tiny and recur constantly.
static MEMO: std::sync::Mutex<Option<HashMap<(String, String, String, u8), bool>>> = std::sync::Mutex::new(None);

/// A failing case only shrinks to a case of the same class: panic, spurious error, or deviation
/// from the reference (within the last class the kind of the minimal case is what gets reported).
fn class_of(kind: &str) -> u8 {
    match kind {
        "panic" => 0,
        "spurious-error" => 1,
        "language-disagreement" => 3,
        _ => 2,
    }
}

thread_local! {
    /// loaded databases of recently used (minimised) graphs; queries are read-only, so reuse is safe
    static DBS: RefCell<HashMap<String, std::rc::Rc<(grafeo_engine::GrafeoDB, IdMap)>>> = RefCell::new(HashMap::new());
}

fn cached_db(g: &QGraph) -> std::rc::Rc<(grafeo_engine::GrafeoDB, IdMap)> {
    DBS.with(|m| {
        let mut m = m.borrow_mut();
        if m.len() > 256 {
            m.clear();
        }
        m.entry(g.pretty()).or_insert_with(|| std::rc::Rc::new(load(g))).clone()
    })
}

struct Minimiser {
    execs: u64,
}
impl Minimiser {
    /// `fails(g, q)` re-evaluates the failure on a fresh database.
    fn fails(&mut self, g: &QGraph, q: &Query, langs: &[Lang], kind: &'static str) -> bool {
        let Some(text) = render(q, Lang::Gql) else { return false };
        let key = (g.pretty(), langs.iter().map(|l| l.name()).collect::<Vec<_>>().join("+"), text, class_of(kind));
        if let Some(v) = MEMO.lock().unwrap().get_or_insert_with(HashMap::new).get(&key).copied() {
            return v;
        }
        let dbi = cached_db(g);
        let (db, ids) = (&dbi.0, dbi.1.clone());
        let s = db.session();
        self.execs += 1;
        let v = if langs.len() == 1 {
            // any deviation keeps the case alive (the kind of the minimal case is reported), but a
            // panic only shrinks to a panic and vice versa
            match judge(g, &ids, &s, q, langs[0]).kind() {
                Some(k) => class_of(k) == class_of(kind),
                None => false,
            }
        } else {
            let a = judge(g, &ids, &s, q, langs[0]);
            let b = judge(g, &ids, &s, q, langs[1]);
            disagree(g, &ids, q, &a, &b).1
        };
        {
            let mut m = MEMO.lock().unwrap();
            let m = m.get_or_insert_with(HashMap::new);
            if m.len() > 600_000 {
                m.clear();
            }
            m.insert(key, v);
        }
        v
    }
    fn minimise(&mut self, g: &QGraph, q: &Query, langs: &[Lang], kind: &'static str) -> (QGraph, Query) {
        let (mut g, mut q) = (g.clone(), q.clone());
        loop {
            let mut progress = false;
            'q: loop {
                for q2 in q.shrinks() {
                    if self.fails(&g, &q2, langs, kind) {
                        q = q2;
                        progress = true;
                        continue 'q;
                    }
                }
                break;
            }
            'g: loop {
                for g2 in g.shrinks() {
                    if self.fails(&g2, &q, langs, kind) {
                        g = g2;
                        progress = true;
                        continue 'g;
                    }
                }
                break;
            }
            if !progress {
                return (g, q);
            }
        }
    }
}

fn signature(langs: &str, kind: &str, g: &QGraph, q: &Query) -> Vec<(String, String)> {
    let mut sig: Vec<(String, String)> = vec![("lang".into(), langs.into()), ("kind".into(), kind.into())];
    for (k, v) in q.features() {
        sig.push((k.to_string(), v));
    }
    let gf: BTreeSet<&str> = g.features();
    // query-relative witness feature: a property the query reads is absent on some element
    let evars = q.edge_vars();
    let mut missing = false;
    for (v, k) in q.props_read() {
        missing |= if evars.contains(&v) { g.edges.iter().any(|e| !e.props.contains_key(&k)) } else { g.nodes.iter().any(|n| !n.props.contains_key(&k)) };
    }
    sig.push(("missing_property".into(), if missing { "yes" } else { "no" }.into()));
    let gf: Vec<&str> = gf.into_iter().collect();
    sig.push(("graph".into(), if gf.is_empty() { "plain".into() } else { gf.join("+") }));
    sig
}

// ---------------------------------------------------------------------------------------------
// one shard = one graph
// ---------------------------------------------------------------------------------------------

const CASES_PER_SIG: usize = 20;

#[derive(Default)]
struct Shard {
    evaluations: u64,
    counts: BTreeMap<String, u64>,
    /// bitmap over (query index * 4 + language index)
    nontrivial: Vec<u64>,
    /// signature string -> (occurrences, simplest cases as ((graph index, query index), violation))
    viols: BTreeMap<String, (u64, Vec<((usize, usize), vcore::Violation)>)>,
    /// position of the case being judged in the enumeration (graph index, query index)
    at: (usize, usize),
    errs: BTreeMap<String, u64>,
    samples: Vec<J>,
}
impl Shard {
    fn add(&mut self, k: &str, n: u64) {
        *self.counts.entry(k.to_string()).or_insert(0) += n;
    }
    fn violation(&mut self, sig: Vec<(String, String)>, case: J, detail: String) {
        let fields: Vec<(&str, &str)> = sig.iter().map(|(k, v)| (k.as_str(), v.as_str())).collect();
        let v = vcore::Violation::new(&fields, case, detail);
        let e = self.viols.entry(v.sig_string()).or_insert((0, vec![]));
        e.0 += 1;
        // a shard (one graph) keeps its first case per signature; the merge keeps the
        // CASES_PER_SIG cases that come first in (graph, query) enumeration order
        if e.1.is_empty() {
            e.1.push((self.at, v));
        }
    }
    fn mark_nontrivial(&mut self, bit: usize) {
        if self.nontrivial.len() <= bit / 64 {
            self.nontrivial.resize(bit / 64 + 1, 0);
        }
        self.nontrivial[bit / 64] |= 1 << (bit % 64);
    }
    fn merge(&mut self, o: Shard) {
        self.evaluations += o.evaluations;
        for (k, n) in o.counts {
            *self.counts.entry(k).or_insert(0) += n;
        }
        if self.nontrivial.len() < o.nontrivial.len() {
            self.nontrivial.resize(o.nontrivial.len(), 0);
        }
        for (i, w) in o.nontrivial.iter().enumerate() {
            self.nontrivial[i] |= w;
        }
        for (k, (n, cases)) in o.viols {
            let e = self.viols.entry(k).or_insert((0, vec![]));
            e.0 += n;
            e.1.extend(cases);
            e.1.sort_by_key(|c| c.0);
            e.1.truncate(CASES_PER_SIG);
        }
        for (k, n) in o.errs {
            *self.errs.entry(k).or_insert(0) += n;
        }
        for s in o.samples {
            if self.samples.len() < 8 {
                self.samples.push(s);
            }
        }
    }
}

fn err_class(lang: Lang, e: &str) -> String {
    let first = e.lines().next().unwrap_or("");
    // drop the variable tail of messages so that classes stay few
    let cut = first.find(" '").or_else(|| first.find(": Id(")).or_else(|| first.find(": Var")).unwrap_or(first.len());
    format!("{}: {}", lang.name(), vcore::truncate(&first[..cut], 90))
}

struct Plan {
    queries: Vec<Query>,
    /// texts[query][lang]
    texts: Vec<[Option<String>; 4]>,
}

fn case_json(g: &QGraph, q: &Query, langs: &[Lang], kind: &str) -> J {
    json!({
        "graph": g.to_json(),
        "graph_pretty": g.pretty(),
        "query": q.to_json(),
        "langs": langs.iter().map(|l| l.name()).collect::<Vec<_>>(),
        "texts": langs.iter().map(|l| render(q, *l)).collect::<Vec<_>>(),
        "kind": kind,
    })
}

fn run_graph(gi: usize, g: &QGraph, plan: &Plan, nqueries: usize) -> Shard {
    let mut sh = Shard::default();
    let (db, ids) = load(g);
    let s = db.session();
    let mut mini = Minimiser { execs: 0 };
    for (qi, q) in plan.queries.iter().enumerate().take(nqueries) {
        sh.at = (gi, qi);
        let mut judged: Vec<(Lang, Judged)> = vec![];
        for (li, lang) in Lang::ALL.into_iter().enumerate() {
            let Some(text) = &plan.texts[qi][li] else { continue };
            let j = judge_text(g, &ids, &s, q, lang, text);
            sh.evaluations += 1;
            sh.add(&format!("{}.executed", lang.name()), 1);
            match &j {
                Judged::NoSpelling => {}
                Judged::EngineErr(e) => {
                    sh.add(&format!("{}.not_expressible_err", lang.name()), 1);
                    *sh.errs.entry(err_class(lang, e)).or_insert(0) += 1;
                }
                Judged::Ok { tol, nonempty, rows } => {
                    sh.add(&format!("{}.agree", lang.name()), 1);
                    for t in tol {
                        sh.add(&format!("tolerated.{t}"), 1);
                    }
                    if *nonempty {
                        sh.add("nontrivial_evaluations", 1);
                        sh.mark_nontrivial(qi * 4 + li);
                        if sh.samples.is_empty() && gi % 97 == 5 && qi % 89 == 7 {
                            sh.samples.push(json!({"graph": g.pretty(), "lang": lang.name(), "query": text, "rows": format!("{rows:?}")}));
                        }
                    }
                }
                Judged::Bad { kind, detail, .. } => {
                    sh.add(&format!("{}.deviate", lang.name()), 1);
                    let (mg, mq) = mini.minimise(g, q, &[lang], kind);
                    let (mkind, mdetail) = if mg == *g && mq == *q {
                        (*kind, detail.clone())
                    } else {
                        let dbi = cached_db(&mg);
                        let s2 = dbi.0.session();
                        match judge(&mg, &dbi.1, &s2, &mq, lang) {
                            Judged::Bad { kind, detail, .. } => (kind, detail),
                            _ => (*kind, detail.clone()),
                        }
                    };
                    let kind = &mkind;
                    let sig = signature(lang.name(), kind, &mg, &mq);
                    let mut case = case_json(&mg, &mq, &[lang], kind);
                    case["original"] = json!({"graph": g.pretty(), "query": text, "kind": kind, "detail": vcore::truncate(detail, 400)});
                    sh.violation(sig, case, format!("{} on {} :: {} :: {}", lang.name(), mg.pretty(), render(&mq, lang).unwrap_or_default(), mdetail));
                }
            }
            judged.push((lang, j));
        }
        // cross-language agreement
        for a in 0..judged.len() {
            for b in a + 1..judged.len() {
                if judged[a].1.rows().is_some() && judged[b].1.rows().is_some() {
                    sh.add("language_pairs_compared", 1);
                    let (differ, reportable) = disagree(g, &ids, q, &judged[a].1, &judged[b].1);
                    if differ && !reportable {
                        sh.add("language_differences_implied_by_a_reference_deviation", 1);
                    }
                    if reportable {
                        let langs = [judged[a].0, judged[b].0];
                        let (mg, mq) = mini.minimise(g, q, &langs, "language-disagreement");
                        let name = format!("{}+{}", langs[0].name(), langs[1].name());
                        let sig = signature(&name, "language-disagreement", &mg, &mq);
                        let case = case_json(&mg, &mq, &langs, "language-disagreement");
                        let dbi = cached_db(&mg);
                        let s2 = dbi.0.session();
                        let ra = judge(&mg, &dbi.1, &s2, &mq, langs[0]);
                        let rb = judge(&mg, &dbi.1, &s2, &mq, langs[1]);
                        sh.violation(sig, case, format!("{name} on {} :: {:?} -> {:?} / {:?} -> {:?}", mg.pretty(), render(&mq, langs[0]), ra.rows(), render(&mq, langs[1]), rb.rows()));
                    }
                }
            }
        }
    }
    let _ = mini.execs; // (depends on memo races between workers: not reported)
    sh
}

// ---------------------------------------------------------------------------------------------

fn nk(labels: &[&'static str], p: Option<i64>, s: Option<&'static str>) -> NodeKind {
    NodeKind { labels: labels.to_vec(), p, s }
}
fn ek(etype: &'static str, w: Option<i64>) -> EdgeKind {
    EdgeKind { etype, w }
}

/// The layers of a tier: (graph space, query depth). A graph that belongs to several layers is
/// run once, with the largest depth.
fn layers(tier: vcore::Tier) -> Vec<(GraphSpace, u32)> {
    let kinds4 = vec![nk(&[], None, None), nk(&["A"], Some(1), None), nk(&["A"], Some(2), Some("x")), nk(&["B"], Some(1), None)];
    let mut kinds5 = kinds4.clone();
    kinds5.push(nk(&["A", "B"], Some(2), None));
    let e3 = vec![ek("K", None), ek("L", None), ek("K", Some(1))];
    let kinds3 = vec![nk(&["A"], Some(1), None), nk(&["A"], Some(2), Some("x")), nk(&["B"], Some(1), None)];
    let kinds2 = vec![nk(&["A"], Some(1), None), nk(&["B"], Some(2), None)];
    let e2w = vec![ek("K", None), ek("K", Some(1))];
    match tier {
        vcore::Tier::Quick => vec![
            (GraphSpace { max_nodes: 2, max_edges: 2, node_kinds: kinds5, edge_kinds: e3 }, 2),
            (GraphSpace { max_nodes: 2, max_edges: 2, node_kinds: kinds3, edge_kinds: e2w }, 3),
        ],
        vcore::Tier::Thorough => vec![
            (GraphSpace { max_nodes: 2, max_edges: 2, node_kinds: GraphSpace::core_node_kinds(), edge_kinds: e3 }, 3),
            (GraphSpace { max_nodes: 3, max_edges: 3, node_kinds: kinds4, edge_kinds: GraphSpace::plain_edge_kinds() }, 2),
            (GraphSpace { max_nodes: 2, max_edges: 1, node_kinds: GraphSpace::full_node_kinds(), edge_kinds: GraphSpace::full_edge_kinds() }, 2),
            (GraphSpace { max_nodes: 3, max_edges: 2, node_kinds: kinds2, edge_kinds: GraphSpace::plain_edge_kinds() }, 3),
        ],
    }
}

fn replay(case: &J) -> i32 {
    let (Some(g), Some(q)) = (QGraph::from_json(&case["graph"]), Query::from_json(&case["query"])) else { vcore::machinery_failure("replay case lacks graph / query") };
    let langs: Vec<Lang> = case["langs"].as_array().map(|a| a.iter().filter_map(|x| x.as_str().and_then(Lang::from_name)).collect()).unwrap_or_default();
    let once = || -> Vec<vcore::Violation> {
        let (db, ids) = load(&g);
        let s = db.session();
        let mut out = vec![];
        let js: Vec<Judged> = langs.iter().map(|l| judge(&g, &ids, &s, &q, *l)).collect();
        for (l, j) in langs.iter().zip(&js) {
            println!("  {} :: {} -> {}", l.name(), render(&q, *l).unwrap_or_default(), match j {
                Judged::Ok { rows, .. } => format!("agrees with the reference: {rows:?}"),
                Judged::Bad { kind, detail, .. } => format!("{kind}: {detail}"),
                Judged::EngineErr(e) => format!("Err: {e}"),
                Judged::NoSpelling => "no spelling".into(),
            });
        }
        if langs.len() == 1 {
            if let Judged::Bad { kind, detail, .. } = &js[0] {
                let sig = signature(langs[0].name(), kind, &g, &q);
                let f: Vec<(&str, &str)> = sig.iter().map(|(k, v)| (k.as_str(), v.as_str())).collect();
                out.push(vcore::Violation::new(&f, case.clone(), detail.clone()));
            }
        } else if langs.len() == 2 && disagree(&g, &ids, &q, &js[0], &js[1]).1 {
            let sig = signature(&format!("{}+{}", langs[0].name(), langs[1].name()), "language-disagreement", &g, &q);
            let f: Vec<(&str, &str)> = sig.iter().map(|(k, v)| (k.as_str(), v.as_str())).collect();
            out.push(vcore::Violation::new(&f, case.clone(), format!("{:?} vs {:?}", js[0].rows(), js[1].rows())));
        }
        out
    };
    println!("graph: {}", g.pretty());
    let v1 = once();
    let v2 = once();
    if v1.iter().map(|v| v.sig_string()).collect::<Vec<_>>() != v2.iter().map(|v| v.sig_string()).collect::<Vec<_>>() {
        vcore::machinery_failure("replaying the same case twice gave different verdicts");
    }
    vcheck::replay_report("C08", v1)
}

fn probe() -> i32 {
    use std::io::BufRead;
    let default = "(0:A{p:1,s:x}) (1:B{p:2}) (2) (3:A:B{p:1}) 0-[K{w:1}]->1 1-[K{w:2}]->0 0-[L]->0 0-[L]->1 2-[K]->3";
    let mut g = QGraph::parse_pretty(default).unwrap();
    let (mut db, _) = load(&g);
    println!("graph: {}", g.pretty());
    for line in std::io::stdin().lock().lines() {
        let line = line.unwrap();
        let line = line.trim();
        if line.is_empty() || line.starts_with('#') {
            continue;
        }
        let Some((lang, q)) = line.split_once('|') else { continue };
        if lang.trim() == "graph" {
            match QGraph::parse_pretty(q) {
                Some(g2) => {
                    g = g2;
                    db = load(&g).0;
                    println!("graph: {}", g.pretty());
                }
                None => println!("cannot parse graph"),
            }
            continue;
        }
        let lang = match lang.trim() {
            "gql" => Lang::Gql,
            "cy" => Lang::Cypher,
            "gr" => Lang::Gremlin,
            _ => Lang::GraphQL,
        };
        let s = db.session();
        match exec_session(&s, lang, q.trim()) {
            Exec::Rows(r) => println!("{}| {}\n    rows={r:?}", lang.name(), q.trim()),
            Exec::Err(e) => println!("{}| {}\n    ERR {}", lang.name(), q.trim(), e.lines().next().unwrap_or("")),
            Exec::Panic(p) => println!("{}| {}\n    PANIC {p}", lang.name(), q.trim()),
        }
    }
    0
}

fn run(args: vcore::Args) -> i32 {
    if args.rest.iter().any(|a| a == "--probe") {
        return probe();
    }
    if let Some(i) = args.rest.iter().position(|a| a == "--plan") {
        // prints the logical plan of a GQL text before and after the optimizer (triage aid)
        let text = args.rest.get(i + 1).cloned().unwrap_or_default();
        let g = args.rest.get(i + 2).and_then(|t| QGraph::parse_pretty(t)).unwrap_or_default();
        let (db, _) = load(&g);
        match grafeo_engine::query::gql_translator::translate(&text) {
            Ok(plan) => {
                println!("TRANSLATED:\n{:#?}", plan.root);
                let opt = grafeo_engine::query::optimizer::Optimizer::from_store(db.store());
                match opt.optimize(plan) {
                    Ok(p) => println!("OPTIMIZED:\n{:#?}", p.root),
                    Err(e) => println!("optimize: {e}"),
                }
            }
            Err(e) => println!("translate: {e}"),
        }
        return 0;
    }
    if let Some(i) = args.rest.iter().position(|a| a == "--list") {
        let d: u32 = args.rest.get(i + 1).and_then(|s| s.parse().ok()).unwrap_or(2);
        for (w, q) in all_queries_weighted(d) {
            println!("{w}\t{}\t| {}\t| {}", render_gql_like(&q), render(&q, Lang::Gremlin).unwrap_or_else(|| "-".into()), render(&q, Lang::GraphQL).unwrap_or_else(|| "-".into()));
        }
        return 0;
    }
    if let Some(p) = args.replay.as_deref() {
        return replay(&vcore::read_replay_case(p));
    }
    let mut rep = vcore::Report::new("C08", args.tier, "exploration");
    rep.rule = "every graph of the stated graph spaces (one per isomorphism class) x every query of the core grammar up to the stated depth x every front end (GQL, Cypher, Gremlin, GraphQL) that spells it; engine rows compared with the all-bindings reference evaluator (multiset; positional key check under ORDER BY; size + sub-multiset under an unordered window) and between languages; a (query, language) pair is distinct non-trivial when on some graph the reference answer is non-empty and the engine agreed".into();
    let depth_override: Option<u32> = std::env::var("C08_DEPTH").ok().and_then(|s| s.parse().ok());
    let mut graphs: Vec<QGraph> = vec![];
    let mut gdepth: Vec<u32> = vec![];
    let mut index: BTreeMap<String, usize> = BTreeMap::new();
    let mut labelled_total = 0u64;
    let mut space_json = vec![];
    for (sp, d) in layers(args.tier) {
        let d = depth_override.unwrap_or(d);
        let (gs, labelled) = sp.enumerate();
        labelled_total += labelled;
        let classes = gs.len();
        let mut fresh = 0;
        for g in gs {
            match index.get(&g.canonical_key()) {
                Some(&i) => gdepth[i] = gdepth[i].max(d),
                None => {
                    index.insert(g.canonical_key(), graphs.len());
                    graphs.push(g);
                    gdepth.push(d);
                    fresh += 1;
                }
            }
        }
        let mut j = sp.to_json();
        j["query_depth"] = json!(d);
        j["labelled_graphs"] = json!(labelled);
        j["isomorphism_classes"] = json!(classes);
        j["isomorphism_classes_not_in_earlier_layers"] = json!(fresh);
        space_json.push(j);
    }
    if let Some(n) = std::env::var("C08_MAX_GRAPHS").ok().and_then(|s| s.parse::<usize>().ok()) {
        graphs.truncate(n);
        rep.exhaustive = false;
    }
    let depth = gdepth.iter().copied().max().unwrap_or(0);
    let weighted = all_queries_weighted(depth);
    // queries are sorted by weight: a graph of depth d runs the prefix of weight <= d
    let prefix: Vec<usize> = (0..=depth).map(|d| weighted.iter().take_while(|(w, _)| *w <= d).count()).collect();
    let queries: Vec<Query> = weighted.into_iter().map(|(_, q)| q).collect();
    let texts: Vec<[Option<String>; 4]> = queries.iter().map(|q| [render(q, Lang::Gql), render(q, Lang::Cypher), render(q, Lang::Gremlin), render(q, Lang::GraphQL)]).collect();
    let mut per_lang = [0u64; 4];
    for t in &texts {
        for (i, x) in t.iter().enumerate() {
            per_lang[i] += x.is_some() as u64;
        }
    }
    let plan = Plan { queries, texts };
    // heaviest graphs first so that the parallel map ends evenly (results stay in input order)
    let mut order: Vec<usize> = (0..graphs.len()).collect();
    order.sort_by_key(|&i| std::cmp::Reverse((gdepth[i], graphs[i].nodes.len() + graphs[i].edges.len())));
    // processed in bounded batches so that memory does not grow with the number of graphs; the merge
    // is order-independent (counters add up, kept cases are the first in enumeration order)
    let mut all = Shard::default();
    for batch in order.chunks(2048) {
        for sh in vcore::par_map(batch, vcore::cores(), |_, &gi| run_graph(gi, &graphs[gi], &plan, prefix[gdepth[gi] as usize])) {
            all.merge(sh);
        }
    }
    rep.evaluations = all.evaluations;
    for (i, w) in all.nontrivial.iter().enumerate() {
        for b in 0..64 {
            if w & (1 << b) != 0 {
                rep.nontrivial_hash(vcore::hash_of(&(i * 64 + b)));
            }
        }
    }
    rep.sample(json!({"graph_first": graphs.first().map(|g| g.pretty()), "graph_last": graphs.last().map(|g| g.pretty()), "query_first": plan.queries.first().map(render_gql_like), "query_last": plan.queries.last().map(render_gql_like)}));
    for s in all.samples {
        rep.sample(s);
    }
    rep.set("bounds", json!({
        "layers": space_json, "graphs": graphs.len(), "labelled_graphs": labelled_total,
        "max_query_depth": depth, "queries_by_depth": prefix, "queries": plan.queries.len(),
        "queries_spelled": {"gql": per_lang[0], "cypher": per_lang[1], "gremlin": per_lang[2], "graphql": per_lang[3]},
        "cases_kept_per_signature": CASES_PER_SIG,
    }));
    for (k, n) in &all.counts {
        rep.set(k, json!(n));
    }
    let mut errs: Vec<(&String, &u64)> = all.errs.iter().collect();
    errs.sort_by(|a, b| b.1.cmp(a.1));
    rep.set("engine_err_classes", json!(errs.iter().take(25).map(|(k, n)| json!({"class": k, "n": n})).collect::<Vec<_>>()));
    rep.set("violation_signatures", json!(all.viols.len()));
    rep.set("violation_occurrences", json!(all.viols.iter().map(|(k, v)| (k.clone(), json!(v.0))).collect::<serde_json::Map<_, _>>()));
    if std::env::var("C08_DIGEST").is_ok() {
        for (k, (n, cases)) in &all.viols {
            let short: Vec<&str> = k.split(',').filter(|f| !(f.ends_with("=no") || f.ends_with("=none"))).collect();
            println!("DIGEST n={n} [{}] :: {}", short.join(","), vcore::truncate(&cases[0].1.detail, 330));
        }
    }
    for (_, (_, cases)) in all.viols {
        for (_, c) in cases {
            rep.violation(c);
        }
    }
    rep.assumptions.push("graph data is created through the non-transactional GrafeoDB::create_node_with_props / create_edge_with_props API before any session exists; one session per database answers all queries".into());
    rep.assumptions.push("tolerated under-determinations (counted under tolerated.*): undirected hop over a self-loop once or twice; NULL sort keys first or last; sum over nothing 0 or NULL; Gremlin values() NULL rows dropped; Err from a front end = not expressible".into());
    rep.finish()
}
