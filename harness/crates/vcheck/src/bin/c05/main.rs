//! C05 — a persistent database reopens to exactly the state it was closed with
//! (engine SEQ on a real directory, DESIGN.md §3/C05).
//!
//! Layers:
//!   database : every history (bounded depth, <= 2 reopen events, last event a reopen) over the
//!              mutating API + one mutating statement per language + session transactions +
//!              wal_checkpoint(), on a real persistent `GrafeoDB`, under every durability mode.
//!              Model-free oracle: dump after open == dump taken just before close; identifiers
//!              handed out after a reopen were never handed out before.
//!   values   : one value of every `Value` variant (and the awkward members) through node and
//!              edge properties, in six history templates.
//!   rotation : a log that exceeds the hard-wired 64 MiB `max_log_size` (one huge property).
//!   wal-seam : `WalManager` record histories with `max_log_size` in {1 B, one record, two
//!              records, default}, checkpoint()/rotate()/reopen anywhere, clean shutdown;
//!              `WalRecovery::recover` == what the recovery documentation promises.

#[path = "../c06/shared.rs"]
mod shared;

use serde_json::{Value as J, json};
use shared::seam::{self, SDur, SOp, Sem};
use shared::*;
use std::collections::{BTreeMap, BTreeSet};
use std::path::{Path, PathBuf};
use vcore::{Report, Tier, Violation};

#[global_allocator]
static GLOBAL: seam::allocprobe::Counting = seam::allocprobe::Counting;

fn main() {
    std::process::exit(run(vcheck::entry()));
}

/// Histories run on a memory-backed file system when there is one: an fsync on the scratch disk costs
/// ~2.5 ms and is serialised by the journal (400 histories/s for the whole machine). A sample of the
/// histories is also run on the real scratch directory.
fn fast_base(tag: &str) -> PathBuf {
    let shm = PathBuf::from("/dev/shm");
    if std::env::var("VERIF_NO_SHM").is_err() && shm.is_dir() {
        // leftovers of killed runs (their process no longer exists)
        if let Ok(rd) = std::fs::read_dir(&shm) {
            for ent in rd.flatten() {
                let name = ent.file_name().to_string_lossy().into_owned();
                if let Some(pid) = name.strip_prefix(&format!("verif-{tag}-"))
                    && !std::path::Path::new(&format!("/proc/{pid}")).exists()
                {
                    let _ = std::fs::remove_dir_all(ent.path());
                }
            }
        }
        let p = shm.join(format!("verif-{}-{}", tag, std::process::id()));
        let _ = std::fs::remove_dir_all(&p);
        if std::fs::create_dir_all(&p).is_ok() {
            return p;
        }
    }
    vcore::scratch_dir(&format!("{tag}-fast"))
}

// ---------------------------------------------------------------------------
// database layer
// ---------------------------------------------------------------------------

/// Classes whose effect the pinned tree never writes to the log (used only to name a mechanism).
fn attribution(class: &str, later_checkpoint: bool) -> String {
    let unlogged = class.starts_with("query-mutation") || class.starts_with("session-") || class.starts_with("remove-node-property") || class.starts_with("remove-edge-property");
    if unlogged {
        class.to_string()
    } else if later_checkpoint {
        "before-checkpoint".to_string()
    } else {
        format!("logged-op:{class}")
    }
}

struct HistOutcome {
    violations: Vec<Violation>,
    ops_executed: u64,
    reopens: u64,
    ill_formed: bool,
    dumps: Vec<u64>,
    effective: Vec<(&'static str, bool)>,
}

/// Runs one history on a fresh directory and evaluates the oracle at every reopen.
fn run_history(dir: &Path, mode: Mode, ops: &[Op], layer: &str, extra_sig: &[(&str, &str)]) -> HistOutcome {
    let mut out = HistOutcome { violations: vec![], ops_executed: 0, reopens: 0, ill_formed: false, dumps: vec![], effective: vec![] };
    let _ = std::fs::remove_dir_all(dir);
    let mut db = match vcore::catch(|| open_db(dir, mode)) {
        Ok(Ok(d)) => Some(d),
        other => vcore::machinery_failure(&format!("cannot create a fresh database: {:?}", other.err())),
    };
    let mut slots = Slots::default();
    // dump after each op (index i = after op i), and the first op that handed out each id
    let mut dumps: Vec<Dump> = vec![];
    let mut first_owner_n: BTreeMap<u64, usize> = BTreeMap::new();
    let mut first_owner_e: BTreeMap<u64, usize> = BTreeMap::new();
    let mut life_start = 0usize; // index of the first op of the current life
    let mut dump_checks = true;
    let mut prev = Dump::of(db.as_ref().unwrap());
    let case = |upto: usize| json!({"layer": layer, "mode": mode.name(), "history": hist_text(&ops[..=upto])});
    let mk = |fields: Vec<(&str, String)>, upto: usize, detail: String| {
        let mut f: Vec<(&str, &str)> = vec![("layer", "database"), ("mode", mode.name())];
        for (k, v) in &fields {
            f.push((k, v.as_str()));
        }
        for (k, v) in extra_sig {
            f.push((k, v));
        }
        Violation::new(&f, case(upto), detail)
    };
    for (i, op) in ops.iter().enumerate() {
        out.ops_executed += 1;
        if op.is_reopen() {
            out.reopens += 1;
            let d = db.take().unwrap();
            let before = prev.clone();
            // is the pre-close dump itself trustworthy?  After statements ran in this life, compare the node count of the
            // dump path (iter_nodes) with the statement path (MATCH): if they disagree the in-memory state is already
            // inconsistent (another property's subject) and an otherwise unexplained difference is named after that.
            let stmt_in_life = ops[life_start..i].iter().any(|o| matches!(o, Op::Query(_) | Op::TxCommit | Op::TxRollback | Op::SessionCreateNode));
            let paths_disagree = stmt_in_life && d.session().execute("MATCH (n) RETURN n").map(|r| r.rows.len()).ok() != Some(before.node_ids().len());
            let closed = if matches!(op, Op::CloseOpen) { vcore::catch(|| d.close().map_err(|e| e.to_string())) } else { Ok(Ok(())) };
            let dropped = vcore::catch(move || drop(d));
            if let Err(p) = &dropped {
                out.violations.push(mk(vec![("kind", "panic".into()), ("op-kind", op.class().into())], i, format!("dropping the database panicked: {p}")));
                return out;
            }
            match closed {
                Err(p) => {
                    out.violations.push(mk(vec![("kind", "panic".into()), ("op-kind", "close".into())], i, format!("close() panicked: {p}")));
                    return out;
                }
                Ok(Err(e)) => {
                    out.violations.push(mk(vec![("kind", "close-fails".into())], i, format!("close() returned Err: {e}")));
                    return out;
                }
                Ok(Ok(())) => {}
            }
            let reopened = watchdog::guard(|| case(i).to_string(), || vcore::catch(|| open_db(dir, mode)));
            let d2 = match reopened {
                Err(p) => {
                    out.violations.push(mk(vec![("kind", "panic".into()), ("op-kind", "open".into())], i, format!("open() after a clean close panicked: {p}")));
                    return out;
                }
                Ok(Err(e)) => {
                    out.violations.push(mk(vec![("kind", "open-fails".into())], i, format!("open() after a clean close returned Err: {e}")));
                    return out;
                }
                Ok(Ok(d2)) => d2,
            };
            let after = Dump::of(&d2);
            if std::env::var("C05_TRACE").is_ok() {
                eprintln!("  after {:<28} dump: {}", op.text(), after.brief());
            }
            if dump_checks && after != before {
                // name the mechanism: for every differing fact, the last operation of this life that changed it
                let mut kinds: BTreeMap<(String, &'static str, String), Vec<String>> = BTreeMap::new();
                let lost = before.missing_in(&after);
                let extra = after.missing_in(&before);
                let toucher = |f: &str| -> Option<usize> {
                    (0..i).rev().find(|j| {
                        let was = if *j == 0 { false } else { dumps[*j - 1].facts.contains(f) };
                        dumps[*j].facts.contains(f) != was
                    })
                };
                for (f, effect) in lost.iter().map(|f| (f, "lost")).chain(extra.iter().map(|f| (f, "resurrected"))) {
                    let owner_fact = if f.starts_with("t|") {
                        None
                    } else {
                        let pre = owner_fact_prefix(&fact_owner(f));
                        let src = if effect == "lost" { &lost } else { &extra };
                        src.iter().find(|g| (g.as_str() == pre || (pre.ends_with('|') && g.starts_with(&pre))) && g.as_str() != f.as_str()).cloned()
                    };
                    let blamed = owner_fact.as_deref().and_then(|o| toucher(o)).or_else(|| toucher(f));
                    let (opk, value) = match blamed {
                        Some(j) if j >= life_start => {
                            let later_cp = ops[j + 1..i].iter().any(|o| matches!(o, Op::Checkpoint));
                            let value = match &ops[j] {
                                Op::SetNodeProp(_, v) | Op::SetEdgeProp(_, v) => val_name(*v).to_string(),
                                _ => "none".to_string(),
                            };
                            let a = attribution(ops[j].class(), later_cp);
                            (if a.starts_with("logged-op:") && paths_disagree { "in-memory-access-paths-disagree".to_string() } else { a }, value)
                        }
                        Some(_) => ("earlier-life".to_string(), "none".to_string()),
                        None => ("unexplained".to_string(), "none".to_string()),
                    };
                    kinds.entry((opk, effect, value)).or_default().push(f.clone());
                }
                for ((opk, effect, value), facts) in kinds {
                    let mut fields = vec![("kind", "lost-after-reopen".to_string()), ("op-kind", opk.clone()), ("effect", effect.to_string())];
                    if opk.starts_with("logged-op:set-") {
                        fields.push(("value", value));
                    }
                    out.violations.push(mk(
                        fields,
                        i,
                        format!("dump after {} differs from the dump before it ({effect}, attributed to {opk}): {}", op.text(), vcore::truncate(&format!("{facts:?}"), 300)),
                    ));
                }
                dump_checks = false; // later comparisons would only repeat the consequence; the id oracle stays on
            }
            db = Some(d2);
            prev = after.clone();
            dumps.push(after);
            life_start = i + 1;
            continue;
        }
        let o = apply_op(db.as_ref().unwrap(), &mut slots, op);
        if o.err.as_deref() == Some("slot missing") {
            out.ill_formed = true;
            return out;
        }
        for id in &o.new_nodes {
            first_owner_n.entry(*id).or_insert(i);
        }
        for id in &o.new_edges {
            first_owner_e.entry(*id).or_insert(i);
        }
        for (ids, owners, entity) in [(&o.reused_nodes, &first_owner_n, "node"), (&o.reused_edges, &first_owner_e, "edge")] {
            for id in ids {
                let j = owners.get(id).copied().unwrap_or(0);
                let later_cp = ops[j + 1..i].iter().any(|o| matches!(o, Op::Checkpoint));
                out.violations.push(mk(
                    vec![("kind", "id-reuse".into()), ("entity", entity.into()), ("op-kind", attribution(ops[j].class(), later_cp))],
                    i,
                    format!("{} returned {entity} id {id}, which {} had already handed out before the reopen", op.text(), ops[j].text()),
                ));
            }
        }
        let d = Dump::of(db.as_ref().unwrap());
        if std::env::var("C05_TRACE").is_ok() {
            eprintln!("  after {:<28} err={:?} new={:?}/{:?} dump: {}", op.text(), o.err, o.new_nodes, o.new_edges, d.brief());
        }
        out.effective.push((op.class(), d != prev));
        out.dumps.push(vcore::hash_of(&d));
        prev = d.clone();
        dumps.push(d);
    }
    drop(db);
    out
}

fn alphabet(tier: Tier, deep: bool) -> Vec<Op> {
    if deep {
        // reduced alphabet for the deepest level: the logged core + one unlogged representative each
        return vec![
            Op::CreateNode(1),
            Op::CreateNodeProps,
            Op::SetNodeProp(0, 1),
            Op::RemoveNodeProp(0),
            Op::RemoveLabel(0),
            Op::CreateEdgeProps(0, 0),
            Op::DeleteNode(0),
            Op::Query(0),
            Op::Checkpoint,
            Op::CloseOpen,
        ];
    }
    let mut a = vec![
        Op::CreateNode(1),
        Op::CreateNode(2),
        Op::CreateNodeProps,
        Op::DeleteNode(0),
        Op::SetNodeProp(0, 0),
        Op::SetNodeProp(0, 1),
        Op::RemoveNodeProp(0),
        Op::AddLabel(0),
        Op::RemoveLabel(0),
        Op::CreateEdge(0, 0),
        Op::CreateEdgeProps(0, 0),
        Op::DeleteEdge(0),
        Op::SetEdgeProp(0, 0),
        Op::RemoveEdgeProp(0),
        Op::BatchCreate(2),
        Op::Query(0),
        Op::Query(1),
        Op::Query(2),
        Op::Query(3),
        Op::Query(4),
        Op::Query(5),
        Op::Query(6),
        Op::Query(7),
        Op::TxCommit,
        Op::TxRollback,
        Op::SessionCreateNode,
        Op::Checkpoint,
        Op::CloseOpen,
        Op::DropOpen,
    ];
    if tier == Tier::Thorough {
        a.extend([Op::CreateNode(0), Op::CreateEdge(0, 1), Op::DeleteNode(1), Op::SetNodeProp(1, 12)]);
    }
    a
}

/// All well-formed histories of length 2..=depth over `alpha` that end with a reopen and contain at most two.
fn histories(alpha: &[Op], depth: usize) -> Vec<Vec<Op>> {
    let mut out = vec![];
    fn rec(alpha: &[Op], depth: usize, cur: &mut Vec<Op>, reopens: usize, out: &mut Vec<Vec<Op>>) {
        if cur.len() >= 2 && cur.last().map(|o| o.is_reopen()).unwrap_or(false) {
            out.push(cur.clone());
        }
        if cur.len() == depth {
            return;
        }
        for op in alpha {
            let r = reopens + op.is_reopen() as usize;
            if r > 2 {
                continue;
            }
            // a reopen directly after a reopen or at the very start explores nothing new
            if op.is_reopen() && cur.last().map(|o| o.is_reopen()).unwrap_or(true) {
                continue;
            }
            // the remaining budget must allow a final reopen
            if !op.is_reopen() && cur.len() + 1 == depth {
                continue;
            }
            cur.push(op.clone());
            if well_formed(cur) {
                rec(alpha, depth, cur, r, out);
            }
            cur.pop();
        }
    }
    rec(alpha, depth, &mut vec![], 0, &mut out);
    out
}

fn value_histories() -> Vec<(Vec<Op>, &'static str)> {
    let mut v = vec![];
    for x in 0..NVALS {
        v.push((vec![Op::CreateNode(1), Op::SetNodeProp(0, x), Op::CloseOpen], "node-set"));
        v.push((vec![Op::CreateNode(1), Op::SetNodeProp(0, 0), Op::SetNodeProp(0, x), Op::CloseOpen], "node-overwrite"));
        v.push((vec![Op::CreateNode(1), Op::SetNodeProp(0, x), Op::CloseOpen, Op::CloseOpen], "node-two-cycles"));
        v.push((vec![Op::CreateNode(1), Op::CreateEdge(0, 0), Op::SetEdgeProp(0, x), Op::CloseOpen], "edge-set"));
        v.push((vec![Op::CreateNode(1), Op::CloseOpen, Op::SetNodeProp(0, x), Op::CloseOpen], "node-set-second-life"));
        v.push((vec![Op::CreateNode(1), Op::SetNodeProp(0, x), Op::DropOpen], "node-set-drop"));
    }
    v
}

struct Job {
    mode: Mode,
    ops: Vec<Op>,
    family: &'static str,
    on_disk: bool,
}

fn db_layer(tier: Tier, slow: &Path, fast: &Path) -> Report {
    let mut rep = Report::new("C05", tier, "model_checking");
    let (full_depth, rest_depth, deep_depth) = tier.pick((4, 3, 0), (5, 4, 6));
    let full_modes: Vec<Mode> = tier.pick(vec![Mode::Batch], vec![Mode::Batch, Mode::Sync]);
    let alpha = alphabet(tier, false);
    let mut jobs: Vec<Job> = vec![];
    let h_full = histories(&alpha, full_depth);
    let h_rest = histories(&alpha, rest_depth);
    for m in Mode::ALL {
        let hs = if full_modes.contains(&m) { &h_full } else { &h_rest };
        for h in hs {
            jobs.push(Job { mode: m, ops: h.clone(), family: "enumerated", on_disk: false });
        }
    }
    let mut deep_count = 0;
    if deep_depth > 0 {
        let da = alphabet(tier, true);
        for h in histories(&da, deep_depth).into_iter().filter(|h| h.len() == deep_depth) {
            deep_count += 1;
            jobs.push(Job { mode: Mode::Batch, ops: h, family: "deep", on_disk: false });
        }
    }
    // two-cycle family: what a second session does to a database that was already reopened once (most defects do not
    // manifest from the initial state): every prefix of 1..=2 letters of the reduced alphabet, a reopen, every single
    // letter, a reopen.  Covers "delete the newest entity, reopen, create, reopen" and its relatives at quick depth.
    let mut two_cycle = 0u64;
    {
        let da: Vec<Op> = alphabet(tier, true).into_iter().filter(|o| !o.is_reopen()).collect();
        let mut prefixes: Vec<Vec<Op>> = da.iter().map(|o| vec![o.clone()]).collect();
        for a in &da {
            for b in &da {
                prefixes.push(vec![a.clone(), b.clone()]);
            }
        }
        for pre in &prefixes {
            for q in &da {
                for reopen in [Op::CloseOpen, Op::DropOpen] {
                    let mut h = pre.clone();
                    h.push(reopen.clone());
                    h.push(q.clone());
                    h.push(reopen.clone());
                    two_cycle += 1;
                    jobs.push(Job { mode: Mode::Batch, ops: h, family: "two-cycle", on_disk: false });
                }
            }
        }
    }
    rep.set("two_cycle_histories", json!(two_cycle));
    // a sample on the real (fsync-ing) scratch directory: every history of length <= 3 in every mode
    let h_disk = histories(&alpha, tier.pick(2, 3));
    for m in Mode::ALL {
        for h in &h_disk {
            jobs.push(Job { mode: m, ops: h.clone(), family: "on-disk", on_disk: true });
        }
    }
    let vh = value_histories();
    for m in Mode::ALL {
        for (h, fam) in &vh {
            jobs.push(Job { mode: m, ops: h.clone(), family: fam, on_disk: false });
        }
    }
    rep.set(
        "db_bounds",
        json!({
            "alphabet": hist_text(&alpha),
            "statements": QUERIES.iter().map(|q| format!("{}: {}", q.0, q.1)).collect::<Vec<_>>(),
            "values": (0..NVALS).map(val_name).collect::<Vec<_>>(),
            "shape": "length 2..=depth, last event a reopen, at most 2 reopen events (close_open / drop_open)",
            "depth_in_full_modes": full_depth, "full_modes": full_modes.iter().map(|m| m.name()).collect::<Vec<_>>(),
            "depth_in_other_modes": rest_depth,
            "deep_alphabet": hist_text(&alphabet(tier, true)), "deep_depth": deep_depth, "deep_histories": deep_count,
            "histories_full_depth": h_full.len(), "histories_other_modes": h_rest.len(), "histories_on_disk_sample": h_disk.len() * Mode::ALL.len(),
            "value_histories": vh.len() * Mode::ALL.len(),
        }),
    );
    let chunks: Vec<&[Job]> = jobs.chunks(128).collect();
    let shards = vcore::par_map(&chunks, vcore::cores(), |ci, chunk| {
        let mut sh = Report::new("C05", tier, "model_checking");
        let mut states: BTreeSet<u64> = BTreeSet::new();
        for job in chunk.iter() {
            let base = if job.on_disk { slow } else { fast };
            let dir = base.join(format!("h{ci}"));
            let o = run_history(&dir, job.mode, &job.ops, "database", &[]);
            let _ = std::fs::remove_dir_all(&dir);
            if o.ill_formed {
                sh.add("db_histories_skipped_ill_formed", 1);
                continue;
            }
            sh.evaluations += o.reopens;
            sh.transitions += o.ops_executed;
            sh.traces_validated += 1;
            sh.add(&format!("db_histories::{}", if job.family == "enumerated" || job.family == "deep" || job.family == "on-disk" { job.family } else { "values" }), 1);
            sh.nontrivial(&(hist_text(&job.ops), job.mode.name()));
            for d in o.dumps {
                states.insert(d);
            }
            for (class, eff) in o.effective {
                if eff {
                    sh.add(&format!("db_op_changed_state::{class}"), 1);
                }
            }
            if !o.violations.is_empty() {
                sh.add("db_histories_with_violation", 1);
            }
            for v in o.violations {
                sh.violation(v);
            }
            if sh.samples.is_empty() && job.ops.len() == 4 {
                sh.sample(json!({"layer": "database", "mode": job.mode.name(), "history": hist_text(&job.ops)}));
            }
        }
        sh.set("states_list", json!(states.into_iter().collect::<Vec<_>>()));
        sh
    });
    let mut all_states: BTreeSet<u64> = BTreeSet::new();
    for mut sh in shards {
        if let Some(l) = sh.extra.remove("states_list") {
            for x in l.as_array().cloned().unwrap_or_default() {
                if let Some(x) = x.as_u64() {
                    all_states.insert(x);
                }
            }
        }
        rep.merge(sh);
    }
    rep.states += all_states.len() as u64;
    rep
}

// ---------------------------------------------------------------------------
// rotation layer: the log outgrows the hard-wired 64 MiB limit
// ---------------------------------------------------------------------------

fn rotation_layer(tier: Tier, fast: &Path) -> Report {
    use grafeo_common::types::Value;
    let mut rep = Report::new("C05", tier, "model_checking");
    // large records below the rotation threshold: a record of any size the log accepted must come back (and so must
    // everything logged behind it, in this session and in the next one)
    for mib in tier.pick(vec![1usize, 17], vec![1, 15, 17, 33]) {
        let dir = fast.join("big");
        let _ = std::fs::remove_dir_all(&dir);
        let name = format!("large-record-{mib}MiB");
        let dump = |db: &grafeo_engine::GrafeoDB| -> BTreeSet<String> {
            let mut s = BTreeSet::new();
            for n in db.iter_nodes() {
                s.insert(format!("n|{}", n.id.as_u64()));
                for (k, v) in n.properties.iter() {
                    s.insert(format!("p|{}|{}|{}", n.id.as_u64(), k.as_str(), match v {
                        Value::String(x) if x.len() > 100 => format!("string of {} bytes", x.len()),
                        o => canon(o),
                    }));
                }
            }
            s
        };
        let mut cycle = |step: &str, f: &dyn Fn(&grafeo_engine::GrafeoDB)| {
            let db = match open_db(&dir, Mode::NoSync) {
                Ok(db) => db,
                Err(e) => {
                    rep.violation(Violation::new(&[("layer", "database"), ("kind", "open-fails"), ("op-kind", "large-record")], json!({"layer": "rotation", "variant": name, "step": step}), format!("open failed at step {step}: {e}")));
                    return None;
                }
            };
            let seen = dump(&db);
            f(&db);
            let left = dump(&db);
            db.close().unwrap_or_else(|e| vcore::machinery_failure(&format!("close: {e}")));
            Some((seen, left))
        };
        let s1 = cycle("write", &|db| {
            let a = db.create_node(&["A"]);
            db.set_node_property(a, "small", Value::Int64(1));
            db.set_node_property(a, "big", Value::String("x".repeat(mib * 1024 * 1024 + 16).into()));
            let b = db.create_node(&["B"]);
            db.set_node_property(b, "after", Value::Int64(2));
        });
        let s2 = cycle("second-session", &|db| {
            let c = db.create_node(&["C"]);
            db.set_node_property(c, "later", Value::Int64(3));
        });
        let s3 = cycle("third-session", &|_db| {});
        rep.evaluations += 3;
        rep.transitions += 7;
        rep.traces_validated += 1;
        rep.nontrivial(&("large-record", mib));
        rep.add("large_record_histories", 1);
        for (step, prev, cur) in [("first-reopen", &s1, &s2), ("second-reopen", &s2, &s3)] {
            if let (Some((_, left)), Some((seen, _))) = (prev, cur) {
                if left != seen {
                    let lost: Vec<_> = left.difference(seen).cloned().collect();
                    let extra: Vec<_> = seen.difference(left).cloned().collect();
                    rep.violation(Violation::new(
                        &[("layer", "database"), ("kind", "lost-after-reopen"), ("op-kind", "large-record"), ("effect", if lost.is_empty() { "extra" } else { "lost" }), ("mode", "nosync")],
                        json!({"layer": "rotation", "variant": name, "step": step}),
                        format!("a {mib} MiB property record (below the 64 MiB rotation threshold): at the {step} close()+open() lost {lost:?} extra {extra:?}"),
                    ));
                }
            }
        }
        let _ = std::fs::remove_dir_all(&dir);
    }
    let variants: Vec<(&str, bool)> = tier.pick(vec![("close", false)], vec![("close", false), ("checkpoint-then-close", true)]);
    for (name, with_cp) in variants {
        let dir = fast.join("rot");
        let _ = std::fs::remove_dir_all(&dir);
        Recorder::start(&dir);
        Recorder::with(|r| r.enabled = false);
        let db = open_db(&dir, Mode::NoSync).unwrap_or_else(|e| vcore::machinery_failure(&format!("open: {e}")));
        let a = db.create_node(&["A"]);
        db.set_node_property(a, "small", Value::Int64(1));
        db.set_node_property(a, "huge", Value::String("x".repeat(64 * 1024 * 1024 + 16).into()));
        let b = db.create_node(&["B"]);
        db.set_node_property(b, "after", Value::Int64(2));
        if with_cp {
            let _ = db.wal_checkpoint();
        }
        let keys = |db: &grafeo_engine::GrafeoDB| -> BTreeSet<String> {
            let mut s = BTreeSet::new();
            for n in db.iter_nodes() {
                s.insert(format!("n|{}", n.id.as_u64()));
                for l in n.labels.iter() {
                    s.insert(format!("l|{}|{}", n.id.as_u64(), l.as_str()));
                }
                for (k, v) in n.properties.iter() {
                    s.insert(format!("p|{}|{}|{}", n.id.as_u64(), k.as_str(), match v {
                        Value::String(x) if x.len() > 100 => format!("string of {} bytes", x.len()),
                        o => canon(o),
                    }));
                }
            }
            s
        };
        let before = keys(&db);
        db.close().unwrap_or_else(|e| vcore::machinery_failure(&format!("close: {e}")));
        drop(db);
        let rec = Recorder::stop().unwrap();
        let rotations = rec.events.iter().filter(|(_, k)| k == "wal.rotate.created").count();
        let db2 = open_db(&dir, Mode::NoSync);
        rep.evaluations += 1;
        rep.transitions += 6;
        rep.traces_validated += 1;
        rep.nontrivial(&("rotation", name));
        rep.add("rotation_histories", 1);
        rep.add("rotation_events_observed", rotations as u64);
        match db2 {
            Err(e) => rep.violation(Violation::new(
                &[("layer", "database"), ("kind", "open-fails"), ("op-kind", "before-log-rotation")],
                json!({"layer": "rotation", "variant": name}),
                format!("open after a clean close failed: {e}"),
            )),
            Ok(db2) => {
                let after = keys(&db2);
                if after != before {
                    let lost: Vec<_> = before.difference(&after).cloned().collect();
                    let extra: Vec<_> = after.difference(&before).cloned().collect();
                    rep.violation(Violation::new(
                        &[("layer", "database"), ("kind", "lost-after-reopen"), ("op-kind", if rotations > 0 { "before-log-rotation" } else { "unexplained" }), ("effect", "lost"), ("mode", "nosync")],
                        json!({"layer": "rotation", "variant": name}),
                        format!("after the log rotated ({rotations} rotation(s)) close()+open() lost {lost:?} extra {extra:?}: recovery skips log files below the checkpoint's sequence although their content exists nowhere else"),
                    ));
                }
            }
        }
        let _ = std::fs::remove_dir_all(&dir);
    }
    rep
}

// ---------------------------------------------------------------------------
// wal-seam layer (clean shutdown)
// ---------------------------------------------------------------------------

fn seam_check(dir: &Path, dur: SDur, size: u64, hist: &[SOp]) -> (Vec<Violation>, bool) {
    let mut out = vec![];
    let run = seam::run_seam(dir, dur, size, hist, false);
    let case = || {
        json!({"layer": "wal-seam", "durability": dur.name(), "max_log_size": size, "history": seam::shist_text(hist),
               "logged": run.logged.iter().map(|l| format!("{:?}@{}", l.kind, l.file_seq)).collect::<Vec<_>>()})
    };
    for e in &run.errors {
        out.push(Violation::new(&[("layer", "wal-manager"), ("kind", "manager-error")], case(), format!("a WalManager call failed: {e}")));
    }
    let on_disk = seam::checkpoint_seq_on_disk(dir);
    if on_disk != run.checkpoint_seq {
        out.push(Violation::new(
            &[("layer", "wal-manager"), ("kind", "checkpoint-sequence-mismatch")],
            case(),
            format!("checkpoint.meta names log sequence {on_disk:?}, the active log when checkpoint() returned was {:?}", run.checkpoint_seq),
        ));
    }
    let min_seq = run.checkpoint_seq.unwrap_or(0);
    let r = seam::recover_dir(dir);
    let issued_data = run.logged.iter().filter(|l| matches!(l.kind, seam::RK::Data(_))).count() as u64;
    let nontrivial = issued_data > 0;
    match (&r.panic, &r.result) {
        (Some(p), _) => out.push(Violation::new(&[("layer", "recovery"), ("kind", "panic")], case(), format!("recover() panicked: {p}"))),
        (None, Err(e)) => out.push(Violation::new(&[("layer", "recovery"), ("kind", "recover-fails")], case(), format!("recover() returned Err after a clean shutdown: {e}"))),
        (None, Ok(recs)) => {
            let (data, garbage) = seam::data_numbers(recs, issued_data);
            let want = seam::expected(&run.logged, run.logged.len(), min_seq, Sem::Doc);
            if !garbage.is_empty() {
                out.push(Violation::new(&[("layer", "recovery"), ("kind", "corrupt-record-returned")], case(), format!("records never logged: {garbage:?}")));
            } else if data != want {
                let code = seam::expected(&run.logged, run.logged.len(), min_seq, Sem::Code);
                let (kind, opk) = if data == code { ("committed-record-lost", "before-checkpoint") } else { ("recovered-list-mismatch", "unexplained") };
                out.push(Violation::new(
                    &[("layer", "recovery"), ("kind", kind), ("op-kind", opk), ("entry", "recover")],
                    case(),
                    format!("recovered data records {data:?}; the committed transactions in files >= sequence {min_seq} contain {want:?}"),
                ));
            }
        }
    }
    (out, nontrivial)
}

fn seam_layer(tier: Tier, fast: &Path) -> Report {
    let mut rep = Report::new("C05", tier, "model_checking");
    let depth = tier.pick(5, 6);
    let hists = seam::seam_histories(&SOp::ALL, depth);
    let mut jobs = vec![];
    for d in SDur::ALL {
        for s in seam::LOG_SIZES {
            // durability does not change what a clean shutdown leaves behind: full depth for one mode, depth-1 for the others
            for h in &hists {
                if d == SDur::NoSync || h.len() < depth {
                    jobs.push((d, s, h.clone()));
                }
            }
        }
    }
    rep.set(
        "seam_bounds",
        json!({"alphabet": "d=log data record, c=TxCommit, a=TxAbort, k=checkpoint(), r=rotate(), s=sync(), o=drop+reopen manager",
               "depth": depth, "max_log_size_bytes": seam::LOG_SIZES, "durability": SDur::ALL.iter().map(|d| d.name()).collect::<Vec<_>>(), "histories": jobs.len()}),
    );
    let chunks: Vec<&[(SDur, u64, Vec<SOp>)]> = jobs.chunks(256).collect();
    let shards = vcore::par_map(&chunks, vcore::cores(), |ci, chunk| {
        let mut sh = Report::new("C05", tier, "model_checking");
        let dir = fast.join(format!("seam{ci}"));
        for (d, s, h) in chunk.iter() {
            let (viols, nontrivial) = seam_check(&dir, *d, *s, h);
            sh.evaluations += 1;
            sh.transitions += h.len() as u64;
            sh.traces_validated += 1;
            sh.add("seam_histories", 1);
            if nontrivial {
                sh.nontrivial(&(d.name(), *s, seam::shist_text(h)));
            }
            for v in viols {
                sh.violation(v);
            }
            if sh.samples.is_empty() && h.len() == 5 {
                sh.sample(json!({"layer": "wal-seam", "durability": d.name(), "max_log_size": s, "history": seam::shist_text(h)}));
            }
        }
        let _ = std::fs::remove_dir_all(&dir);
        sh
    });
    for sh in shards {
        rep.merge(sh);
    }
    rep
}

// ---------------------------------------------------------------------------

fn replay(case: &J, fast: &Path) -> Vec<Violation> {
    match case["layer"].as_str() {
        Some("wal-seam") => {
            let dur = SDur::parse(case["durability"].as_str().unwrap_or("")).unwrap_or(SDur::NoSync);
            let size = case["max_log_size"].as_u64().unwrap_or(1);
            let h = seam::shist_parse(case["history"].as_str().unwrap_or(""));
            seam_check(&fast.join("replay-seam"), dur, size, &h).0
        }
        Some("rotation") => rotation_layer(Tier::Thorough, fast).violations.into_iter().filter(|v| v.case["variant"] == case["variant"]).collect(),
        _ => {
            let ops = hist_parse(&case["history"]);
            let mode = Mode::parse(case["mode"].as_str().unwrap_or("")).unwrap_or(Mode::Batch);
            run_history(&fast.join("replay-db"), mode, &ops, "database", &[]).violations
        }
    }
}

fn run(args: vcore::Args) -> i32 {
    watchdog::start("C05");
    let slow = vcore::scratch_dir("c05");
    let fast = fast_base("c05");
    let code = run_inner(&args, &slow, &fast);
    let _ = std::fs::remove_dir_all(&slow);
    let _ = std::fs::remove_dir_all(&fast);
    code
}

fn run_inner(args: &vcore::Args, slow: &Path, fast: &Path) -> i32 {
    if let Some(p) = args.replay.as_deref() {
        let case = vcore::read_replay_case(p);
        let v1 = replay(&case, fast);
        let v2 = replay(&case, fast);
        let s1: Vec<String> = v1.iter().map(|v| v.sig_string()).collect();
        let s2: Vec<String> = v2.iter().map(|v| v.sig_string()).collect();
        if s1 != s2 {
            vcore::machinery_failure("replaying the same case twice gave different observations");
        }
        return vcheck::replay_report("C05", v1);
    }
    let mut rep = Report::new("C05", args.tier, "model_checking");
    rep.rule = "a case is one history (sequence of mutating API calls / statements / session transactions / wal_checkpoint / reopen events, ending with a reopen) under one durability mode, executed on a fresh real directory; at every reopen the full graph dump after open is compared with the dump taken just before close, and every identifier handed out later is checked against all identifiers handed out before. wal-seam cases are record histories on WalManager under one (durability, max_log_size). Distinct = distinct (history, configuration); states = distinct graph dumps reached; transitions = operations executed on the real code".into();
    let only = std::env::var("C05_ONLY").ok();
    let want = |l: &str| only.as_deref().map(|o| o == l).unwrap_or(true);
    for (name, f) in [
        ("db", Box::new(|| db_layer(args.tier, slow, fast)) as Box<dyn Fn() -> Report>),
        ("rotation", Box::new(|| rotation_layer(args.tier, fast))),
        ("seam", Box::new(|| seam_layer(args.tier, fast))),
    ] {
        if want(name) {
            let t = std::time::Instant::now();
            rep.merge(f());
            rep.set(&format!("{name}_layer_wall_s"), json!(t.elapsed().as_secs_f64()));
        }
    }
    rep.set("scratch", json!({"on_disk_sample": slow.display().to_string(), "bulk": fast.display().to_string()}));
    rep.assumptions.push("Drop for GrafeoDB calls close(): 'drop without close' is a clean shutdown and gets the same oracle as close()".into());
    rep.assumptions.push("GrafeoDB hard-wires WalConfig::default() (64 MiB max_log_size): other log-size limits are explored at the WalManager + WalRecovery seam; one history crosses the 64 MiB limit through the database".into());
    rep.finish()
}
