//! C04 — serializable outcomes (manager layer: SEQ model checking; see DESIGN.md §3/C04).
fn main() {
    std::process::exit(vcheck::txmgr::run("C04", vcheck::entry()));
}
