//! C03 — first committer wins (manager layer: SEQ model checking; see DESIGN.md §3/C03).
fn main() {
    std::process::exit(vcheck::txmgr::run("C03", vcheck::entry()));
}
