//! C09 — the optimizer never changes a query's answer (DESIGN.md §3/C09).
//!
//! Engine ENUM, model-free and differential: for every small graph x every query of the core grammar
//! (plus hand-written 3-relation join shapes, needed for join reordering) x {GQL, Cypher}, the query
//! is translated and bound once, then optimised under ALL 2^3 settings of filter push-down / join
//! reordering / projection push-down x 3 statistics states (none; fresh from the store; stale: computed
//! on a smaller graph), planned with the same Planner and executed.  The 24 answers must be the same
//! multiset (the same sequence where the query fixes a total order).

use grafeo_common::types::Value;
use grafeo_engine::GrafeoDB;
use grafeo_engine::query::optimizer::{CardinalityEstimator, Optimizer};
use grafeo_engine::query::plan::LogicalPlan;
use grafeo_engine::query::{Executor, Planner, binder::Binder, cypher_translator, gql_translator};
use serde_json::{Value as J, json};
use std::sync::Arc;
use vcheck::qmodel::*;
use vcore::{Report, Tier, Violation};

fn main() {
    std::process::exit(run(vcheck::entry()));
}

const STATS: [&str; 3] = ["none", "fresh", "stale"];

fn optimizer(db: &GrafeoDB, stale: &GrafeoDB, flags: u8, stats: usize) -> Optimizer {
    let o = match stats {
        0 => Optimizer::new(),
        1 => Optimizer::from_store(db.store()),
        _ => {
            stale.store().compute_statistics();
            Optimizer::new().with_cardinality_estimator(CardinalityEstimator::from_statistics(&stale.store().statistics()))
        }
    };
    o.with_filter_pushdown(flags & 1 != 0).with_join_reorder(flags & 2 != 0).with_projection_pushdown(flags & 4 != 0)
}

fn execute(db: &GrafeoDB, plan: &LogicalPlan) -> Result<Vec<Vec<Value>>, String> {
    let txm = db.verif_tx_manager();
    let planner = Planner::with_context(Arc::clone(db.store()), Arc::clone(txm), None, txm.current_epoch());
    let mut physical = planner.plan(plan).map_err(|e| format!("plan: {e}"))?;
    let ex = Executor::with_columns(physical.columns.clone());
    ex.execute(physical.operator.as_mut()).map(|r| r.rows).map_err(|e| format!("execute: {e}"))
}

#[derive(Clone, Debug, PartialEq)]
enum Out {
    Rows(Vec<Vec<Value>>),
    Err(String),
    Panic(String),
}

fn run_config(db: &GrafeoDB, stale: &GrafeoDB, logical: &LogicalPlan, flags: u8, stats: usize) -> Out {
    match vcore::catch(|| {
        let opt = optimizer(db, stale, flags, stats);
        let plan = opt.optimize(logical.clone()).map_err(|e| format!("optimize: {e}"))?;
        execute(db, &plan)
    }) {
        Ok(Ok(r)) => Out::Rows(r),
        Ok(Err(e)) => Out::Err(e),
        Err(p) => Out::Panic(p),
    }
}

/// Hand-written queries with three relations (join reordering needs at least three).
fn join_queries() -> Vec<(String, String)> {
    let mut v = vec![];
    for (name, text) in [
        ("three-comma-shared", "MATCH (a:A)-[:K]->(b), (b)-[:K]->(c), (c)-[:L]->(d) RETURN a.p, b.p, c.p, d.p"),
        ("three-comma-unshared", "MATCH (a:A), (b:B), (c) RETURN a.p, b.p, c.p"),
        ("three-comma-filter", "MATCH (a)-[:K]->(b), (c:A), (d:B) WHERE a.p = 1 AND c.p = 2 RETURN a.p, b.p, c.p, d.s"),
        ("three-comma-star", "MATCH (x)-[:K]->(a), (x)-[:L]->(b), (x)-[:K]->(c) RETURN x.p, a.p, b.p, c.p"),
        ("two-hop-filter-both-ends", "MATCH (a:A)-[:K]->(b)-[:L]->(c:B) WHERE a.p = 1 AND c.p = 1 RETURN a.p, b.p, c.p"),
        ("three-comma-count", "MATCH (a:A), (b)-[:K]->(c), (d:B) RETURN COUNT(a)"),
        ("filter-or-across", "MATCH (a)-[:K]->(b), (c:A) WHERE a.p = 1 OR c.p = 2 RETURN a.p, b.p, c.p"),
    ] {
        v.push((name.to_string(), text.to_string()));
    }
    v
}

/// Hand-written shapes that put a filter above every operator kind the push-down can meet (projection with fresh /
/// shadowing / swapped / computed aliases, expand with edge and path variables, variable-length expand, join, optional
/// match, aggregate, distinct, sort + limit / skip, unwind, sub-query): whether the filter may travel below that
/// operator is exactly what the rewrite decides.  Windows sit on a total pre-order whose ties are filtered alike, so
/// the answer of a correct plan is determined.
fn shape_queries() -> Vec<(String, String)> {
    [
        ("with-fresh-alias", "MATCH (a)-[:K]->(b) WITH b AS c WHERE c.p = 1 RETURN c.p"),
        ("with-shadow-alias", "MATCH (a)-[:K]->(b) WITH b AS a WHERE a.p = 1 RETURN a.p, a.s"),
        ("with-swap-alias", "MATCH (a)-[:K]->(b) WITH b AS a, a AS b WHERE a.p = 1 RETURN a.p, b.p"),
        ("with-computed", "MATCH (a) WITH a.p + 1 AS k WHERE k = 2 RETURN k"),
        ("with-computed-shadow", "MATCH (a)-[:K]->(b) WITH a, b.p AS a2, a.p + 1 AS p WHERE p = 2 RETURN a.p, a2, p"),
        ("with-passthrough", "MATCH (a)-[:K]->(b) WITH a, b WHERE a.p = 1 AND b.p = 1 RETURN a.p, b.p"),
        ("with-two-levels", "MATCH (a)-[:K]->(b) WITH b AS a WITH a AS c WHERE c.p = 1 RETURN c.p"),
        ("with-then-match", "MATCH (a)-[:K]->(b) WITH b AS a MATCH (a)-[:L]->(c) WHERE a.p = 1 RETURN a.p, c.p"),
        ("with-or-alias", "MATCH (a)-[:K]->(b) WITH a, b AS x WHERE a.p = 1 OR x.p = 2 RETURN a.p, x.p"),
        ("agg-having", "MATCH (a)-[:K]->(b) WITH a, COUNT(b) AS c WHERE c > 1 RETURN a.p, c"),
        ("agg-key-filter", "MATCH (a)-[:K]->(b) WITH a.p AS k, COUNT(b) AS c WHERE k = 1 RETURN k, c"),
        ("distinct-filter", "MATCH (a)-[:K]->(b) WITH DISTINCT a.p AS k WHERE k = 1 RETURN k"),
        ("limit-then-filter", "MATCH (a) WITH a ORDER BY a.p DESC LIMIT 1 WHERE a.p = 1 RETURN a.p"),
        ("skip-then-filter", "MATCH (a) WITH a ORDER BY a.p DESC SKIP 1 WHERE a.p = 1 RETURN a.p"),
        ("edge-type-filter", "MATCH (a)-[e]->(b) WHERE type(e) = 'K' AND a.p = 1 RETURN a.p, b.p"),
        ("varlen-path-length", "MATCH p = (a)-[:K*1..2]->(b) WHERE length(p) = 2 RETURN a.p, b.p"),
        ("varlen-endpoints", "MATCH (a)-[:K*1..2]->(b) WHERE a.p = 1 AND b.p = 2 RETURN a.p, b.p"),
        ("optional-where", "MATCH (a) OPTIONAL MATCH (a)-[:L]->(b) WHERE b.p = 1 RETURN a.p, b.p"),
        ("optional-then-filter", "MATCH (a) OPTIONAL MATCH (a)-[:L]->(b) WITH a, b WHERE b.p = 1 RETURN a.p, b.p"),
        ("optional-null-filter", "MATCH (a) OPTIONAL MATCH (a)-[:L]->(b) WITH a, b WHERE b IS NULL RETURN a.p"),
        ("unwind-filter", "UNWIND [1, 2] AS x MATCH (a) WHERE a.p = x RETURN a.p, x"),
        ("unwind-then-filter", "MATCH (a) UNWIND [1, 2] AS x WITH a, x WHERE x = a.p RETURN a.p, x"),
        ("exists-subquery", "MATCH (a) WHERE EXISTS { MATCH (a)-[:K]->(b) WHERE b.p = 1 } RETURN a.p"),
        ("join-both-sides", "MATCH (a:A), (b:B) WHERE a.p = b.p RETURN a.p, b.p"),
        ("join-alias-side", "MATCH (a:A), (b:B) WITH a AS b, b AS a WHERE a.p = 2 RETURN a.p, b.p"),
    ]
    .into_iter()
    .map(|(n, t)| (n.to_string(), t.to_string()))
    .collect()
}

/// Generated family: every predicate template over two variable slots x every binding context in which the two slots
/// are bound at different depths of the plan (the deeper one below an expand / the other side of a join / behind a
/// projection alias / the optional side / a second MATCH).  Whether a predicate may sink below the operator that binds
/// one of its variables depends on the free-variable analysis seeing that variable inside every expression form
/// (CASE parts, lists, function arguments, sub-queries, IS NULL, IN), which is what the templates vary.
fn predicate_context_queries() -> Vec<(String, String)> {
    // {x} is bound lower (first / left), {y} higher (introduced by the operator the filter sits above)
    let preds: [(&str, &str); 24] = [
        ("eq", "{x}.p = {y}.p"),
        ("lt", "{x}.p < {y}.p"),
        ("sum", "{x}.p + {y}.p = 3"),
        ("or", "{x}.p = 1 OR {y}.p = 2"),
        ("and", "{x}.p = 1 AND {y}.p = 2"),
        ("not", "NOT ({x}.p = {y}.p)"),
        ("case-when-only-y", "CASE WHEN {y}.p > 1 THEN {x}.p ELSE 0 END = 1"),
        ("case-when-only-y-lit", "CASE WHEN {y}.p = 2 THEN 1 ELSE 0 END = 1"),
        ("case-simple-when-y", "CASE {x}.p WHEN {y}.p THEN 1 ELSE 0 END = 1"),
        ("case-then-only-y", "CASE WHEN {x}.p = 1 THEN {y}.p ELSE 0 END > 0"),
        ("case-else-only-y", "CASE WHEN {x}.p = 2 THEN 0 ELSE {y}.p END > 0"),
        ("case-operand-only-y", "CASE {y}.p WHEN 2 THEN {x}.p ELSE 0 END = 1"),
        ("exists-y", "EXISTS { MATCH ({y})-[:L]->(z) }"),
        ("exists-y-inner-where-x", "EXISTS { MATCH ({y})-[:K]->(z) WHERE z.p = {x}.p }"),
        ("x-and-exists-y", "{x}.p = 1 AND EXISTS { MATCH ({y})-[:K]->(z) }"),
        ("not-exists-y", "NOT EXISTS { MATCH ({y})-[:L]->(z) }"),
        ("in-list", "{y}.p IN [{x}.p, 5]"),
        ("in-list-of-y", "{x}.p IN [{y}.p, 5]"),
        ("is-null-y", "{x}.p = 1 AND {y}.s IS NULL"),
        ("is-not-null-y", "{y}.s IS NOT NULL OR {x}.p = 2"),
        ("coalesce", "coalesce({y}.s, {x}.s) = 'x'"),
        ("abs", "abs({x}.p - {y}.p) = 1"),
        ("id-cmp", "id({x}) < id({y})"),
        ("labels", "{y}:A AND {x}.p = 1"),
    ];
    let ctxs: [(&str, &str); 9] = [
        ("expand", "MATCH (a)-[:K]->(b) WHERE {P} RETURN a.p, b.p"),
        ("two-hop", "MATCH (a)-[:K]->(m)-[:L]->(b) WHERE {P} RETURN a.p, m.p, b.p"),
        ("varlen", "MATCH (a)-[:K*1..2]->(b) WHERE {P} RETURN a.p, b.p"),
        ("comma-join", "MATCH (a:A), (b:B) WHERE {P} RETURN a.p, b.p"),
        ("second-match", "MATCH (a:A), (t:B) MATCH (b) WHERE {P} RETURN a.p, t.p, b.p"),
        ("second-match-expand", "MATCH (a:A) MATCH (b)-[:L]->(c) WHERE {P} RETURN a.p, b.p, c.p"),
        ("with-alias", "MATCH (a)-[:K]->(m) WITH a, m AS b WHERE {P} RETURN a.p, b.p"),
        ("optional", "MATCH (a) OPTIONAL MATCH (a)-[:L]->(b) WITH a, b WHERE {P} RETURN a.p, b.p"),
        ("edge-expand", "MATCH (a)-[e:K]->(b)-[:L]->(c) WHERE {P} RETURN a.p, b.p, c.p"),
    ];
    let mut v = vec![];
    for (cn, ct) in ctxs {
        for (pn, pt) in preds {
            for (dir, x, y) in [("xy", "a", "b"), ("yx", "b", "a")] {
                let p = pt.replace("{x}", x).replace("{y}", y);
                v.push((format!("ctx:{cn}/pred:{pn}/{dir}"), ct.replace("{P}", &p)));
            }
        }
    }
    v
}

struct Case<'a> {
    lang: Lang,
    text: String,
    feats: Vec<(String, String)>,
    q: Option<&'a Query>,
}

fn judge(g: &QGraph, ids: &IdMap, db: &GrafeoDB, stale: &GrafeoDB, c: &Case) -> (Vec<Violation>, u64, bool) {
    let translated = match c.lang {
        Lang::Cypher => vcore::catch(|| cypher_translator::translate(&c.text)),
        _ => vcore::catch(|| gql_translator::translate(&c.text)),
    };
    let Ok(Ok(logical)) = translated else { return (vec![], 0, false) };
    if vcore::catch(|| Binder::new().bind(&logical).map(|_| ())).map_or(true, |r| r.is_err()) {
        return (vec![], 0, false);
    }
    let mut outs: Vec<(u8, usize, Out)> = vec![];
    for stats in 0..3 {
        for flags in 0..8u8 {
            outs.push((flags, stats, run_config(db, stale, &logical, flags, stats)));
        }
    }
    // is the row order / the window fixed by the query on this graph?
    let (ordered, windowed, total) = match c.q {
        Some(q) => {
            let r = eval(g, ids, q, EvalOpts::default());
            (q.order_by.is_some(), r.has_window(), r.total_order())
        }
        None => (false, false, false),
    };
    let same = |a: &Out, b: &Out| -> bool {
        match (a, b) {
            (Out::Rows(x), Out::Rows(y)) => {
                if windowed && !total {
                    x.len() == y.len() // which rows fall into the window is not determined
                } else {
                    answers_agree(x, y, ordered && total)
                }
            }
            (Out::Err(_), Out::Err(_)) => true,
            _ => false,
        }
    };
    let mut viols = vec![];
    let base = &outs[0].2;
    let nonempty = matches!(base, Out::Rows(r) if !r.is_empty());
    let case = json!({"engine": "ENUM/optimizer", "graph": g.to_json(), "lang": c.lang.name(), "query": c.text, "query_ast": c.q.map(|q| q.to_json())});
    let mut reported = false;
    for (flags, stats, o) in &outs {
        if let Out::Panic(p) = o {
            let norm: String = p.chars().map(|ch| if ch.is_ascii_digit() { '#' } else { ch }).take(60).collect();
            let mut f: Vec<(&str, &str)> = vec![("layer", "optimizer"), ("kind", "panic"), ("msg", &norm)];
            let fs: Vec<(String, String)> = c.feats.clone();
            for (k, v) in &fs {
                f.push((k, v));
            }
            viols.push(Violation::new(&f, case.clone(), format!("{} panicked with flags {flags:03b} stats {}: {p}", c.text, STATS[*stats])));
            reported = true;
            break;
        }
    }
    if !reported {
        // find a pair differing in exactly one switch (or only in the statistics state) with different answers
        'outer: for (fa, sa, oa) in &outs {
            for (fb, sb, ob) in &outs {
                let one_switch = sa == sb && (fa ^ fb).count_ones() == 1;
                let only_stats = fa == fb && sa != sb;
                if (one_switch || only_stats) && !same(oa, ob) {
                    let switch = if only_stats {
                        format!("statistics:{}-vs-{}", STATS[*sa], STATS[*sb])
                    } else {
                        match fa ^ fb {
                            1 => "filter-pushdown".to_string(),
                            2 => "join-reorder".to_string(),
                            _ => "projection-pushdown".to_string(),
                        }
                    };
                    let kind = match (oa, ob) {
                        (Out::Rows(_), Out::Rows(_)) => "rows-differ",
                        _ => "error-vs-rows",
                    };
                    let mut f: Vec<(&str, &str)> = vec![("layer", "optimizer"), ("kind", kind), ("switch", &switch)];
                    let fs: Vec<(String, String)> = c.feats.clone();
                    for (k, v) in &fs {
                        f.push((k, v));
                    }
                    let show = |o: &Out| match o {
                        Out::Rows(r) => format!("{:?}", canon_rows(r)),
                        Out::Err(e) => format!("Err({e})"),
                        Out::Panic(p) => format!("Panic({p})"),
                    };
                    viols.push(Violation::new(&f, case.clone(), format!("{} [{}]: flags {fa:03b}/{} -> {} but flags {fb:03b}/{} -> {}", c.text, c.lang.name(), STATS[*sa], vcore::truncate(&show(oa), 200), STATS[*sb], vcore::truncate(&show(ob), 200))));
                    break 'outer;
                }
            }
        }
    }
    (viols, outs.len() as u64, nonempty)
}

/// Signature fields of a hand-written / generated shape: `ctx:<c>/pred:<p>/<dir>` gives separate fields, so that a
/// ledger entry can name the predicate form (the mechanism) independently of the context.
fn shape_feats(name: &str) -> Vec<(String, String)> {
    let mut f = vec![("pattern".to_string(), name.to_string())];
    if let Some(rest) = name.strip_prefix("ctx:") {
        let parts: Vec<&str> = rest.split('/').collect();
        if parts.len() == 3 {
            f = vec![("pattern".to_string(), "generated".to_string()), ("ctx".to_string(), parts[0].to_string()), ("pred".to_string(), parts[1].trim_start_matches("pred:").to_string()), ("dir".to_string(), parts[2].to_string())];
        }
    }
    f
}

fn feats_of(q: &Query) -> Vec<(String, String)> {
    let f = q.features();
    ["pattern", "where", "agg", "distinct", "order_by", "window"].iter().filter_map(|k| f.get(k).map(|v| (k.to_string(), v.clone()))).collect()
}

fn run(args: vcore::Args) -> i32 {
    let tier = args.tier;
    if let Some(p) = args.replay.as_deref() {
        let case = vcore::read_replay_case(p);
        let Some(g) = QGraph::from_json(&case["graph"]) else { vcore::machinery_failure("bad graph in replay file") };
        let lang = Lang::from_name(case["lang"].as_str().unwrap_or("gql")).unwrap_or(Lang::Gql);
        let q = Query::from_json(&case["query_ast"]);
        let (db, ids) = load(&g);
        let stale = stale_db(&g);
        let c = Case { lang, text: case["query"].as_str().unwrap_or("").to_string(), feats: q.as_ref().map(feats_of).unwrap_or_default(), q: q.as_ref() };
        let (a, _, _) = judge(&g, &ids, &db, &stale, &c);
        let (b, _, _) = judge(&g, &ids, &db, &stale, &c);
        if a.iter().map(|v| v.sig_string()).collect::<Vec<_>>() != b.iter().map(|v| v.sig_string()).collect::<Vec<_>>() {
            vcore::machinery_failure("replaying the same case twice gave different observations");
        }
        return vcheck::replay_report("C09", a);
    }
    let mut rep = Report::new("C09", tier, "exploration");
    // quick: a reduced node alphabet (4 kinds) keeps the product near 1.5e6 executions; thorough: the full core alphabet
    let kinds = if tier == Tier::Quick { GraphSpace::core_node_kinds().into_iter().take(4).collect() } else { GraphSpace::core_node_kinds() };
    let space = GraphSpace { max_nodes: 2, max_edges: tier.pick(1, 2), node_kinds: kinds, edge_kinds: GraphSpace::plain_edge_kinds() };
    let (mut graphs, _) = space.enumerate();
    // a dense 3-node graph on which the 3-relation joins have matches (the enumerated space alone rarely feeds them)
    graphs.push(dense_graph());
    let depth = tier.pick(2, 3);
    let queries = all_queries(depth);
    let mut joins = join_queries();
    joins.extend(shape_queries());
    let generated = predicate_context_queries();
    let n_generated = generated.len();
    joins.extend(generated);
    rep.rule = format!("every graph of {:?} (+ one dense 3-node graph) x every query of the core grammar up to weight {depth} and 7 hand-written 3-relation joins and 25 hand-written filter-above-operator shapes and {n_generated} generated (binding context x predicate template x variable order) shapes x {{GQL, Cypher}} x 2^3 optimizer switches x 3 statistics states; oracle: pairwise equal answers; distinct non-trivial = (graph, query, language) with a non-empty answer", space.to_json());
    let results = vcore::par_map(&graphs, vcore::cores(), |gi, g| {
        let (db, ids) = load(g);
        let stale = stale_db(g);
        let mut viols = vec![];
        let mut evals = 0u64;
        let mut nontrivial = vec![];
        let mut cases: Vec<Case> = vec![];
        let mut accepted: std::collections::BTreeSet<String> = Default::default();
        for q in &queries {
            for lang in [Lang::Gql, Lang::Cypher] {
                if let Some(text) = render(q, lang) {
                    cases.push(Case { lang, text, feats: feats_of(q), q: Some(q) });
                }
            }
        }
        for (name, text) in &joins {
            for lang in [Lang::Gql, Lang::Cypher] {
                cases.push(Case { lang, text: text.clone(), feats: shape_feats(name), q: None });
            }
        }
        for (ci, c) in cases.iter().enumerate() {
            let (v, n, nonempty) = judge(g, &ids, &db, &stale, c);
            evals += n;
            if n > 0 && c.q.is_none() {
                accepted.insert(format!("{}/{}", c.lang.name(), c.feats.iter().skip(if c.feats.len() > 1 { 1 } else { 0 }).map(|f| f.1.as_str()).collect::<Vec<_>>().join("/")));
            }
            if nonempty {
                nontrivial.push(vcore::hash_of(&(gi, ci)));
            }
            viols.extend(v);
        }
        (viols, evals, nontrivial, cases.len(), accepted)
    });
    let mut ncases = 0usize;
    let mut accepted_all: std::collections::BTreeSet<String> = Default::default();
    for (viols, evals, nontrivial, n, acc) in results {
        accepted_all.extend(acc);
        rep.evaluations += evals;
        ncases += n;
        for h in nontrivial {
            rep.nontrivial_hash(h);
        }
        for v in viols {
            rep.violation(v);
        }
    }
    rep.set("graphs", json!(graphs.len()));
    rep.set("queries_from_grammar", json!(queries.len()));
    rep.set("graph_query_language_cases", json!(ncases));
    rep.set("hand_written_shapes_accepted_by_translator_and_binder", json!(accepted_all));
    rep.sample(json!({"graph": graphs[graphs.len() / 2].pretty(), "query": render(&queries[queries.len() / 2], Lang::Gql)}));
    rep.sample(json!({"join_query": joins[0].1}));
    rep.assumptions.push("where a query has SKIP/LIMIT without a total order on that graph, only the number of rows is compared (which rows fall into the window is not determined)".into());
    let _: Option<J> = None;
    rep.finish()
}

fn dense_graph() -> QGraph {
    let mut txt = String::from("(0:A{p:1,s:x}) (1:B{p:1}) (2:A:B{p:2})");
    for a in 0..3 {
        for b in 0..3 {
            txt.push_str(&format!(" {a}-[K]->{b}"));
            if a != b {
                txt.push_str(&format!(" {a}-[L]->{b}"));
            }
        }
    }
    QGraph::parse_pretty(&txt).unwrap_or_default()
}

/// A database holding only the first node of `g`: statistics computed here are stale for `g`.
fn stale_db(g: &QGraph) -> GrafeoDB {
    let mut small = QGraph::default();
    if let Some(n) = g.nodes.first() {
        small.nodes.push(n.clone());
    }
    load(&small).0
}
