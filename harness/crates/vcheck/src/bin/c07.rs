//! C07 — snapshot export/import, save and in-memory copy preserve the whole graph (DESIGN.md §3/C07).
//!
//! Positive half (engine SEQ generator): every history of depth <= 3/4 over a mutation alphabet is run on an
//! in-memory GrafeoDB; for each resulting database every copy path (import(export), save+open,
//! to_memory, save+open_in_memory) must yield a dump equal to the source's, leave the source
//! unchanged, export must be byte-identical when repeated, and the copy must hand out fresh ids.
//! Negative half (engine ENUM, in a sacrificial child process): EVERY truncation and EVERY single-bit
//! flip of valid snapshots is offered to import_snapshot: Ok or Err, never a panic / abort; an Ok
//! result passes validate() and round-trips.

use grafeo_common::types::{EdgeId, NodeId, PropertyKey, Timestamp, Value};
use grafeo_engine::GrafeoDB;
use serde_json::{Value as J, json};
use std::collections::BTreeMap;
use std::sync::Arc;
use vcore::{Report, Violation};

fn main() {
    let args = vcheck::entry();
    if args.rest.first().map(|s| s.as_str()) == Some("--worker") {
        worker(&args.rest[1..]);
        return;
    }
    std::process::exit(run(args));
}

// ---------------------------------------------------------------------------
// alphabet
// ---------------------------------------------------------------------------

const LETTERS: [&str; 13] = ["node", "node_all_types", "edge", "self_loop", "delete_node", "delete_edge", "set_q", "remove_q", "add_label", "remove_label", "tx_commit", "tx_rollback", "bulk8"];

fn all_type_props() -> Vec<(&'static str, Value)> {
    let mut m = BTreeMap::new();
    m.insert(PropertyKey::new("k"), Value::List(Arc::from(vec![Value::Int64(1), Value::Null])));
    vec![
        ("p_null", Value::Null),
        ("p_bool", Value::Bool(true)),
        ("p_int", Value::Int64(i64::MIN)),
        ("p_float", Value::Float64(-0.0)),
        ("p_nan", Value::Float64(f64::from_bits(0x7ff8_0000_0000_0001))),
        ("p_str", Value::String("".into())),
        ("p_str2", Value::String("é\u{0}".into())),
        ("p_bytes", Value::Bytes(Arc::from(vec![0u8, 255]))),
        ("p_ts", Value::Timestamp(Timestamp::MIN)),
        ("p_list", Value::List(Arc::from(Vec::<Value>::new()))),
        ("p_map", Value::Map(Arc::new(m))),
        ("p_vec", Value::Vector(Arc::from(Vec::<f32>::new()))),
        ("p_vec2", Value::Vector(Arc::from(vec![f32::NAN, -0.0]))),
    ]
}

fn show(v: &Value) -> String {
    match v {
        Value::Float64(f) => format!("F{:#x}", f.to_bits()),
        Value::Vector(x) => format!("V{:?}", x.iter().map(|f| f.to_bits()).collect::<Vec<_>>()),
        Value::List(l) => format!("L[{}]", l.iter().map(show).collect::<Vec<_>>().join(",")),
        Value::Map(m) => format!("M{{{}}}", m.iter().map(|(k, v)| format!("{}:{}", k.as_str(), show(v))).collect::<Vec<_>>().join(",")),
        o => format!("{o:?}"),
    }
}

struct Built {
    db: GrafeoDB,
    max_node: u64,
    max_edge: u64,
    had_tx: bool,
}

fn first_live_node(db: &GrafeoDB, max: u64) -> Option<NodeId> {
    let s = db.session();
    (0..max).map(NodeId::new).find(|id| s.get_node(*id).is_some())
}
fn last_live_node(db: &GrafeoDB, max: u64) -> Option<NodeId> {
    let s = db.session();
    (0..max).rev().map(NodeId::new).find(|id| s.get_node(*id).is_some())
}
fn first_live_edge(db: &GrafeoDB, max: u64) -> Option<EdgeId> {
    let s = db.session();
    (0..max).map(EdgeId::new).find(|id| s.get_edge(*id).is_some())
}

fn build(hist: &[usize]) -> Built {
    let db = GrafeoDB::new_in_memory();
    let mut b = Built { db, max_node: 0, max_edge: 0, had_tx: false };
    for &l in hist {
        let db = &b.db;
        match LETTERS[l] {
            "node" => {
                db.create_node(&["A"]);
                b.max_node += 1;
            }
            "node_all_types" => {
                db.create_node_with_props(&["A", "B"], all_type_props());
                b.max_node += 1;
            }
            "edge" => {
                if let (Some(x), Some(y)) = (first_live_node(db, b.max_node), last_live_node(db, b.max_node)) {
                    db.create_edge_with_props(x, y, "K", [("w", Value::Float64(1.5)), ("t", Value::String("x".into()))]);
                    b.max_edge += 1;
                }
            }
            "self_loop" => {
                if let Some(x) = last_live_node(db, b.max_node) {
                    db.create_edge(x, x, "L");
                    b.max_edge += 1;
                }
            }
            "delete_node" => {
                if let Some(x) = first_live_node(db, b.max_node) {
                    db.delete_node(x);
                }
            }
            "delete_edge" => {
                if let Some(e) = first_live_edge(db, b.max_edge) {
                    db.delete_edge(e);
                }
            }
            "set_q" => {
                if let Some(x) = first_live_node(db, b.max_node) {
                    db.set_node_property(x, "q", Value::Int64(7));
                }
            }
            "remove_q" => {
                if let Some(x) = first_live_node(db, b.max_node) {
                    db.remove_node_property(x, "q");
                }
            }
            "add_label" => {
                if let Some(x) = first_live_node(db, b.max_node) {
                    db.add_node_label(x, "C");
                }
            }
            "remove_label" => {
                if let Some(x) = first_live_node(db, b.max_node) {
                    db.remove_node_label(x, "A");
                }
            }
            "bulk8" => {
                // enough entities for hash-map iteration order to differ from id order
                let first = b.max_node;
                for i in 0..8u64 {
                    db.create_node_with_props(&["A"], [("i", Value::Int64((first + i) as i64))]);
                }
                b.max_node += 8;
                for i in 0..8u64 {
                    db.create_edge(NodeId::new(first + i), NodeId::new(first + (i * 3 + 1) % 8), "K");
                }
                b.max_edge += 8;
            }
            "tx_commit" => {
                let mut s = db.session();
                let _ = s.begin_tx();
                let _ = s.execute("INSERT (:T {name: 't'})");
                let _ = s.commit();
                b.max_node += 1;
                b.had_tx = true;
            }
            "tx_rollback" => {
                let mut s = db.session();
                let _ = s.begin_tx();
                let _ = s.execute("INSERT (:R {name: 'r'})");
                let _ = s.rollback();
                b.max_node += 1;
                b.had_tx = true;
            }
            _ => unreachable!(),
        }
    }
    b
}

/// Dump through versioned point lookups of a fresh session (sees every committed entity whatever epoch it was created at).
fn dump(db: &GrafeoDB, max_node: u64, max_edge: u64) -> Vec<String> {
    let s = db.session();
    let mut out = vec![];
    for id in 0..max_node + 2 {
        if let Some(n) = s.get_node(NodeId::new(id)) {
            let mut labels: Vec<String> = n.labels.iter().map(|l| l.to_string()).collect();
            labels.sort();
            let props: Vec<String> = n.properties.iter().map(|(k, v)| format!("{}={}", k.as_str(), show(v))).collect();
            out.push(format!("N{id}{labels:?}{props:?}"));
            // adjacency in both directions is part of "observably equal" (incoming lists come from a separate index)
            let mut o: Vec<(u64, u64)> = s.get_neighbors_outgoing(NodeId::new(id)).iter().map(|(n, e)| (n.as_u64(), e.as_u64())).collect();
            o.sort();
            let mut i: Vec<(u64, u64)> = s.get_neighbors_incoming(NodeId::new(id)).iter().map(|(n, e)| (n.as_u64(), e.as_u64())).collect();
            i.sort();
            let (dout, din) = s.get_degree(NodeId::new(id));
            out.push(format!("A{id}:out{o:?}:in{i:?}:deg{dout}/{din}"));
        }
    }
    for id in 0..max_edge + 2 {
        if let Some(e) = s.get_edge(EdgeId::new(id)) {
            let props: Vec<String> = e.properties.iter().map(|(k, v)| format!("{}={}", k.as_str(), show(v))).collect();
            out.push(format!("E{id}:{}>{}:{}{props:?}", e.src.as_u64(), e.dst.as_u64(), e.edge_type));
        }
    }
    out
}

fn answers(db: &GrafeoDB) -> Vec<String> {
    let s = db.session();
    let mut out = vec![];
    for q in ["MATCH (n:A) RETURN n.q", "MATCH (n) RETURN COUNT(n)", "MATCH (x)-[:K]->(y) RETURN COUNT(x)", "MATCH (n:T) RETURN n.name", "MATCH (x)-[e]->(y) RETURN COUNT(e)"] {
        let r = match s.execute(q) {
            Ok(r) => {
                let mut rows: Vec<String> = r.rows.iter().map(|r| r.iter().map(show).collect::<Vec<_>>().join(",")).collect();
                rows.sort();
                format!("{rows:?}")
            }
            Err(_) => "ERR".to_string(),
        };
        out.push(format!("{q} => {r}"));
    }
    out
}

fn check_history(hist: &[usize], scratch: &std::path::Path, idx: usize, disk: bool) -> (Vec<Violation>, bool, Vec<u8>) {
    let mut out = vec![];
    let case = json!({"engine": "SEQ/copy", "history": hist.iter().map(|l| LETTERS[*l]).collect::<Vec<_>>()});
    let b = build(hist);
    let (mn, me) = (b.max_node, b.max_edge);
    let feat = if b.had_tx { "after-session-transaction" } else { "api-only" };
    let truth = dump(&b.db, mn, me);
    let truth_answers = answers(&b.db);
    let mut v = |path: &str, kind: &str, detail: String| {
        out.push(Violation::new(&[("layer", "copy"), ("path", path), ("kind", kind), ("feature", feat)], case.clone(), detail));
    };
    // --- export / import
    let bytes = match vcore::catch(|| b.db.export_snapshot()) {
        Ok(Ok(x)) => x,
        Ok(Err(e)) => {
            v("export", "export-error", format!("export_snapshot failed: {e}"));
            return (out, !truth.is_empty(), vec![]);
        }
        Err(p) => {
            v("export", "panic", format!("export_snapshot panicked: {p}"));
            return (out, !truth.is_empty(), vec![]);
        }
    };
    let bytes2 = b.db.export_snapshot().unwrap_or_default();
    if bytes != bytes2 {
        v("export", "export-not-deterministic", "two exports of the same database differ".into());
    }
    let diff = |a: &[String], b: &[String]| -> String {
        let missing: Vec<&String> = a.iter().filter(|x| !b.contains(x)).collect();
        let extra: Vec<&String> = b.iter().filter(|x| !a.contains(x)).collect();
        format!("missing in copy: {missing:?}; extra in copy: {extra:?}")
    };
    let kind_of = |a: &[String], b: &[String]| -> &'static str {
        let missing = a.iter().filter(|x| !b.contains(x)).count();
        let extra = b.iter().filter(|x| !a.contains(x)).count();
        if missing > 0 && extra == 0 { "copy-misses-entities" } else if extra > 0 && missing == 0 { "copy-has-extra-entities" } else { "copy-differs" }
    };
    match vcore::catch(|| GrafeoDB::import_snapshot(&bytes)) {
        Ok(Ok(copy)) => {
            let d = dump(&copy, mn, me);
            if d != truth {
                v("import(export)", kind_of(&truth, &d), diff(&truth, &d));
            }
            let a = answers(&copy);
            if a != truth_answers && d == truth {
                v("import(export)", "query-answers-differ", format!("source {truth_answers:?} vs copy {a:?}"));
            }
        }
        Ok(Err(e)) => v("import(export)", "import-error-on-valid-snapshot", format!("{e}")),
        Err(p) => v("import(export)", "panic", p),
    }
    // --- to_memory
    match vcore::catch(|| b.db.to_memory()) {
        Ok(Ok(copy)) => {
            let d = dump(&copy, mn, me);
            if d != truth {
                v("to_memory", kind_of(&truth, &d), diff(&truth, &d));
            }
        }
        Ok(Err(e)) => v("to_memory", "copy-error", format!("{e}")),
        Err(p) => v("to_memory", "panic", p),
    }
    // --- save + open (+ fresh ids) and open_in_memory
    let dir = scratch.join(format!("s{idx}"));
    let _ = std::fs::remove_dir_all(&dir);
    if disk {
    match vcore::catch(|| b.db.save(&dir)) {
        Ok(Ok(())) => {
            match vcore::catch(|| GrafeoDB::open(&dir)) {
                Ok(Ok(copy)) => {
                    let d = dump(&copy, mn, me);
                    if d != truth {
                        v("save+open", kind_of(&truth, &d), diff(&truth, &d));
                    } else {
                        // identifiers handed out by the copy must be fresh and must not disturb existing entities
                        let nid = copy.create_node(&["FRESH"]);
                        let d2 = dump(&copy, mn.max(nid.as_u64() + 1), me);
                        let old_kept = truth.iter().filter(|x| !x.starts_with('A')).all(|x| d2.contains(x));
                        if !old_kept {
                            v("save+open", "id-collision-after-reopen", format!("create_node on the reopened copy returned {nid:?}; {}", diff(&truth, &d2)));
                        }
                        if let (Some(x), Some(y)) = (first_live_node(&copy, mn + 2), last_live_node(&copy, mn + 2)) {
                            let eid = copy.create_edge(x, y, "FRESH");
                            let d3 = dump(&copy, mn + 2, me.max(eid.as_u64() + 1));
                            if !truth.iter().filter(|x| !x.starts_with('A')).all(|x| d3.contains(x)) {
                                v("save+open", "id-collision-after-reopen", format!("create_edge on the reopened copy returned {eid:?}; {}", diff(&truth, &d3)));
                            }
                        }
                    }
                    let _ = copy.close();
                }
                Ok(Err(e)) => v("save+open", "open-error", format!("{e}")),
                Err(p) => v("save+open", "panic", p),
            }
            match vcore::catch(|| GrafeoDB::open_in_memory(&dir)) {
                Ok(Ok(copy)) => {
                    let d = dump(&copy, mn + 2, me + 2);
                    // the directory now also holds the FRESH entities created above; the original ones must all be there
                    if !truth.iter().filter(|x| !x.starts_with('A')).all(|x| d.contains(x)) {
                        v("open_in_memory", kind_of(&truth, &d), diff(&truth, &d));
                    }
                }
                Ok(Err(e)) => v("open_in_memory", "open-error", format!("{e}")),
                Err(p) => v("open_in_memory", "panic", p),
            }
        }
        Ok(Err(e)) => v("save", "copy-error", format!("{e}")),
        Err(p) => v("save", "panic", p),
    }
    }
    let _ = std::fs::remove_dir_all(&dir);
    // --- source unchanged
    let after = dump(&b.db, mn, me);
    if after != truth {
        v("source", "source-changed", diff(&truth, &after));
    }
    (out, !truth.is_empty(), bytes)
}

// ---------------------------------------------------------------------------
// negative half: worker process
// ---------------------------------------------------------------------------

/// `--worker <snapshot-file> <progress-file> <start> <end> <out-file>`: cases start..end; case i < len*8 is a bit flip,
/// the rest are truncations.  Writes the index about to run into <progress-file>, appends findings to <out-file>.
fn worker(a: &[String]) {
    let bytes = std::fs::read(&a[0]).expect("snapshot file");
    let (start, end): (usize, usize) = (a[2].parse().unwrap(), a[3].parse().unwrap());
    let mut findings = vec![];
    let mut oks = 0u64;
    for i in start..end {
        let _ = std::fs::write(&a[1], i.to_string());
        let input = mutate(&bytes, i);
        match vcore::catch(|| GrafeoDB::import_snapshot(&input)) {
            Err(p) => findings.push(json!({"i": i, "kind": "panic", "detail": p})),
            Ok(Err(_)) => {}
            Ok(Ok(db)) => {
                oks += 1;
                // an accepted input must be a well-formed database: export again and re-import to the same dump
                let r = vcore::catch(|| {
                    let d1 = dump(&db, 40, 40);
                    let again = db.export_snapshot().map_err(|e| e.to_string())?;
                    let db2 = GrafeoDB::import_snapshot(&again).map_err(|e| e.to_string())?;
                    if dump(&db2, 40, 40) != d1 {
                        return Err("accepted snapshot does not round-trip".to_string());
                    }
                    Ok::<(), String>(())
                });
                match r {
                    Err(p) => findings.push(json!({"i": i, "kind": "panic-after-accept", "detail": p})),
                    Ok(Err(e)) => findings.push(json!({"i": i, "kind": "accepted-but-inconsistent", "detail": e})),
                    Ok(Ok(())) => {}
                }
            }
        }
    }
    let _ = std::fs::write(&a[4], serde_json::to_string(&json!({"findings": findings, "accepted": oks})).unwrap());
    let _ = std::fs::write(&a[1], "done");
}

fn mutate(bytes: &[u8], i: usize) -> Vec<u8> {
    let nflips = bytes.len() * 8;
    if i < nflips {
        let mut v = bytes.to_vec();
        v[i / 8] ^= 1 << (i % 8);
        v
    } else {
        bytes[..(i - nflips).min(bytes.len())].to_vec()
    }
}
fn case_class(bytes_len: usize, i: usize) -> &'static str {
    if i < bytes_len * 8 { "bit-flip" } else { "truncation" }
}

fn negative_sweep(snap: &[u8], tag: &str, scratch: &std::path::Path, rep: &mut Report) {
    let total = snap.len() * 8 + snap.len(); // all bit flips + all strict truncations
    let file = scratch.join(format!("{tag}.snap"));
    std::fs::write(&file, snap).unwrap();
    let exe = std::env::current_exe().unwrap();
    let workers = vcore::cores().min(16);
    let chunk = total.div_ceil(workers);
    let ranges: Vec<(usize, usize)> = (0..workers).map(|w| (w * chunk, ((w + 1) * chunk).min(total))).filter(|r| r.0 < r.1).collect();
    let results = vcore::par_map(&ranges, workers, |w, (s0, e0)| {
        let mut s = *s0;
        let mut found: Vec<J> = vec![];
        let mut accepted = 0u64;
        let mut aborts: Vec<(usize, String)> = vec![];
        while s < *e0 {
            let prog = scratch.join(format!("{tag}.{w}.progress"));
            let outf = scratch.join(format!("{tag}.{w}.out"));
            let _ = std::fs::remove_file(&outf);
            // address-space cap so that a corrupt length prefix cannot take the machine down
            let cmd = format!("ulimit -v 8000000; exec {} --worker {} {} {} {} {}", exe.display(), file.display(), prog.display(), s, e0, outf.display());
            let st = std::process::Command::new("sh").arg("-c").arg(&cmd).stdout(std::process::Stdio::null()).stderr(std::process::Stdio::null()).status();
            let progress = std::fs::read_to_string(&prog).unwrap_or_default();
            if let Ok(txt) = std::fs::read_to_string(&outf) {
                if let Ok(j) = serde_json::from_str::<J>(&txt) {
                    found.extend(j["findings"].as_array().cloned().unwrap_or_default());
                    accepted += j["accepted"].as_u64().unwrap_or(0);
                }
            }
            if progress == "done" {
                break;
            }
            // the child died at index `progress`
            let at: usize = progress.trim().parse().unwrap_or(s);
            aborts.push((at, format!("child exit status {st:?}")));
            s = at + 1;
        }
        (found, accepted, aborts)
    });
    for (found, accepted, aborts) in results {
        rep.add("negative_inputs_accepted_as_valid", accepted);
        for f in found {
            let i = f["i"].as_u64().unwrap_or(0) as usize;
            let kind = f["kind"].as_str().unwrap_or("?").to_string();
            let detail = f["detail"].as_str().unwrap_or("").to_string();
            let norm: String = detail.chars().map(|c| if c.is_ascii_digit() { '#' } else { c }).take(70).collect();
            rep.violation(Violation::new(&[("layer", "import"), ("kind", &kind), ("class", case_class(snap.len(), i)), ("msg", &norm)], json!({"engine": "ENUM/import", "snapshot": tag, "snapshot_hex": hex(snap), "case_index": i}), format!("import_snapshot on {} #{i} of snapshot {tag}: {detail}", case_class(snap.len(), i))));
        }
        for (i, st) in aborts {
            rep.violation(Violation::new(&[("layer", "import"), ("kind", "abort-or-kill"), ("class", case_class(snap.len(), i))], json!({"engine": "ENUM/import", "snapshot": tag, "snapshot_hex": hex(snap), "case_index": i}), format!("the process importing {} #{i} of snapshot {tag} died: {st}", case_class(snap.len(), i))));
        }
    }
    rep.evaluations += total as u64;
    rep.add("negative_inputs", total as u64);
}

fn hex(b: &[u8]) -> String {
    b.iter().map(|x| format!("{x:02x}")).collect()
}
fn unhex(s: &str) -> Vec<u8> {
    (0..s.len() / 2).filter_map(|i| u8::from_str_radix(&s[2 * i..2 * i + 2], 16).ok()).collect()
}

fn run(args: vcore::Args) -> i32 {
    let scratch = vcore::scratch_dir("c07");
    if let Some(p) = args.replay.as_deref() {
        let case = vcore::read_replay_case(p);
        let viols = if case["engine"] == "ENUM/import" {
            let snap = unhex(case["snapshot_hex"].as_str().unwrap_or(""));
            let i = case["case_index"].as_u64().unwrap_or(0) as usize;
            let input = mutate(&snap, i);
            // replay in-process (a genuine abort takes this process down, which is the reproduction)
            match vcore::catch(|| GrafeoDB::import_snapshot(&input).map(|_| ())) {
                Err(pn) => vec![Violation::new(&[("layer", "import"), ("kind", "panic")], case.clone(), pn)],
                _ => vec![],
            }
        } else {
            let hist: Vec<usize> = case["history"].as_array().map(|a| a.iter().filter_map(|x| x.as_str()).filter_map(|n| LETTERS.iter().position(|l| *l == n)).collect()).unwrap_or_default();
            let (a, _, _) = check_history(&hist, &scratch, 0, true);
            let (b, _, _) = check_history(&hist, &scratch, 1, true);
            if a.iter().map(|v| v.sig_string()).collect::<Vec<_>>() != b.iter().map(|v| v.sig_string()).collect::<Vec<_>>() {
                vcore::machinery_failure("replaying the same history twice gave different observations");
            }
            a
        };
        let _ = std::fs::remove_dir_all(&scratch);
        return vcheck::replay_report("C07", viols);
    }
    let tier = args.tier;
    let mut rep = Report::new("C07", tier, "exploration");
    rep.rule = "positive: every history of depth <= bound over a 12-letter mutation alphabet (all value types, edges, self-loops, deletes, label/property changes, committed and rolled-back session transactions) x 4 copy paths, dump compared through versioned point lookups; negative: every single-bit flip and every truncation of valid snapshots through import_snapshot in a child process; distinct non-trivial = histories whose database is non-empty".into();
    let depth = tier.pick(3, 4);
    let mut hists: Vec<Vec<usize>> = vec![];
    for d in 0..=depth {
        hists.extend(vcore::sequences(LETTERS.len(), d));
    }
    // quick tier: the disk paths (save/open/open_in_memory fsync every record) run for all histories of depth <= 2 and for the
    // depth-3 histories whose first two letters create entities; the thorough tier runs them for every history
    let creators: Vec<usize> = ["node", "node_all_types", "tx_commit", "bulk8"].iter().filter_map(|n| LETTERS.iter().position(|l| l == n)).collect();
    let disk_for = |h: &Vec<usize>| tier == vcore::Tier::Thorough || h.len() <= 2 || (creators.contains(&h[0]) && creators.contains(&h[1]));
    let n_disk = hists.iter().filter(|h| disk_for(h)).count();
    let results = vcore::par_map(&hists, vcore::cores(), |i, h| check_history(h, &scratch, i, disk_for(h)));
    rep.set("histories_with_disk_paths", json!(n_disk));
    let mut snaps: Vec<(String, Vec<u8>)> = vec![];
    for (h, (viols, nontrivial, bytes)) in hists.iter().zip(results) {
        rep.evaluations += 1;
        if nontrivial {
            rep.nontrivial(h);
        }
        if rep.evaluations % 211 == 7 {
            rep.sample(json!(h.iter().map(|l| LETTERS[*l]).collect::<Vec<_>>()));
        }
        for v in viols {
            rep.violation(v);
        }
        // three snapshots for the negative half: smallest non-empty, one with all value types + edge, one after a transaction
        let names: Vec<&str> = h.iter().map(|l| LETTERS[*l]).collect();
        if names == ["node"] || names == ["node_all_types", "edge"] || names == ["node", "node", "edge"] {
            snaps.push((names.join("+"), bytes));
        }
    }
    eprintln!("positive half: {} histories in {:.1}s", hists.len(), rep.elapsed_s());
    rep.set("positive_histories", json!(hists.len()));
    rep.set("depth", json!(depth));
    let take = tier.pick(2, 3);
    for (tag, snap) in snaps.iter().take(take) {
        let t = tag.replace('+', "_");
        let t0 = rep.elapsed_s();
        negative_sweep(snap, &t, &scratch, &mut rep);
        eprintln!("negative sweep {tag}: {} bytes in {:.1}s", snap.len(), rep.elapsed_s() - t0);
        rep.sample(json!({"negative_snapshot": tag, "bytes": snap.len()}));
    }
    let _ = std::fs::remove_dir_all(&scratch);
    rep.assumptions.push("'export is deterministic' is checked as: exporting the same database twice yields identical bytes (byte order across two equal databases follows hash-map iteration order and is not compared)".into());
    rep.finish()
}
