//! C11 — query results obey the algebra of predicates, limits and aggregates (DESIGN.md §3/C11).
//!
//! Engine ENUM, metamorphic and model-free: for every small graph x base query Q x predicate p x language the
//! engine's own answers must satisfy
//!   (1) rows(Q) = rows(Q AND p) + rows(Q AND NOT(p)) + rows(Q AND (p IS NULL))     [multisets]
//!   (2) COUNT over Q = number of rows of Q
//!   (3) DISTINCT Q = support of rows(Q)
//!   (4) ORDER BY k SKIP s LIMIT n = rows s..s+n of the fully ordered result; without ORDER BY, over Q and every
//!       Q WHERE p: SKIP s LIMIT n has min(n, max(0, |Q|-s)) rows, all of them rows of Q
//!   (5) Q1 UNION ALL Q2 = concatenation of rows(Q1) and rows(Q2)
//! and the same identities hold on line graphs of 2047 / 2048 / 2049 / 4097 nodes (scan, limit, distinct and
//! aggregate state is carried across 2048-row chunks).

use grafeo_common::types::Value;
use grafeo_engine::GrafeoDB;
use serde_json::json;
use std::collections::BTreeMap;
use vcheck::qmodel::*;
use vcore::{Report, Violation};

fn main() {
    std::process::exit(run(vcheck::entry()));
}

const BASES: [(&str, &str, &str); 6] = [
    ("node", "MATCH (x)", "x.p, x.s"),
    ("node-label", "MATCH (x:A)", "x.p, x.s"),
    ("1hop-out", "MATCH (x)-[e:K]->(y)", "x.p, y.p"),
    ("1hop-undirected", "MATCH (x)-[e]-(y)", "x.p, y.s"),
    ("2hop-out", "MATCH (x)-[e]->(y)-[f]->(z)", "x.p, z.p"),
    ("node-ids", "MATCH (x)", "x"),
];
const PREDS: [(&str, &str); 15] = [
    ("eq", "x.p = 1"),
    ("gt", "x.p > 1"),
    ("ne", "x.p <> 2"),
    ("string-eq", "x.s = 'x'"),
    ("and", "x.p = 1 AND x.s = 'x'"),
    ("or", "x.p = 1 OR x.s = 'x'"),
    ("arith", "x.p + 1 > 2"),
    ("missing-property", "x.zz = 1"),
    ("starts-with", "x.s STARTS WITH 'x'"),
    ("in-list", "x.p IN [1, 2]"),
    ("prop-vs-prop", "x.p = x.p"),
    ("not-inside", "NOT (x.p = 2)"),
    ("range", "x.p >= 1 AND x.p < 2"),
    ("range-upper-first", "x.p < 2 AND x.p >= 1"),
    ("range-upper-first-inclusive", "x.p <= 2 AND x.p > 1"),
];

type Rows = Vec<Vec<Value>>;
fn ms(rows: &Rows) -> BTreeMap<Vec<CVal>, usize> {
    multiset(&canon_rows(rows))
}
fn add(a: &mut BTreeMap<Vec<CVal>, usize>, b: BTreeMap<Vec<CVal>, usize>) {
    for (k, n) in b {
        *a.entry(k).or_insert(0) += n;
    }
}
fn q(db: &GrafeoDB, lang: Lang, text: &str) -> Result<Rows, String> {
    match vcore::catch(|| run_query(db, lang, text)) {
        Ok(r) => r,
        Err(p) => Err(format!("PANIC: {p}")),
    }
}

struct Ctx<'a> {
    db: &'a GrafeoDB,
    graph: serde_json::Value,
    gfeat: &'static str,
    viols: Vec<Violation>,
    evals: u64,
    rejected: u64,
    nontrivial: Vec<u64>,
}

impl Ctx<'_> {
    fn v(&mut self, lang: Lang, identity: &str, base: &str, feature: &str, kind: &str, texts: &[&str], detail: String) {
        self.viols.push(Violation::new(
            &[("layer", "algebra"), ("identity", identity), ("lang", lang.name()), ("base", base), ("feature", feature), ("kind", kind), ("graph", self.gfeat)],
            json!({"engine": "ENUM/algebra", "graph": self.graph, "lang": lang.name(), "identity": identity, "queries": texts}),
            format!("{identity} [{}] {}: {detail}", lang.name(), texts.join("  ||  ")),
        ));
    }

    fn identities(&mut self, lang: Lang) {
        for (bname, pat, ret) in BASES {
            let base_text = format!("{pat} RETURN {ret}");
            self.evals += 1;
            let Ok(base) = q(self.db, lang, &base_text) else {
                self.rejected += 1;
                continue;
            };
            if !base.is_empty() {
                self.nontrivial.push(vcore::hash_of(&(self.graph.to_string(), lang.name(), bname)));
            }
            let base_ms = ms(&base);
            // (1) three-way partition
            for (pname, p) in PREDS {
                let t_true = format!("{pat} WHERE {p} RETURN {ret}");
                let t_false = format!("{pat} WHERE NOT ({p}) RETURN {ret}");
                let t_null = format!("{pat} WHERE ({p}) IS NULL RETURN {ret}");
                let (rt, rf, rn) = (q(self.db, lang, &t_true), q(self.db, lang, &t_false), q(self.db, lang, &t_null));
                self.evals += 3;
                match (rt, rf, rn) {
                    (Ok(a), Ok(b), Ok(c)) => {
                        let mut sum = ms(&a);
                        add(&mut sum, ms(&b));
                        add(&mut sum, ms(&c));
                        if sum != base_ms {
                            let lost = base_ms.iter().any(|(k, n)| sum.get(k).copied().unwrap_or(0) < *n);
                            let kind = if lost { "rows-in-no-part" } else { "rows-in-two-parts" };
                            self.v(lang, "partition", bname, pname, kind, &[&base_text, &t_true, &t_false, &t_null], format!("|Q| = {}, |p| = {}, |NOT p| = {}, |p IS NULL| = {}", base.len(), a.len(), b.len(), c.len()));
                        }
                    }
                    (Ok(a), Ok(b), Err(_)) => {
                        // no IS NULL in this front end: the two decided parts must at least fit into Q
                        let mut sum = ms(&a);
                        add(&mut sum, ms(&b));
                        if sum.iter().any(|(k, n)| base_ms.get(k).copied().unwrap_or(0) < *n) {
                            self.v(lang, "partition", bname, pname, "rows-in-two-parts", &[&base_text, &t_true, &t_false], format!("|Q| = {}, |p| = {}, |NOT p| = {}", base.len(), a.len(), b.len()));
                        }
                        self.rejected += 1;
                    }
                    _ => self.rejected += 1,
                }
            }
            // (2) count
            let first_var = "x";
            let t_count = format!("{pat} RETURN COUNT({first_var})");
            self.evals += 1;
            match q(self.db, lang, &t_count) {
                Ok(r) => {
                    let got = r.first().and_then(|row| row.first()).and_then(|v| if let Value::Int64(i) = v { Some(*i as usize) } else { None });
                    if got != Some(base.len()) || r.len() != 1 {
                        self.v(lang, "count", bname, "-", "count-differs-from-rows", &[&base_text, &t_count], format!("COUNT = {r:?}, rows = {}", base.len()));
                    }
                }
                Err(_) => self.rejected += 1,
            }
            // (3) distinct
            let t_dist = format!("{pat} RETURN DISTINCT {ret}");
            self.evals += 1;
            match q(self.db, lang, &t_dist) {
                Ok(r) => {
                    let d = ms(&r);
                    let support: BTreeMap<Vec<CVal>, usize> = base_ms.keys().map(|k| (k.clone(), 1)).collect();
                    if d != support {
                        let kind = if d.values().any(|n| *n > 1) { "duplicates-kept" } else if d.len() < support.len() { "rows-lost" } else { "rows-invented" };
                        self.v(lang, "distinct", bname, "-", kind, &[&base_text, &t_dist], format!("DISTINCT returned {} rows for a support of {}", r.len(), support.len()));
                    }
                }
                Err(_) => self.rejected += 1,
            }
            // (4) window = slice of the ordered result (key x.p; compared on the key column, so ties do not matter)
            if ret.starts_with("x.p") {
                let t_ord = format!("{pat} RETURN {ret} ORDER BY x.p");
                self.evals += 1;
                if let Ok(full) = q(self.db, lang, &t_ord) {
                    let keys: Vec<CVal> = canon_rows(&full).into_iter().map(|r| r[0].clone()).collect();
                    let len = full.len();
                    if ms(&full) != base_ms {
                        self.v(lang, "order-by", bname, "-", "order-by-changes-rows", &[&base_text, &t_ord], format!("{} rows vs {}", full.len(), base.len()));
                    }
                    for s in [0usize, 1, 2, len.saturating_sub(1), len, len + 1] {
                        for n in [0usize, 1, 2, len.saturating_sub(1), len, len + 1] {
                            let t_win = format!("{pat} RETURN {ret} ORDER BY x.p SKIP {s} LIMIT {n}");
                            self.evals += 1;
                            match q(self.db, lang, &t_win) {
                                Ok(w) => {
                                    let wk: Vec<CVal> = canon_rows(&w).into_iter().map(|r| r[0].clone()).collect();
                                    let want: Vec<CVal> = keys.iter().skip(s).take(n).cloned().collect();
                                    if wk != want {
                                        let kind = if wk.len() != want.len() { "window-size" } else { "window-content" };
                                        let feat = if s >= len { "skip-beyond-end" } else if n == 0 { "limit-0" } else if s + n > len { "window-past-end" } else { "inner-window" };
                                        self.v(lang, "window", bname, feat, kind, &[&t_ord, &t_win], format!("SKIP {s} LIMIT {n} over {len} ordered rows: keys {wk:?}, expected {want:?}"));
                                    }
                                }
                                Err(_) => self.rejected += 1,
                            }
                        }
                    }
                } else {
                    self.rejected += 1;
                }
            }
            // (4b) windows without ORDER BY, over Q and over every Q WHERE p: whatever order the engine produces,
            // SKIP s LIMIT n has min(n, max(0, |Q| - s)) rows and every one of them is a row of Q (on the line graphs
            // s and n also sit on the 2048-row chunk boundaries and on the boundaries of the filtered chunks)
            let mut filters: Vec<(&str, String)> = vec![("unfiltered", String::new())];
            for (_, p) in PREDS {
                filters.push(("filtered", format!(" WHERE {p}")));
            }
            for (fname, wh) in &filters {
                let t_q = format!("{pat}{wh} RETURN {ret}");
                self.evals += 1;
                let Ok(full) = q(self.db, lang, &t_q) else {
                    self.rejected += 1;
                    continue;
                };
                let (len, full_ms) = (full.len(), ms(&full));
                let mut vals: Vec<usize> = vec![0, 1, 2, len.saturating_sub(1), len, len + 1];
                if len > 256 {
                    vals.extend([len / 2, 1023, 1024, 1025, 2047, 2048, 2049]);
                }
                vals.sort_unstable();
                vals.dedup();
                let mut windows: Vec<(Option<usize>, Option<usize>)> = vec![];
                for &v in &vals {
                    windows.push((Some(v), None));
                    windows.push((None, Some(v)));
                    windows.push((Some(v), Some(1)));
                    windows.push((Some(v), Some(len)));
                }
                for (sk, li) in windows {
                    let t_win = format!("{t_q}{}{}", sk.map(|s| format!(" SKIP {s}")).unwrap_or_default(), li.map(|n| format!(" LIMIT {n}")).unwrap_or_default());
                    self.evals += 1;
                    match q(self.db, lang, &t_win) {
                        Ok(w) => {
                            let (s, n) = (sk.unwrap_or(0), li.unwrap_or(usize::MAX));
                            let want = len.saturating_sub(s).min(n);
                            let wm = ms(&w);
                            let foreign = wm.iter().any(|(k, c)| full_ms.get(k).copied().unwrap_or(0) < *c);
                            if w.len() != want || foreign {
                                let kind = if w.len() != want { "window-size" } else { "rows-not-from-Q" };
                                let feat = if s >= len && len > 0 { "skip-beyond-end" } else if n == 0 { "limit-0" } else if s.saturating_add(n) > len { "window-past-end" } else { "inner-window" };
                                self.v(lang, "window-unordered", bname, &format!("{fname}/{feat}"), kind, &[&t_q, &t_win], format!("{} rows for SKIP {sk:?} LIMIT {li:?} over {len} rows, expected {want}", w.len()));
                            }
                        }
                        Err(_) => self.rejected += 1,
                    }
                }
            }
            // (5) UNION ALL = concatenation
            for (b2name, pat2, ret2) in BASES.iter().filter(|b| b.2 == ret).take(3) {
                let t2 = format!("{pat2} RETURN {ret2}");
                let t_union = format!("{base_text} UNION ALL {t2}");
                self.evals += 2;
                if let (Ok(r2), Ok(u)) = (q(self.db, lang, &t2), q(self.db, lang, &t_union)) {
                    let mut want = base_ms.clone();
                    add(&mut want, ms(&r2));
                    if ms(&u) != want {
                        let kind = if u.len() == base.len() && ms(&u) == base_ms { "second-branch-dropped" } else { "union-differs" };
                        self.v(lang, "union-all", bname, b2name, kind, &[&base_text, &t2, &t_union], format!("|A| = {}, |B| = {}, |A UNION ALL B| = {}", base.len(), r2.len(), u.len()));
                    }
                } else {
                    self.rejected += 1;
                }
            }
        }
    }
}

/// Line graph 0 -> 1 -> ... -> n-1 with p = i % 7, s on every third node, label A on even nodes.
fn line_db(n: usize) -> GrafeoDB {
    let db = GrafeoDB::new_in_memory();
    let mut prev = None;
    for i in 0..n {
        let mut props: Vec<(&str, Value)> = vec![("p", Value::Int64((i % 7) as i64))];
        if i % 3 == 0 {
            props.push(("s", Value::String("x".into())));
        }
        let id = db.create_node_with_props(if i % 2 == 0 { &["A"][..] } else { &[][..] }, props);
        if let Some(p) = prev {
            db.create_edge(p, id, "K");
        }
        prev = Some(id);
    }
    db
}

fn run(args: vcore::Args) -> i32 {
    let tier = args.tier;
    if let Some(p) = args.replay.as_deref() {
        let case = vcore::read_replay_case(p);
        let lang = Lang::from_name(case["lang"].as_str().unwrap_or("gql")).unwrap_or(Lang::Gql);
        let db = if let Some(n) = case["graph"]["line"].as_u64() { line_db(n as usize) } else { QGraph::from_json(&case["graph"]).map(|g| load(&g).0).unwrap_or_else(GrafeoDB::new_in_memory) };
        // replay = re-run the identity family on that graph and report what reproduces for the recorded identity
        let mut ctx = Ctx { db: &db, graph: case["graph"].clone(), gfeat: "replay", viols: vec![], evals: 0, rejected: 0, nontrivial: vec![] };
        ctx.identities(lang);
        let want = case["identity"].as_str().unwrap_or("").to_string();
        let viols: Vec<Violation> = ctx.viols.into_iter().filter(|v| v.sig.get("identity") == Some(&want)).collect();
        return vcheck::replay_report("C11", viols);
    }
    let mut rep = Report::new("C11", tier, "exploration");
    let kinds = if tier == vcore::Tier::Quick { GraphSpace::core_node_kinds().into_iter().take(5).collect() } else { GraphSpace::core_node_kinds() };
    let space = GraphSpace { max_nodes: 2, max_edges: tier.pick(2, 3), node_kinds: kinds, edge_kinds: GraphSpace::plain_edge_kinds() };
    let (graphs, _) = space.enumerate();
    rep.rule = format!("every graph of {:?} x 6 base queries x 15 predicates x {{GQL, Cypher}}: partition / count / distinct / window (all s, n in {{0,1,2,len-1,len,len+1}}; unordered windows over Q and Q WHERE p also at len/2, 1023..1025, 2047..2049) / UNION ALL identities on the engine's own answers; plus the same identities on line graphs of 2047, 2048, 2049, 4097 nodes; distinct non-trivial = (graph, language, base query) with a non-empty answer", space.to_json());
    let results = vcore::par_map(&graphs, vcore::cores(), |_, g| {
        let (db, _) = load(g);
        let gfeat = if g.edges.iter().any(|e| e.src == e.dst) { "self-loop" } else if g.nodes.iter().any(|n| !n.props.contains_key("p")) { "missing-property" } else { "plain" };
        let mut ctx = Ctx { db: &db, graph: g.to_json(), gfeat, viols: vec![], evals: 0, rejected: 0, nontrivial: vec![] };
        ctx.identities(Lang::Gql);
        ctx.identities(Lang::Cypher);
        (ctx.viols, ctx.evals, ctx.rejected, ctx.nontrivial)
    });
    let mut rejected = 0;
    for (viols, evals, rej, nt) in results {
        rep.evaluations += evals;
        rejected += rej;
        for h in nt {
            rep.nontrivial_hash(h);
        }
        for v in viols {
            rep.violation(v);
        }
    }
    let sizes: Vec<usize> = vec![2047, 2048, 2049, 4097];
    let jobs: Vec<(usize, Lang)> = sizes.iter().flat_map(|n| [(*n, Lang::Gql), (*n, Lang::Cypher)]).collect();
    let results = vcore::par_map(&jobs, 8, |_, (n, lang)| {
        let db = line_db(*n);
        let mut ctx = Ctx { db: &db, graph: json!({"line": n}), gfeat: "chunk-boundary", viols: vec![], evals: 0, rejected: 0, nontrivial: vec![] };
        ctx.identities(*lang);
        (ctx.viols, ctx.evals, ctx.rejected, ctx.nontrivial)
    });
    for (viols, evals, rej, nt) in results {
        rep.evaluations += evals;
        rejected += rej;
        for h in nt {
            rep.nontrivial_hash(h);
        }
        for v in viols {
            rep.violation(v);
        }
    }
    rep.set("graphs", json!(graphs.len()));
    rep.set("line_graph_sizes", json!(sizes));
    rep.set("queries_rejected_by_front_end", json!(rejected));
    rep.sample(json!({"partition": ["MATCH (x) RETURN x.p, x.s", "MATCH (x) WHERE x.p = 1 OR x.s = 'x' RETURN x.p, x.s", "MATCH (x) WHERE NOT (x.p = 1 OR x.s = 'x') RETURN x.p, x.s", "MATCH (x) WHERE (x.p = 1 OR x.s = 'x') IS NULL RETURN x.p, x.s"]}));
    rep.assumptions.push("a front end that rejects `(p) IS NULL` is held to the weaker form: the true and the false part together fit into the unfiltered result".into());
    rep.finish()
}
