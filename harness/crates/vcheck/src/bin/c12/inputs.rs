//! C12 input space: a finite, explicitly written product of query strings per
//! front end.  Everything here is deterministic; parent and child processes
//! rebuild the same `Space` and address strings by index.

use vcore::Tier;

#[derive(Clone, Copy, PartialEq, Eq, Debug, Hash, PartialOrd, Ord)]
pub enum Lang {
    Gql,
    Cypher,
    Gremlin,
    Graphql,
    Sparql,
}
pub const LANGS: [Lang; 5] = [Lang::Gql, Lang::Cypher, Lang::Gremlin, Lang::Graphql, Lang::Sparql];
impl Lang {
    pub fn name(self) -> &'static str {
        match self {
            Lang::Gql => "gql",
            Lang::Cypher => "cypher",
            Lang::Gremlin => "gremlin",
            Lang::Graphql => "graphql",
            Lang::Sparql => "sparql",
        }
    }
    pub fn from_name(s: &str) -> Option<Lang> {
        LANGS.iter().copied().find(|l| l.name() == s)
    }
}

pub struct Item {
    pub lang: Lang,
    pub family: &'static str,
    /// ladder shape name (family "ladder") or mutation kind; "-" otherwise
    pub shape: String,
    pub depth: u32,
    pub query: String,
}

// ---------------------------------------------------------------------------
// (a) token alphabets
// ---------------------------------------------------------------------------

const COMMON_HOSTILE: [&str; 10] = ["9223372036854775807", "-9223372036854775808", "1e999", "0", "1", "\u{f1}a\u{f1}o", "\u{1F600}", "\0", "'", "\\"];

pub fn alphabet(lang: Lang) -> Vec<&'static str> {
    let mut v: Vec<&'static str> = match lang {
        Lang::Gql => vec!["MATCH", "RETURN", "WHERE", "INSERT", "DELETE", "SET", "NOT", "(", ")", "[", "]", "{", "}", "-", ">", "<", ":", ",", ".", "*", "=", "/", "n", "'a'", "$p"],
        Lang::Cypher => vec!["MATCH", "RETURN", "WHERE", "CREATE", "DELETE", "SET", "NOT", "(", ")", "[", "]", "{", "}", "-", ">", "<", ":", ",", ".", "*", "=", "%", "n", "'a'", "$p"],
        Lang::Gremlin => vec!["g", ".", "V", "E", "(", ")", "addV", "addE", "out", "has", "hasLabel", "limit", "range", "values", "count", "from", "by", ",", "'a'", "\"a\"", "-1", "P", "gt", "within", "x"],
        Lang::Graphql => vec!["query", "mutation", "fragment", "on", "{", "}", "(", ")", "[", "]", ":", ",", "!", "$p", "=", "@", "...", "person", "name", "createPerson", "\"a\"", "\"\"\"", "\"", "#", "-1"],
        Lang::Sparql => vec!["SELECT", "WHERE", "INSERT", "DELETE", "DATA", "ASK", "FILTER", "{", "}", "(", ")", ".", ";", ",", "*", "?s", "<http://a>", "a", "\"a\"", "^^", "@en", "_:b", "PREFIX", ":", "/"],
    };
    v.extend(COMMON_HOSTILE);
    v
}

fn token_string(alpha: &[&str], len: usize, mut k: usize) -> String {
    // k-th sequence of `len` tokens in lexicographic order, joined by one blank
    let n = alpha.len();
    let mut idx = vec![0usize; len];
    for i in (0..len).rev() {
        idx[i] = k % n;
        k /= n;
    }
    let mut s = String::new();
    for (i, t) in idx.iter().enumerate() {
        if i > 0 {
            s.push(' ');
        }
        s.push_str(alpha[*t]);
    }
    s
}

// ---------------------------------------------------------------------------
// (b) corpus of valid queries
// ---------------------------------------------------------------------------

pub fn corpus(lang: Lang) -> Vec<&'static str> {
    match lang {
        Lang::Gql => vec![
            "MATCH (n) RETURN n",
            "MATCH (n:Person) WHERE n.name = 'a\\'b\\\\c\\n\\u00e9' OR n.name = \"d\\\"e\\\\\" RETURN n.name",
            "MATCH (n:Person) RETURN n.name, n.age",
            "MATCH (n:Person) WHERE n.age > 26 RETURN n.name",
            "MATCH (n:Person) WHERE n.age >= 25 AND n.score < 2.0 OR NOT n.name = 'Bob' RETURN n",
            "MATCH (a:Person)-[:KNOWS]->(b:Person) RETURN a.name, b.name",
            "MATCH (a)-[e:KNOWS]->(b) RETURN e.since, type(e)",
            "MATCH (a)<-[e]-(b) RETURN a, b",
            "MATCH (a)-[e]-(b) RETURN a.name",
            "MATCH (a:Person)-[:KNOWS*1..3]->(b) RETURN b.name",
            "MATCH (a)-[:KNOWS*]->(b) RETURN a, b",
            "MATCH (a)-[:KNOWS*2]->(b) RETURN b",
            "MATCH (n:Person) RETURN n.name ORDER BY n.age DESC LIMIT 1",
            "MATCH (n:Person) RETURN n.name AS name ORDER BY name ASC SKIP 1 LIMIT 10",
            "MATCH (n:Person) RETURN COUNT(n), SUM(n.age), AVG(n.score), MIN(n.age), MAX(n.name)",
            "MATCH (n:Person) RETURN n.name, COUNT(n) AS c",
            "MATCH (n:Person) RETURN DISTINCT n.age",
            "MATCH (n:Person) WHERE n.name = $p RETURN n",
            "MATCH (n:Person) WHERE n.age + $p > $q RETURN n.name LIMIT 5",
            "MATCH (n:Person) RETURN n.age * 2 + 1 - n.score / 2.0, n.age % 7",
            "MATCH (n:Person) WHERE n.name STARTS WITH 'Al' OR n.name ENDS WITH 'b' OR n.name CONTAINS 'o' RETURN n",
            "MATCH (n:Person) WHERE n.age IN [25, 30, $p] RETURN n.name",
            "MATCH (n:Person) RETURN CASE WHEN n.age > 26 THEN 'old' ELSE 'young' END",
            "MATCH (n:Person) WHERE EXISTS { MATCH (n)-[:KNOWS]->(m) RETURN m } RETURN n.name",
            "OPTIONAL MATCH (n:Nobody) RETURN n",
            "MATCH (n:Person) WITH n.name AS name, n.age AS age WHERE age > 20 RETURN name",
            "UNWIND [1, 2, 3] AS x RETURN x",
            "INSERT (:Person {name: 'Zo\u{eb}', age: 41, score: 0.5})",
            "INSERT (a:Person {name: $p})-[:KNOWS {since: 2024}]->(b:Person {name: 'D'})",
            "MATCH (n:Person) WHERE n.name = 'Alice' SET n.age = n.age + 1 RETURN n.age",
            "MATCH (n:Person) SET n.nick = $p, n:Member",
            "MATCH (n:Person) REMOVE n.score, n:Person RETURN n",
            "MATCH (n:Person) WHERE n.name = 'Bob' DETACH DELETE n",
            "MATCH (a:Person), (b:Person) WHERE a.age < b.age CREATE (a)-[:OLDER]->(b)",
            "MERGE (n:Person {name: 'Alice'}) ON CREATE SET n.created = true RETURN n",
            "MATCH (n:Person) RETURN toUpper(n.name), size(n.name), abs(n.age), toString(n.age), coalesce(n.nick, 'x')",
            "MATCH (n:Person) RETURN n.age HAVING n.age > 1",
            "MATCH (\u{f1}and\u{fa}:Person) RETURN \u{f1}and\u{fa}.name",
            "MATCH (n:Person) WHERE n.name = '\u{1F600}\u{e9}' RETURN n -- tail \u{e9}",
            "CREATE NODE TYPE City (name STRING, pop INT64)",
            "MATCH (n:Person) RETURN [n.age, 1, 'x'], -n.age, NOT true, NULL",
        ],
        Lang::Cypher => vec![
            "MATCH (n) RETURN n",
            "MATCH (n:Person) WHERE n.name = 'a\\'b\\\\c\\n\\u00e9' OR n.name = \"d\\\"e\\\\\" RETURN n.name",
            "MATCH (n:Person) RETURN n.name, n.age",
            "MATCH (n:Person) WHERE n.age > 26 RETURN n.name",
            "MATCH (n:Person) WHERE n.age >= 25 AND n.score < 2.0 OR NOT n.name = 'Bob' XOR n.age <> 3 RETURN n",
            "MATCH (a:Person)-[:KNOWS]->(b:Person) RETURN a.name, b.name",
            "MATCH (a)-[e:KNOWS|LIKES]->(b) RETURN e.since, type(e)",
            "MATCH (a)<-[e]-(b) RETURN a, b",
            "MATCH (a)--(b) RETURN a.name",
            "MATCH (a:Person)-[:KNOWS*1..3]->(b) RETURN b.name",
            "MATCH (a)-[:KNOWS*]->(b) RETURN a, b",
            "MATCH (a)-[:KNOWS*..2]->(b) RETURN b",
            "MATCH p = shortestPath((a:Person)-[:KNOWS*]-(b:Person)) RETURN p",
            "MATCH (n:Person) RETURN n.name ORDER BY n.age DESC LIMIT 1",
            "MATCH (n:Person) RETURN n.name AS name ORDER BY name ASC SKIP 1 LIMIT 10",
            "MATCH (n:Person) RETURN count(n), sum(n.age), avg(n.score), min(n.age), max(n.name), collect(n.name)",
            "MATCH (n:Person) RETURN n.name, count(*) AS c",
            "MATCH (n:Person) RETURN DISTINCT n.age",
            "MATCH (n:Person) WHERE n.name = $p RETURN n",
            "MATCH (n:Person) WHERE n.age + $p > $q RETURN n.name LIMIT 5",
            "MATCH (n:Person) RETURN n.age * 2 + 1 - n.score / 2.0, n.age % 7, n.age ^ 2",
            "MATCH (n:Person) WHERE n.name STARTS WITH 'Al' OR n.name ENDS WITH 'b' OR n.name CONTAINS 'o' RETURN n",
            "MATCH (n:Person) WHERE n.age IN [25, 30, $p] AND n.nick IS NULL AND n.name IS NOT NULL RETURN n.name",
            "MATCH (n:Person) RETURN CASE WHEN n.age > 26 THEN 'old' ELSE 'young' END, CASE n.age WHEN 30 THEN 1 END",
            "MATCH (n:Person) WHERE EXISTS { MATCH (n)-[:KNOWS]->(m) } RETURN n.name",
            "MATCH (a:Person) OPTIONAL MATCH (a)-[:KNOWS]->(b) RETURN a, b",
            "MATCH (n:Person) WITH n.name AS name, n.age AS age WHERE age > 20 RETURN name",
            "UNWIND [1, 2, 3] AS x RETURN x",
            "UNWIND $p AS x RETURN x",
            "CREATE (:Person {name: 'Zo\u{eb}', age: 41, score: 0.5})",
            "CREATE (a:Person {name: $p})-[:KNOWS {since: 2024}]->(b:Person {name: 'D'})",
            "MATCH (n:Person) WHERE n.name = 'Alice' SET n.age = n.age + 1 RETURN n.age",
            "MATCH (n:Person) SET n.nick = $p, n:Member, n += {x: 1}",
            "MATCH (n:Person) REMOVE n.score, n:Person RETURN n",
            "MATCH (n:Person) WHERE n.name = 'Bob' DETACH DELETE n",
            "MATCH (a:Person), (b:Person) WHERE a.age < b.age CREATE (a)-[:OLDER]->(b)",
            "MERGE (n:Person {name: 'Alice'}) ON CREATE SET n.created = true ON MATCH SET n.seen = 1 RETURN n",
            "MATCH (n:Person) RETURN toUpper(n.name), size(n.name), abs(n.age), toString(n.age), coalesce(n.nick, 'x')",
            "MATCH (n:Person) RETURN [n.age, 1, 'x'][0], [1,2,3][1..2], {a: 1}.a, -n.age",
            "MATCH (\u{f1}and\u{fa}:Person) RETURN \u{f1}and\u{fa}.name",
            "MATCH (n:Person) WHERE n.name = '\u{1F600}\u{e9}' RETURN n // tail \u{e9}",
            "MATCH (n:Person) RETURN n.name UNION ALL MATCH (n:Person) RETURN n.name",
            "RETURN 1 + 2 AS x, 'a' + 'b', [x IN [1,2,3] WHERE x > 1 | x * 2]",
        ],
        Lang::Gremlin => vec![
            "g.V()",
            "g.V().has('name', 'a\\'b\\\\c\\n').has(\"name\", \"d\\\"e\\\\\").values('name')",
            "g.E()",
            "g.V(0)",
            "g.V(0, 1)",
            "g.V().hasLabel('Person')",
            "g.V().hasLabel('Person', 'Employee').count()",
            "g.V().has('name', 'Alice')",
            "g.V().has('Person', 'name', 'Alice').values('age')",
            "g.V().has('age', gt(28)).values('name')",
            "g.V().has('age', P.between(20, 31)).values('name', 'age')",
            "g.V().has('age', within(25, 30)).count()",
            "g.V().has('name', startingWith('Al')).has('name', containing('li')).has('name', P.endingWith('e'))",
            "g.V().hasNot('nick').hasId(0).id()",
            "g.V().hasLabel('Person').out('KNOWS').values('name')",
            "g.V().in('KNOWS').both().outE('KNOWS').inV().label()",
            "g.V().outE().bothV().dedup().limit(2)",
            "g.V().inE('KNOWS').outV().otherV()",
            "g.V().hasLabel('Person').values('age').sum()",
            "g.V().values('score').mean()",
            "g.V().values('age').min()",
            "g.V().values('age').max()",
            "g.V().order().by('age', desc).limit(1).values('name')",
            "g.V().order().by('name').skip(1)",
            "g.V().range(0, 1).valueMap()",
            "g.V().elementMap('name')",
            "g.V().properties('name')",
            "g.V().as('a').out().as('b').select('a', 'b')",
            "g.V().group().by(T.label).by(count())",
            "g.V().groupCount().by('age')",
            "g.V().project('n', 'a').by('name').by('age')",
            "g.V().out().path()",
            "g.V().values('age').fold().unfold()",
            "g.V().constant(1.5)",
            "g.V().aggregate('x').store('y')",
            "g.addV('Person').property('name', 'Zo\u{eb}').property('age', 41)",
            "g.addV().property(single, 'k', true)",
            "g.V().has('name', 'Alice').property('age', 31)",
            "g.V().has('name', 'Alice').addE('LIKES').to(g.V().has('name', 'Bob'))",
            "g.addE('KNOWS').from(g.V().has('name', 'Bob')).to(g.V().has('name', 'Alice'))",
            "g.V().has('name', 'Bob').drop()",
            "g.E().hasLabel('KNOWS').drop()",
            "g.V().has('name', '\u{1F600}\u{e9}').values(\"na\u{ef}ve\")",
        ],
        Lang::Graphql => vec![
            "{ person { name } }",
            "query { person { id name age } }",
            "query Q { person { name knows { name } } }",
            "{ person(name: \"Alice\") { name age } }",
            "{ person(age: 30, name: \"Alice\") { name } }",
            "{ person(filter: { age_gt: 28 }) { name } }",
            "{ person(where: { age_gte: 18, age_lte: 65 }) { name } }",
            "{ person(where: { name_contains: \"li\" }) { name } }",
            "{ person(where: { name_starts_with: \"A\", name_ends_with: \"e\" }) { name } }",
            "{ person(where: { name_in: [\"Alice\", \"Bob\"], age_ne: 3 }) { name } }",
            "{ person(where: { age_lt: 30.5 }) { name score } }",
            "{ person(first: 1) { name } }",
            "{ person(skip: 1, first: 10) { name } }",
            "{ person(limit: 1, offset: 1) { name } }",
            "{ person(orderBy: { age: DESC }) { name } }",
            "{ person(first: 10, skip: 0, orderBy: { name: ASC, age: DESC }) { name age } }",
            "{ person { name knows(first: 1) { name knows { name } } } }",
            "{ p: person { n: name } }",
            "query($p: Int) { person(age: $p) { name } }",
            "query Q($p: String = \"Alice\", $q: Int!) { person(name: $p, first: $q) { name } }",
            "query($p: [Int!]!) { person(where: { age_in: $p }) { name } }",
            "{ person { ...F } } fragment F on Person { name age }",
            "{ person { ... on Person { name } ... { age } } }",
            "{ person { name @include(if: true) age @skip(if: $p) } }",
            "{ person(flag: true, nothing: null, kind: ENUMV, f: 1.5e3, neg: -7) { name } }",
            "{ person(name: \"\"\"block \"quoted\" text\"\"\") { name } }",
            "{ person(name: \"esc \\\" \\n \\u00e9 \\\\\") { name } }",
            "mutation { createPerson(name: \"Zo\u{eb}\", age: 41) { name } }",
            "mutation M($p: String) { createPerson(name: $p) { id name } }",
            "mutation { updatePerson(id: 0, name: \"Al\") { name } }",
            "mutation { updatePerson(name: \"Alice\", age: 31) { name age } }",
            "mutation { deletePerson(id: 1) }",
            "mutation { deletePerson(name: \"Bob\") }",
            "subscription { personCreated { id } }",
            "{ person { name } city { name } }",
            "# comment \u{e9}\n{ person { name } }",
            "{ person(name: \"\u{1F600}\u{e9}\") { na\u{ef}ve } }",
            "query A { person { name } } query B { person { age } }",
            "{ __typename person { __typename name } }",
            "{ person(where: { AND: [{ age_gt: 1 }, { OR: [{ age_lt: 99 }] }] }) { name } }",
        ],
        Lang::Sparql => vec![
            "SELECT ?s ?p ?o WHERE { ?s ?p ?o }",
            "SELECT ?s WHERE { ?s ?p \"a\\\"b\\\\c\\n\\u00e9\" . ?s ?q 'd\\'e\\\\' }",
            "SELECT * WHERE { ?s ?p ?o } LIMIT 1",
            "SELECT DISTINCT ?p WHERE { ?s ?p ?o } ORDER BY DESC(?p) LIMIT 5 OFFSET 1",
            "SELECT ?o WHERE { <http://ex.org/a> <http://ex.org/name> ?o }",
            "PREFIX ex: <http://ex.org/> SELECT ?o WHERE { ex:a ex:age ?o }",
            "PREFIX ex: <http://ex.org/> SELECT ?s WHERE { ?s ex:age ?a . FILTER(?a > 26 && ?a <= 30 || !(?a = 1)) }",
            "PREFIX ex: <http://ex.org/> SELECT ?s ?n WHERE { ?s ex:name ?n ; ex:age ?a , ?b . }",
            "PREFIX ex: <http://ex.org/> SELECT ?s ?m WHERE { ?s ex:name ?n OPTIONAL { ?s ex:mbox ?m } }",
            "PREFIX ex: <http://ex.org/> SELECT ?n WHERE { { ?s ex:name ?n } UNION { ?s ex:nick ?n } }",
            "PREFIX ex: <http://ex.org/> SELECT ?s WHERE { ?s ex:name ?n MINUS { ?s ex:age 25 } }",
            "PREFIX ex: <http://ex.org/> SELECT ?s (COUNT(?o) AS ?c) (SUM(?o) AS ?t) (AVG(?o) AS ?m) (MIN(?o) AS ?lo) (MAX(?o) AS ?hi) WHERE { ?s ex:age ?o } GROUP BY ?s HAVING (COUNT(?o) > 0)",
            "SELECT (COUNT(*) AS ?c) WHERE { ?s ?p ?o }",
            "SELECT (COUNT(DISTINCT ?s) AS ?c) (SAMPLE(?o) AS ?x) (GROUP_CONCAT(?o; SEPARATOR=\",\") AS ?g) WHERE { ?s ?p ?o }",
            "PREFIX ex: <http://ex.org/> SELECT ?x ?d WHERE { ?x ex:age ?v BIND(?v * 2 + 1 - ?v / 3 AS ?d) }",
            "PREFIX ex: <http://ex.org/> SELECT ?s WHERE { ?s ex:knows+ ?o }",
            "PREFIX ex: <http://ex.org/> SELECT ?s WHERE { ?s ex:knows* ?o . ?s ex:knows? ?z }",
            "PREFIX ex: <http://ex.org/> SELECT ?s WHERE { ?s (ex:knows/ex:name)|^ex:knows ?o }",
            "PREFIX ex: <http://ex.org/> SELECT ?s WHERE { ?s !(ex:name|ex:age) ?o }",
            "SELECT ?s WHERE { ?s a <http://ex.org/Person> }",
            "SELECT ?s WHERE { ?s ?p \"Alice\" }",
            "SELECT ?s WHERE { ?s ?p \"Alice\"@en . ?s ?q \"30\"^^<http://www.w3.org/2001/XMLSchema#integer> }",
            "SELECT ?s WHERE { ?s ?p 30 . ?s ?q 1.5 . ?s ?r true . ?s ?t -1e3 }",
            "SELECT ?s WHERE { ?s ?p ?o FILTER(REGEX(STR(?o), \"^A\", \"i\") && STRLEN(STR(?o)) > 1 && BOUND(?o)) }",
            "SELECT ?s WHERE { ?s ?p ?o FILTER(isIRI(?s) && isLiteral(?o) && LANG(?o) = \"\" && DATATYPE(?o) != <http://x>) }",
            "SELECT ?s WHERE { ?s ?p ?o FILTER(?o IN (1, 2, \"Alice\") && ?o NOT IN (3)) }",
            "SELECT ?s WHERE { ?s ?p ?o FILTER EXISTS { ?s ?p2 ?o2 } FILTER NOT EXISTS { ?o ?p3 ?s } }",
            "SELECT ?s (IF(?o > 1, \"big\", \"small\") AS ?k) (COALESCE(?z, 0) AS ?c) WHERE { ?s ?p ?o }",
            "SELECT ?s WHERE { ?s ?p ?o } VALUES ?s { <http://ex.org/a> <http://ex.org/b> }",
            "SELECT ?s WHERE { VALUES (?s ?o) { (<http://ex.org/a> 1) (UNDEF 2) } ?s ?p ?o }",
            "SELECT ?s WHERE { { SELECT ?s WHERE { ?s ?p ?o } LIMIT 1 } }",
            "SELECT ?s WHERE { GRAPH <http://g> { ?s ?p ?o } }",
            "SELECT ?s WHERE { ?s ?p [ <http://ex.org/name> ?n ] . ?s ?q ( 1 2 ) }",
            "ASK { ?s ?p ?o }",
            "ASK WHERE { <http://ex.org/a> <http://ex.org/name> \"Alice\" }",
            "CONSTRUCT { ?s <http://ex.org/copy> ?o } WHERE { ?s <http://ex.org/name> ?o }",
            "DESCRIBE <http://ex.org/a>",
            "DESCRIBE ?s WHERE { ?s ?p ?o }",
            "INSERT DATA { <http://ex.org/c> <http://ex.org/name> \"Zo\u{eb}\" . <http://ex.org/c> <http://ex.org/age> 41 }",
            "DELETE DATA { <http://ex.org/a> <http://ex.org/name> \"Alice\" }",
            "DELETE WHERE { ?s <http://ex.org/age> ?o }",
            "PREFIX ex: <http://ex.org/> DELETE { ?s ex:age ?o } INSERT { ?s ex:age 31 } WHERE { ?s ex:age ?o FILTER(?o = 30) }",
            "INSERT { ?s <http://ex.org/seen> true } WHERE { ?s ?p ?o }",
            "CLEAR ALL",
            "DROP SILENT GRAPH <http://g> ; CREATE GRAPH <http://g>",
            "BASE <http://ex.org/> SELECT ?o WHERE { <a> <name> ?o } # tail \u{e9}",
            "SELECT ?\u{f1}and\u{fa} WHERE { ?\u{f1}and\u{fa} ?p \"\u{1F600}\u{e9}\" }",
            "SELECT ?s WHERE { ?s ?p ?o } ORDER BY ?s ASC(?o) DESC(STR(?p))",
            "SELECT $s WHERE { $s $p $q }",
        ],
    }
}

/// Valid (or plausibly valid) queries with boundary constants: out-of-range
/// indexes, negative/huge LIMIT/SKIP, inverted ranges, extreme quantifiers.
pub fn edge_corpus(lang: Lang) -> Vec<String> {
    let big = "9223372036854775807";
    let over = "9223372036854775808";
    let huge = "18446744073709551616";
    let mut v: Vec<String> = vec![];
    match lang {
        Lang::Gql | Lang::Cypher => {
            for n in ["0", "-1", big, over, huge, "1.5", "'a'", "NULL", "$p"] {
                v.push(format!("MATCH (n:Person) RETURN n.name LIMIT {n}"));
                v.push(format!("MATCH (n:Person) RETURN n.name SKIP {n}"));
                v.push(format!("MATCH (n:Person) RETURN n.name ORDER BY n.name SKIP {n} LIMIT {n}"));
            }
            for q in ["*0", "*0..0", "*5..2", "*..0", "*1..4294967295", "*4294967296", "*1..18446744073709551616", "*-1", "*1..-1", "*0..", "*9223372036854775807.."] {
                v.push(format!("MATCH (a:Person)-[:KNOWS{q}]->(b) RETURN b.name"));
                v.push(format!("MATCH (a:Person)-[e{q}]-(b) RETURN a, b"));
            }
            for e in [
                "[1,2,3][5]", "[1,2,3][-1]", "[1,2,3][-9223372036854775808]", "[1,2,3][9223372036854775807]", "[][0]", "[1,2,3][2..1]", "[1,2,3][-5..10]", "[1,2,3][1.5]", "[1,2,3]['a']", "n.name[0]", "n.name[99]",
                "substring(n.name, 99)", "substring(n.name, 2, 99)", "substring(n.name, -1)", "substring(n.name, 1, -1)", "substring('\u{e9}\u{1F600}x', 1, 1)", "left(n.name, 99)", "left(n.name, -1)", "right(n.name, 99)", "right('\u{e9}\u{1F600}', 1)",
                "size(NULL)", "head([])", "last([])", "tail([])", "range(0, 10, 0)", "range(5, 1)", "range(0, 3, -1)", "abs(n.low)", "abs(-9223372036854775807 - 1)", "toInteger('99999999999999999999')", "toInteger(1e300)", "toInteger(n.f)", "toFloat('1e999')", "round(1e300)", "sign(n.low)",
                "sqrt(-1)", "log(0)", "n.big + 1", "n.low - 1", "n.big * 2", "n.low / -1", "n.low % -1", "-n.low", "n.age / n.zero", "n.age % n.zero", "n.score / 0", "1 / 0", "1 % 0", "2 ^ 9999", "0 ^ -1",
                "toString(n)", "n.name + 1", "n.name * 2", "NULL + 1", "true + 1", "[1] + 1", "reverse(n.name)", "split(n.name, '')", "replace(n.name, '', 'x')", "trim('\u{e9}')", "n.missing.deeper", "COUNT(DISTINCT n.age)", "SUM(n.name)", "AVG(n.big)", "SUM(n.big)", "SUM(n.low)", "MIN([])", "collect(n)[5]",
                "vector([1.0, 2.0])", "cosine_similarity([1.0], [1.0, 2.0])", "euclidean_distance([], [])", "cosine_similarity([0.0], [0.0])",
            ] {
                v.push(format!("MATCH (n:Person) RETURN {e}"));
                v.push(format!("MATCH (n:Person) WHERE {e} = 1 RETURN n.name"));
            }
            // join-order optimiser: bit sets over relations (64 and more relations)
            for n in [20usize, 64, 70] {
                v.push(format!("{}RETURN n", "MATCH (n) ".repeat(n)));
            }
            // (a comma-separated pattern of 66 *different* variables is not used: its answer on G0 has 2^66 rows by definition)
            v.push("MATCH (n:Person) RETURN SUM(n.big) + SUM(n.big)".into());
            v.push("MATCH (n:Person) WITH n ORDER BY n.age LIMIT 0 RETURN AVG(n.age), MIN(n.age)".into());
            v.push("UNWIND [] AS x RETURN x".into());
            v.push("UNWIND NULL AS x RETURN x".into());
            v.push("UNWIND 1 AS x RETURN x".into());
            v.push("UNWIND [[1,2],[3]] AS x UNWIND x AS y RETURN y".into());
            v.push("MATCH (n:Person) SET n.age = n.big + 1".into());
            v.push("MATCH (n) DELETE n".into());
            v.push("MATCH (n) DETACH DELETE n RETURN n.name".into());
            v.push("MATCH (n:Person) DELETE n, n".into());
            v.push("MATCH (a)-[e]->(b) DELETE e, a, b RETURN e.since".into());
            v.push("MATCH (n:Person) REMOVE n:Person REMOVE n:Person RETURN n".into());
            v.push("MATCH (n:Person) SET n.x = [1, 'a', NULL, [2]] RETURN n.x".into());
            v.push("MATCH (n:Person) SET n = NULL".into());
            v.push("MATCH (n), (n) RETURN n".into());
            v.push("MATCH (n)-[n]->(n) RETURN n".into());
            v.push("MATCH (a)-[e]->(b), (b)-[e]->(a) RETURN e".into());
            v.push("MATCH (n:Person) RETURN n.name AS x, n.age AS x".into());
            v.push("MATCH (n:Person) RETURN n.name ORDER BY m.age".into());
            v.push("MATCH (n:Person) RETURN COUNT(COUNT(n))".into());
            v.push("MATCH (n:Person) WHERE COUNT(n) > 1 RETURN n".into());
            if lang == Lang::Gql {
                v.push("INSERT (a)-[:R]->(a)".into());
                v.push("INSERT (a:A {v: 1 / 0})".into());
                v.push("INSERT (:A {v: 9223372036854775807 + 1})".into());
                v.push("CREATE VECTOR INDEX vi ON :Person(emb) DIMENSION 0 METRIC 'cosine'".into());
                v.push("CREATE VECTOR INDEX vi ON :Person(emb) DIMENSION 18446744073709551616".into());
                v.push("CREATE EDGE TYPE KNOWS (since INT64)".into());
                v.push("CALL foo() YIELD x RETURN x".into());
            } else {
                v.push("CREATE (a)-[:R]->(a)".into());
                v.push("CREATE (a:A {v: 1 / 0})".into());
                v.push("CREATE (:A {v: 9223372036854775807 + 1})".into());
                v.push("RETURN 1 / 0".into());
                v.push("RETURN 9223372036854775807 + 1".into());
                v.push("RETURN -9223372036854775807 - 2".into());
                v.push("RETURN [x IN range(0, 3) | 1 / x]".into());
                v.push("RETURN reduce(s = 0, x IN [9223372036854775807, 1] | s + x)".into());
                v.push("MATCH p = (a)-[*]->(b) RETURN length(p), nodes(p)[5], relationships(p)[-1]".into());
                v.push("MATCH p = allShortestPaths((a)-[*0..0]-(a)) RETURN p".into());
                v.push("MATCH (n) RETURN n UNION MATCH (n) RETURN n.name".into());
                v.push("CALL db.labels() YIELD label RETURN label".into());
                v.push("MATCH (n:Person) RETURN n.name LIMIT 1 + 1".into());
                v.push("MATCH (n:Person) RETURN n.name SKIP -1 + 1".into());
            }
        }
        Lang::Gremlin => {
            for n in ["0", "-1", big, "-9223372036854775808", over, "1.5", "'a'"] {
                v.push(format!("g.V().limit({n})"));
                v.push(format!("g.V().skip({n})"));
                v.push(format!("g.V().range({n}, 1)"));
                v.push(format!("g.V().range(1, {n})"));
                v.push(format!("g.V({n})"));
                v.push(format!("g.E({n})"));
                v.push(format!("g.V().hasId({n})"));
                v.push(format!("g.V().has('age', {n})"));
                v.push(format!("g.V().has('age', gt({n}))"));
                v.push(format!("g.V().has('age', between({n}, {n}))"));
                v.push(format!("g.V().constant({n})"));
                v.push(format!("g.V().property('age', {n})"));
            }
            for s in [
                "g.V().range(5, 2)", "g.V().range(2, 2)", "g.V().skip(9223372036854775807).limit(9223372036854775807)", "g.V().limit(0).count()", "g.V().values('name').sum()", "g.V().values('name').mean()", "g.V().values('missing').min()",
                "g.V().values('big').sum()", "g.V().values('low').sum()", "g.V().values('big').mean()", "g.V().count().sum()", "g.V().fold().fold().unfold().unfold().unfold()", "g.V().select('nope')", "g.V().as('a').as('a').select('a')",
                "g.V().by('name')", "g.V().order().by()", "g.V().order().by('missing', shuffle)", "g.V().group().by().by()", "g.V().project('a').by('x').by('y')", "g.V().project()", "g.V().path().path()", "g.E().outV().outV()", "g.V().inV()", "g.V().otherV()",
                "g.addE('x')", "g.addE('x').from('a')", "g.addE('x').to('b')", "g.addE('x').from('a').to('b')", "g.V().as('a').addE('x').from('a').to('a')", "g.V().addE('x').to(g.V())", "g.V().addE('x').to(g.E())", "g.addE('x').from(g.addV('q')).to(g.addV('r'))",
                "g.V().drop().drop()", "g.V().drop().values('name')", "g.V().addV('x').addV('y')", "g.addV('')", "g.addV().property('', '')", "g.V().has('')", "g.V().hasLabel()", "g.V().out('').in('')", "g.V().has('age', within())", "g.V().has('age', without())",
                "g.V().has('Person', 3, 4)", "g.V().has('name', containing(''))", "g.V().to('a')", "g.V().from('a')", "g.V().property(list, 'k', 1).property(set, 'k', 2)", "g.V().elementMap().valueMap().properties()", "g.V().id().id()", "g.V().label().values('x')", "g.V().count().out()", "g.V().values('age').out()",
            ] {
                v.push(s.to_string());
            }
        }
        Lang::Graphql => {
            for n in ["0", "-1", big, "-9223372036854775808", over, "1.5", "\"a\"", "null", "true", "[1]", "{a: 1}", "$p", "E"] {
                v.push(format!("{{ person(first: {n}) {{ name }} }}"));
                v.push(format!("{{ person(skip: {n}) {{ name }} }}"));
                v.push(format!("{{ person(limit: {n}, offset: {n}) {{ name }} }}"));
                v.push(format!("{{ person(age: {n}) {{ name }} }}"));
                v.push(format!("{{ person(where: {{ age_gt: {n} }}) {{ name }} }}"));
                v.push(format!("{{ person(where: {{ age_in: {n} }}) {{ name }} }}"));
                v.push(format!("{{ person(where: {n}) {{ name }} }}"));
                v.push(format!("{{ person(orderBy: {n}) {{ name }} }}"));
                v.push(format!("{{ person(id: {n}) {{ name }} }}"));
                v.push(format!("mutation {{ createPerson(age: {n}) {{ age }} }}"));
                v.push(format!("mutation {{ updatePerson(id: {n}, age: {n}) {{ age }} }}"));
                v.push(format!("mutation {{ deletePerson(id: {n}) }}"));
            }
            for s in [
                "{ person }", "{ }", "query { }", "{ person { } }", "{ person { name { deeper } } }", "{ person { knows { knows { knows { name } } } } }", "{ person { ...Missing } }", "{ person { ...F } } fragment F on Person { ...F }",
                "{ person { ...A } } fragment A on Person { ...B } fragment B on Person { ...A }", "fragment F on Person { name }", "mutation { create }", "mutation { update }", "mutation { delete }", "mutation { createPerson }", "mutation { updatePerson }", "mutation { deletePerson }",
                "mutation { create(name: \"x\") { name } }", "mutation { updatePerson(id: 0) { name } }", "mutation { createPerson(name: \"a\") createPerson(name: \"b\") }", "query { person { name } } mutation { deletePerson }", "{ person(where: { _gt: 1 }) { name } }", "{ person(where: { age_: 1 }) { name } }",
                "{ person(where: { _in: [] }) { name } }", "{ person(where: { age_in: [] }) { name } }", "{ person(where: { age_in: [[1]] }) { name } }", "{ person(where: {}) { name } }", "{ person(orderBy: {}) { name } }", "{ person(orderBy: { name: SIDEWAYS }) { name } }", "{ person(orderBy: { name: 1 }) { name } }",
                "{ person(first: 1, first: 2) { name name name } }", "{ a: person { name } a: person { age } }", "query($p: Int = 1, $p: Int = 2) { person(age: $p) { name } }", "query($p: Missing) { person(age: $q) { name } }", "{ person(name: \"\\u12\") { name } }", "{ person(name: \"\\uD800\") { name } }", "{ person(name: \"\\uFFFF\\u0000\") { name } }",
                "{ person(name: \"\\q\") { name } }", "{ person(name: \"\"\"\"\"\") { name } }", "{ person(name: \"\"\"\\\"\"\"\"\"\") { name } }", "{ person(x: 1e999, y: -1e999, z: 1e-999, w: 0.0e0) { name } }", "{ person(x: 00, y: 01, z: -0, w: 1.) { name } }", "{ person(x: 1e) { name } }", "{ person(x: .5) { name } }", "{ person @a @b(c: 1) { name @d } }",
                "schema { query: Q }", "type Person { name: String }", "extend type Person { x: Int }", "\u{feff}{ person { name } }", "{ person { name } }\u{feff}", "{,,,person,,,{,,,name,,,},,,}", "{ person { name\u{a0}age } }",
            ] {
                v.push(s.to_string());
            }
        }
        Lang::Sparql => {
            for n in ["0", "-1", big, over, huge, "1.5", "?x", "\"a\""] {
                v.push(format!("SELECT ?s WHERE {{ ?s ?p ?o }} LIMIT {n}"));
                v.push(format!("SELECT ?s WHERE {{ ?s ?p ?o }} OFFSET {n}"));
                v.push(format!("SELECT ?s WHERE {{ ?s ?p ?o }} ORDER BY ?s LIMIT {n} OFFSET {n}"));
                v.push(format!("SELECT ?s WHERE {{ ?s ?p {n} }}"));
            }
            for e in [
                "SUBSTR(STR(?o), 99)", "SUBSTR(STR(?o), 0)", "SUBSTR(STR(?o), -1, 2)", "SUBSTR(STR(?o), 2, -1)", "SUBSTR(STR(?o), 1, 99)", "SUBSTR(\"\u{e9}\u{1F600}x\", 2, 1)", "SUBSTR(\"abc\", 9223372036854775807, 9223372036854775807)", "SUBSTR(\"abc\", 1.5, 1.5)", "STRBEFORE(\"a\u{e9}b\", \"\")", "STRAFTER(\"a\u{e9}b\", \"\u{e9}\")",
                "REPLACE(\"abc\", \"\", \"x\")", "REPLACE(\"abc\", \"(\", \"x\")", "REGEX(\"abc\", \"(\")", "REGEX(\"abc\", \"a\", \"zz\")", "REGEX(\"aaaaaaaaaaaaaaaaaaaaaaaaaaaa\", \"(a*)*b\")", "UCASE(\"\u{df}\")", "LCASE(?o)", "STRLEN(?o)", "CONCAT()", "CONCAT(?o, 1)", "ENCODE_FOR_URI(\"\u{1F600}\")", "CONTAINS(?o, \"\")", "STRSTARTS(1, 2)", "LANGMATCHES(\"\", \"*\")",
                "ABS(-9223372036854775807 - 1)", "ABS(?o)", "ROUND(1e300)", "CEIL(?o)", "FLOOR(\"a\")", "RAND()", "NOW()", "YEAR(?o)", "MONTH(\"2020\")", "HOURS(\"2020-01-01T25:61:61Z\"^^<http://www.w3.org/2001/XMLSchema#dateTime>)", "TZ(?o)", "MD5(?o)", "SHA1(\"\")", "SHA256(\"\u{e9}\")", "UUID()", "STRUUID()", "BNODE()", "BNODE(\"x\")", "IRI(\"not an iri\")", "IRI(1)",
                "STRDT(\"1\", <http://www.w3.org/2001/XMLSchema#integer>)", "STRLANG(\"a\", \"\")", "<http://www.w3.org/2001/XMLSchema#integer>(\"99999999999999999999\")", "<http://www.w3.org/2001/XMLSchema#integer>(1e300)", "<http://www.w3.org/2001/XMLSchema#double>(\"1e999\")", "<http://www.w3.org/2001/XMLSchema#boolean>(\"maybe\")", "<http://nope>(1)", "sameTerm(?s, ?s)", "isNumeric(?o)", "isBlank(?s)", "IF(?o, 1, 2)", "COALESCE()", "COALESCE(1/0, 2)",
                "9223372036854775807 + 1", "-9223372036854775807 - 2", "9223372036854775807 * 2", "1 / 0", "1.0 / 0", "0 / 0", "1 / 0.0", "?o / 0", "?o * 9223372036854775807", "?o + 9223372036854775807", "- ?o", "! ?o", "+ ?o", "?o = ?o", "?o < \"a\"", "\"a\" < 1", "?unbound + 1", "1e308 * 10", "-(-9223372036854775807 - 1)",
            ] {
                v.push(format!("SELECT ?s WHERE {{ ?s ?p ?o FILTER({e}) }}"));
                v.push(format!("SELECT ({e} AS ?x) WHERE {{ ?s ?p ?o }}"));
                v.push(format!("SELECT ?s WHERE {{ ?s ?p ?o BIND({e} AS ?x) }} ORDER BY ?x"));
            }
            for s in [
                "SELECT (SUM(?o) AS ?t) WHERE { ?s ?p ?o }", "SELECT (AVG(?o) AS ?t) WHERE { ?s ?p ?o }", "SELECT (AVG(?o) AS ?t) WHERE { ?s <http://nope> ?o }", "SELECT (MIN(?o) AS ?a) (MAX(?o) AS ?b) WHERE { ?s <http://nope> ?o }", "SELECT (SUM(9223372036854775807) AS ?t) WHERE { ?s ?p ?o }", "SELECT (GROUP_CONCAT(?o; SEPARATOR=\"\") AS ?g) WHERE { ?s ?p ?o }", "SELECT (COUNT(?o) AS ?c) WHERE { ?s ?p ?o } GROUP BY ?nope",
                "SELECT ?s (COUNT(?o) AS ?c) WHERE { ?s ?p ?o }", "SELECT (COUNT(COUNT(?o)) AS ?c) WHERE { ?s ?p ?o }", "SELECT ?s WHERE { ?s ?p ?o } GROUP BY ?s HAVING (?o > 1)", "SELECT ?s WHERE { ?s ?p ?o } ORDER BY ?nope", "SELECT ?x WHERE { ?s ?p ?o }", "SELECT (?s AS ?s) WHERE { ?s ?p ?o }", "SELECT (1 AS ?x) (2 AS ?x) WHERE { }", "SELECT * WHERE { }", "SELECT * { }", "ASK { }", "SELECT * WHERE { ?s ?s ?s }",
                "SELECT * WHERE { ?s <http://ex.org/knows>* ?s }", "SELECT * WHERE { ?s (<http://ex.org/knows>*)* ?o }", "SELECT * WHERE { ?s (<http://ex.org/knows>|^<http://ex.org/knows>)+ ?o }", "SELECT * WHERE { <http://ex.org/a> <http://ex.org/knows>{0} ?o }", "SELECT * WHERE { ?s !() ?o }", "SELECT * WHERE { ?s !^<http://x> ?o }", "SELECT * WHERE { ?s ?p ?o } VALUES ?z { }", "SELECT * WHERE { ?s ?p ?o } VALUES (?s ?s) { (1 2) }", "SELECT * WHERE { VALUES (?a ?b) { (1) } }",
                "SELECT * WHERE { ?s ?p ?o OPTIONAL { } }", "SELECT * WHERE { { } UNION { } }", "SELECT * WHERE { ?s ?p ?o MINUS { } }", "SELECT * WHERE { BIND(1 AS ?s) ?s ?p ?o }", "SELECT * WHERE { ?s ?p ?o BIND(1 AS ?s) }", "SELECT * WHERE { SERVICE <http://x> { ?s ?p ?o } }", "SELECT * WHERE { SERVICE SILENT ?v { ?s ?p ?o } }", "SELECT * FROM <http://g> FROM NAMED <http://h> WHERE { GRAPH ?g { ?s ?p ?o } }",
                "PREFIX : <http://ex.org/> SELECT * WHERE { :a :b :c }", "PREFIX ex: <http://ex.org/> PREFIX ex: <http://other/> SELECT * WHERE { ex:a ?p ?o }", "SELECT * WHERE { nope:a ?p ?o }", "SELECT * WHERE { <> <#> <?> }", "SELECT * WHERE { <http://ex.org/a b> ?p ?o }", "BASE <not an iri> SELECT * WHERE { <x> ?p ?o }", "SELECT * WHERE { ?s ?p \"\\u00\" }", "SELECT * WHERE { ?s ?p \"\\uD800\" }", "SELECT * WHERE { ?s ?p \"\\q\" }", "SELECT * WHERE { ?s ?p '''a''b''' }", "SELECT * WHERE { ?s ?p \"\"\"\"\"\" }",
                "SELECT * WHERE { ?s ?p \"a\"@ }", "SELECT * WHERE { ?s ?p \"a\"^^ }", "SELECT * WHERE { ?s ?p \"x\"^^<http://www.w3.org/2001/XMLSchema#integer> }", "SELECT * WHERE { ?s ?p \"99999999999999999999\"^^<http://www.w3.org/2001/XMLSchema#integer> }", "SELECT * WHERE { ?s ?p 1e999 . ?s ?q -1e999 . ?s ?r 1e-999 }", "SELECT * WHERE { ?s ?p 00012 . ?s ?q 1. }", "SELECT * WHERE { ?s ?p .5 }", "SELECT * WHERE { _:b ?p _:b . [] ?q [] . () ?r () }", "SELECT * WHERE { ?s ?p ?o . . }", "SELECT * WHERE { ?s ?p ?o ; ; }",
                "INSERT DATA { }", "INSERT DATA { ?s ?p ?o }", "INSERT DATA { _:b <http://p> _:b }", "INSERT DATA { <http://a> <http://p> 1 , 2 ; <http://q> 3 }", "INSERT DATA { GRAPH <http://g> { <http://a> <http://p> 1 } }", "DELETE DATA { }", "DELETE DATA { _:b <http://p> 1 }", "DELETE WHERE { }", "DELETE WHERE { ?s ?p ?o }", "DELETE { ?s ?p ?o } WHERE { }", "DELETE { ?x ?y ?z } WHERE { ?s ?p ?o }", "INSERT { ?x ?y ?z } WHERE { ?s ?p ?o }", "INSERT { ?o ?p ?s } WHERE { ?s ?p ?o }", "INSERT { ?s ?p ?o } WHERE { ?s ?p ?o } ; DELETE WHERE { ?s ?p ?o }",
                "WITH <http://g> DELETE { ?s ?p ?o } WHERE { ?s ?p ?o }", "DELETE { ?s ?p ?o } USING <http://g> WHERE { ?s ?p ?o }", "LOAD <http://x>", "LOAD SILENT <file:///etc/passwd> INTO GRAPH <http://g>", "CLEAR DEFAULT", "CLEAR NAMED", "CLEAR GRAPH <http://g>", "DROP ALL", "DROP DEFAULT", "CREATE SILENT GRAPH <http://g>", "COPY DEFAULT TO <http://g>", "MOVE <http://g> TO DEFAULT", "ADD SILENT <http://g> TO <http://h>", "CONSTRUCT WHERE { ?s ?p ?o }", "CONSTRUCT { } WHERE { }", "CONSTRUCT { ?s ?p ?o . _:b ?p [ ?p ?o ] } WHERE { ?s ?p ?o } LIMIT 1", "DESCRIBE *", "DESCRIBE", "DESCRIBE ?x <http://a> WHERE { }",
            ] {
                v.push(s.to_string());
            }
        }
    }
    v
}

// ---------------------------------------------------------------------------
// mutation of corpus queries
// ---------------------------------------------------------------------------

/// Split into tokens, each keeping its leading whitespace: (lead, text).
pub fn tokenize(q: &str) -> Vec<(String, String)> {
    let cs: Vec<char> = q.chars().collect();
    let mut out = vec![];
    let mut i = 0;
    while i < cs.len() {
        let mut lead = String::new();
        while i < cs.len() && cs[i].is_whitespace() {
            lead.push(cs[i]);
            i += 1;
        }
        if i >= cs.len() {
            if !lead.is_empty() {
                out.push((lead, String::new()));
            }
            break;
        }
        let c = cs[i];
        let mut text = String::new();
        if c == '\'' || c == '"' {
            text.push(c);
            i += 1;
            while i < cs.len() {
                text.push(cs[i]);
                if cs[i] == '\\' && i + 1 < cs.len() {
                    i += 1;
                    text.push(cs[i]);
                } else if cs[i] == c {
                    i += 1;
                    break;
                }
                i += 1;
            }
        } else if c == '<' && i + 1 < cs.len() && cs[i + 1] == 'h' {
            // IRI reference
            while i < cs.len() {
                text.push(cs[i]);
                i += 1;
                if cs[i - 1] == '>' {
                    break;
                }
            }
        } else if c.is_alphanumeric() || c == '_' || c == '$' || c == '?' || c == '@' || !c.is_ascii() {
            while i < cs.len() && (cs[i].is_alphanumeric() || cs[i] == '_' || cs[i] == '$' || cs[i] == '?' || cs[i] == '@' || !cs[i].is_ascii()) && !cs[i].is_whitespace() {
                text.push(cs[i]);
                i += 1;
            }
        } else {
            text.push(c);
            i += 1;
        }
        out.push((lead, text));
    }
    out
}

fn join(toks: &[(String, String)]) -> String {
    let mut s = String::new();
    for (l, t) in toks {
        s.push_str(l);
        s.push_str(t);
    }
    s
}

pub const REPLACEMENTS: [&str; 6] = ["\u{e9}", "\u{1F600}", "\0", "'", "\"", "9223372036854775808"];

/// All single-token mutations and all byte truncations of `q`: (kind, string).
pub fn mutants(q: &str) -> Vec<(&'static str, String)> {
    let toks = tokenize(q);
    let mut out = vec![];
    for i in 0..toks.len() {
        let mut t = toks.clone();
        t.remove(i);
        out.push(("delete", join(&t)));
    }
    for i in 0..toks.len() {
        let mut t = toks.clone();
        let mut d = toks[i].clone();
        if d.0.is_empty() {
            d.0 = " ".into();
        }
        t.insert(i + 1, d);
        out.push(("duplicate", join(&t)));
    }
    for i in 0..toks.len().saturating_sub(1) {
        let mut t = toks.clone();
        let a = t[i].1.clone();
        t[i].1 = t[i + 1].1.clone();
        t[i + 1].1 = a;
        out.push(("swap", join(&t)));
    }
    for i in 0..toks.len() {
        for r in REPLACEMENTS {
            let mut t = toks.clone();
            t[i].1 = r.to_string();
            out.push(("replace", join(&t)));
        }
    }
    // a multi-byte character glued to each token boundary (no blank in between)
    for i in 0..toks.len() {
        for g in ["\u{e9}", "\u{1F600}"] {
            let mut t = toks.clone();
            t[i].1 = format!("{}{}", t[i].1, g);
            out.push(("glue-after", join(&t)));
            let mut t = toks.clone();
            t[i].1 = format!("{}{}", g, t[i].1);
            out.push(("glue-before", join(&t)));
        }
    }
    let b = q.as_bytes();
    for cut in 0..b.len() {
        // a cut inside a multi-byte character leaves U+FFFD at the end (a &str cannot hold a torn character)
        out.push(("truncate", String::from_utf8_lossy(&b[..cut]).into_owned()));
    }
    out
}

// ---------------------------------------------------------------------------
// (c) nesting ladders
// ---------------------------------------------------------------------------

pub struct Ladder {
    pub name: &'static str,
    pub prefix: &'static str,
    pub open: &'static str,
    pub core: &'static str,
    pub close: &'static str,
    pub suffix: &'static str,
}

const fn l(name: &'static str, prefix: &'static str, open: &'static str, core: &'static str, close: &'static str, suffix: &'static str) -> Ladder {
    Ladder { name, prefix, open, core, close, suffix }
}

pub fn ladders(lang: Lang) -> Vec<Ladder> {
    match lang {
        Lang::Gql => vec![
            l("paren", "MATCH (n) WHERE ", "(", "1", ")", " = 1 RETURN n"),
            l("list", "MATCH (n) RETURN ", "[", "1", "]", ""),
            l("not", "MATCH (n) WHERE ", "NOT ", "true", "", " RETURN n"),
            l("neg", "MATCH (n) RETURN ", "- ", "1", "", ""),
            l("func", "MATCH (n) RETURN ", "abs(", "1", ")", ""),
            l("case", "MATCH (n) RETURN ", "CASE WHEN true THEN ", "1", " END", ""),
            l("exists", "MATCH (n) WHERE ", "EXISTS { MATCH (n) WHERE ", "true", " RETURN n }", " RETURN n"),
            l("chain-add", "MATCH (n) RETURN 1", " + 1", "", "", ""),
            l("chain-and", "MATCH (n) WHERE true", " AND true", "", "", " RETURN n"),
            l("chain-or", "MATCH (n) WHERE n.age = 0", " OR n.age = 1", "", "", " RETURN n"),
            l("chain-hop", "MATCH (a)", "-->()", "", "", " RETURN a"),
            l("chain-match", "", "MATCH (n) ", "", "", "RETURN n"),
            l("chain-items", "MATCH (n) RETURN n", ", n", "", "", ""),
            l("chain-labels", "MATCH (n", ":L", "", "", ") RETURN n"),
            l("open-paren", "MATCH (n) WHERE ", "(", "", "", ""),
            l("open-bracket", "MATCH (n) RETURN ", "[", "", "", ""),
            l("open-brace", "INSERT (:L ", "{a: ", "", "", ""),
            l("open-node", "MATCH ", "(", "", "", ""),
        ],
        Lang::Cypher => vec![
            l("paren", "MATCH (n) WHERE ", "(", "1", ")", " = 1 RETURN n"),
            l("list", "RETURN ", "[", "1", "]", ""),
            l("map", "RETURN ", "{a: ", "1", "}", ""),
            l("not", "MATCH (n) WHERE ", "NOT ", "true", "", " RETURN n"),
            l("neg", "RETURN ", "- ", "1", "", ""),
            l("func", "RETURN ", "abs(", "1", ")", ""),
            l("case", "RETURN ", "CASE WHEN true THEN ", "1", " END", ""),
            l("exists", "MATCH (n) WHERE ", "EXISTS { MATCH (n) WHERE ", "true", " }", " RETURN n"),
            l("index", "RETURN [1]", "[0", "", "]", ""),
            l("listcomp", "RETURN ", "[x IN ", "[1]", " | x]", ""),
            l("chain-add", "RETURN 1", " + 1", "", "", ""),
            l("chain-pow", "RETURN 1", " ^ 1", "", "", ""),
            l("chain-and", "MATCH (n) WHERE true", " AND true", "", "", " RETURN n"),
            l("chain-or", "MATCH (n) WHERE n.age = 0", " OR n.age = 1", "", "", " RETURN n"),
            l("chain-hop", "MATCH (a)", "-->()", "", "", " RETURN a"),
            l("chain-match", "", "MATCH (n) ", "", "", "RETURN n"),
            l("chain-union", "RETURN 1 AS x", " UNION RETURN 1 AS x", "", "", ""),
            l("chain-with", "MATCH (n) ", "WITH n ", "", "", "RETURN n"),
            l("chain-prop", "RETURN {a: 1}", ".a", "", "", ""),
            l("open-paren", "RETURN ", "(", "", "", ""),
            l("open-bracket", "RETURN ", "[", "", "", ""),
            l("open-brace", "RETURN ", "{a: ", "", "", ""),
            l("open-node", "MATCH ", "(", "", "", ""),
        ],
        Lang::Gremlin => vec![
            l("from", "g.V().addE('x').from(", "g.V().addE('x').from(", "g.V()", ")", ")"),
            l("to", "g.addE('x').to(", "g.addE('x').to(", "g.V()", ")", ")"),
            l("chain-out", "g.V()", ".out()", "", "", ""),
            l("chain-has", "g.V()", ".has('age', gt(1))", "", "", ""),
            l("chain-fold", "g.V()", ".fold()", "", "", ".unfold()"),
            l("chain-as", "g.V()", ".as('a')", "", "", ".select('a')"),
            l("chain-by", "g.V().order()", ".by('age')", "", "", ""),
            l("chain-within", "g.V().has('age', within(1", ", 1", "", "", "))"),
            l("chain-labels", "g.V().hasLabel('a'", ", 'a'", "", "", ")"),
            l("chain-addv", "g.addV('x')", ".addV('x')", "", "", ""),
            l("chain-property", "g.addV('x')", ".property('k', 1)", "", "", ""),
            l("open-paren", "g.V", "(", "", "", ""),
            l("open-from", "g.addE('x')", ".from(g.addE('x')", "", "", ""),
        ],
        Lang::Graphql => vec![
            l("selection", "{ person ", "{ knows ", "{ name }", " }", " }"),
            l("list-value", "{ person(x: ", "[", "1", "]", ") { name } }"),
            l("object-value", "{ person(where: ", "{ a: ", "1", " }", ") { name } }"),
            l("list-type", "query($p: ", "[", "Int", "]", ") { person { name } }"),
            l("inline-fragment", "{ person { ", "... on Person { ", "name", " }", " } }"),
            l("and-or", "{ person(where: ", "{ AND: [", "{ age_gt: 1 }", "] }", ") { name } }"),
            l("chain-fields", "{ person { name", " name", "", "", " } }"),
            l("chain-args", "{ person(a: 1", ", a: 1", "", "", ") { name } }"),
            l("chain-roots", "{ person { name }", " person { name }", "", "", " }"),
            l("chain-directives", "{ person { name", " @a", "", "", " } }"),
            l("chain-fragments", "{ person { name } }", " fragment F on Person { name }", "", "", ""),
            l("chain-vars", "query(", "$p: Int ", "", "", ") { person { name } }"),
            l("open-brace", "", "{ a ", "", "", ""),
            l("open-bracket", "{ person(x: ", "[", "", "", ""),
            l("open-object", "{ person(x: ", "{ a: ", "", "", ""),
        ],
        Lang::Sparql => vec![
            l("group", "SELECT * WHERE ", "{ ", "?s ?p ?o", " }", ""),
            l("paren", "SELECT * WHERE { ?s ?p ?o FILTER(", "(", "1", ")", " = 1) }"),
            l("not", "SELECT * WHERE { ?s ?p ?o FILTER(", "!", "true", "", ") }"),
            l("neg", "SELECT * WHERE { ?s ?p ?o FILTER(", "- ", "1", "", " = 1) }"),
            l("func", "SELECT * WHERE { ?s ?p ?o FILTER(", "STR(", "?o", ")", " = \"a\") }"),
            l("optional", "SELECT * WHERE { ?s ?p ?o ", "OPTIONAL { ?s ?p ?o ", "", "} ", "}"),
            l("union", "SELECT * WHERE { ", "{ ?s ?p ?o } UNION { ", "?s ?p ?o", " }", " }"),
            l("subquery", "SELECT * WHERE { ", "{ SELECT * WHERE { ", "?s ?p ?o", " } }", " }"),
            l("exists", "SELECT * WHERE { ?s ?p ?o FILTER ", "EXISTS { ?s ?p ?o FILTER ", "EXISTS { ?s ?p ?o }", " }", " }"),
            l("bnode", "SELECT * WHERE { ?s ?p ", "[ ?p ", "?o", " ]", " }"),
            l("collection", "SELECT * WHERE { ?s ?p ", "(", "1", ")", " }"),
            l("path-paren", "SELECT * WHERE { ?s ", "(", "<http://ex.org/knows>", ")", " ?o }"),
            l("path-inverse", "SELECT * WHERE { ?s ", "^", "<http://ex.org/knows>", "", " ?o }"),
            l("path-star", "SELECT * WHERE { ?s ", "(", "<http://ex.org/knows>", ")*", " ?o }"),
            l("if", "SELECT (", "IF(true, ", "1", ", 0)", " AS ?x) WHERE { ?s ?p ?o }"),
            l("chain-add", "SELECT * WHERE { ?s ?p ?o FILTER(1", " + 1", "", "", " = 1) }"),
            l("chain-and", "SELECT * WHERE { ?s ?p ?o FILTER(true", " && true", "", "", ") }"),
            l("chain-or", "SELECT * WHERE { ?s ?p ?o FILTER(?o = 0", " || ?o = 1", "", "", ") }"),
            l("chain-triples", "SELECT * WHERE { ?s ?p ?o", " . ?s ?p ?o", "", "", " }"),
            l("chain-union", "SELECT * WHERE { { ?s ?p ?o }", " UNION { ?s ?p ?o }", "", "", " }"),
            l("chain-path-seq", "SELECT * WHERE { ?s <http://ex.org/knows>", "/<http://ex.org/knows>", "", "", " ?o }"),
            l("chain-path-alt", "SELECT * WHERE { ?s <http://ex.org/knows>", "|<http://ex.org/knows>", "", "", " ?o }"),
            l("chain-vars", "SELECT ?s", " ?s", "", "", " WHERE { ?s ?p ?o }"),
            l("chain-prefix", "", "PREFIX ex: <http://ex.org/> ", "", "", "SELECT * WHERE { ?s ?p ?o }"),
            l("chain-update", "INSERT DATA { <http://a> <http://p> 1 }", " ; INSERT DATA { <http://a> <http://p> 1 }", "", "", ""),
            l("chain-values", "SELECT * WHERE { ?s ?p ?o } VALUES ?s { 1", " 1", "", "", " }"),
            l("open-brace", "SELECT * WHERE ", "{ ", "", "", ""),
            l("open-paren", "SELECT * WHERE { ?s ?p ?o FILTER", "(", "", "", ""),
            l("open-bnode", "SELECT * WHERE { ?s ?p ", "[ ?p ", "", "", ""),
        ],
    }
}

pub fn ladder_string(ld: &Ladder, depth: usize) -> String {
    let mut s = String::with_capacity(ld.prefix.len() + ld.suffix.len() + ld.core.len() + depth * (ld.open.len() + ld.close.len()));
    s.push_str(ld.prefix);
    for _ in 0..depth {
        s.push_str(ld.open);
    }
    s.push_str(ld.core);
    for _ in 0..depth {
        s.push_str(ld.close);
    }
    s.push_str(ld.suffix);
    s
}

pub fn ladder_depths(max_log2: u32) -> Vec<usize> {
    (0..=max_log2).map(|k| 1usize << k).collect()
}

pub fn find_ladder(lang: Lang, name: &str) -> Option<Ladder> {
    ladders(lang).into_iter().find(|l| l.name == name)
}

// ---------------------------------------------------------------------------
// (e) arithmetic grid
// ---------------------------------------------------------------------------

pub fn arith(lang: Lang) -> Vec<(String, String)> {
    let mut out = vec![];
    let ops = ["+", "-", "*", "/", "%"];
    match lang {
        Lang::Gql | Lang::Cypher => {
            // literals and properties of G0 (n.zero=0, n.big=i64::MAX, n.low=i64::MIN, n.f=1e308, n.age, n.score)
            let operands = ["0", "1", "-1", "9223372036854775807", "-9223372036854775808", "(-9223372036854775807 - 1)", "0.0", "(0.0 / 0.0)", "1e308", "n.zero", "n.one", "n.neg", "n.big", "n.low", "n.f", "n.score"];
            let mut ops2: Vec<&str> = ops.to_vec();
            if lang == Lang::Cypher {
                ops2.push("^");
            }
            for a in operands {
                for b in operands {
                    for op in &ops2 {
                        let e = format!("{a} {op} {b}");
                        out.push((format!("where{op}"), format!("MATCH (n:Person) WHERE {e} > 1 RETURN n.name")));
                        out.push((format!("return{op}"), format!("MATCH (n:Person) RETURN {e}")));
                    }
                }
                out.push(("where-neg".into(), format!("MATCH (n:Person) WHERE -{a} > 1 RETURN n.name")));
                out.push(("return-neg".into(), format!("MATCH (n:Person) RETURN -{a}")));
                out.push(("return-neg2".into(), format!("MATCH (n:Person) RETURN - -{a}")));
                out.push(("set".into(), format!("MATCH (n:Person) SET n.x = {a} + n.big RETURN n.x")));
                out.push(("orderby".into(), format!("MATCH (n:Person) RETURN n.name ORDER BY n.age * {a}")));
                out.push(("agg".into(), format!("MATCH (n:Person) RETURN SUM(n.age * {a}), AVG({a}), MIN({a}), MAX(n.big + {a})")));
            }
        }
        Lang::Sparql => {
            let operands = ["0", "1", "-1", "9223372036854775807", "-9223372036854775808", "(-9223372036854775807 - 1)", "0.0", "(0.0 / 0.0)", "1e308", "?o", "\"9223372036854775807\"^^<http://www.w3.org/2001/XMLSchema#integer>", "\"-9223372036854775808\"^^<http://www.w3.org/2001/XMLSchema#integer>"];
            for a in operands {
                for b in operands {
                    for op in ["+", "-", "*", "/"] {
                        let e = format!("{a} {op} {b}");
                        out.push((format!("filter{op}"), format!("SELECT ?s WHERE {{ ?s <http://ex.org/age> ?o FILTER({e} > 1) }}")));
                        out.push((format!("bind{op}"), format!("SELECT ?s ?x WHERE {{ ?s <http://ex.org/age> ?o BIND({e} AS ?x) }}")));
                    }
                }
                out.push(("filter-neg".into(), format!("SELECT ?s WHERE {{ ?s <http://ex.org/age> ?o FILTER(-{a} > 1) }}")));
                out.push(("select-neg".into(), format!("SELECT (-{a} AS ?x) WHERE {{ ?s <http://ex.org/age> ?o }}")));
                out.push(("agg".into(), format!("SELECT (SUM(?o * {a}) AS ?t) (AVG({a}) AS ?m) WHERE {{ ?s <http://ex.org/age> ?o }}")));
            }
        }
        Lang::Gremlin | Lang::Graphql => {}
    }
    out
}

// ---------------------------------------------------------------------------
// the index space (segments are generated on demand; sizes are known up front)
// ---------------------------------------------------------------------------

use std::sync::{Arc, Mutex, OnceLock};

type Triple = (String, u32, String); // (shape, depth, query)

enum SegKind {
    Tokens { alpha: Vec<&'static str>, len: usize },
    Ladders { depths: Vec<usize> },
    Mutants { queries: Vec<&'static str>, offsets: Vec<usize>, cache: Mutex<Option<(usize, Arc<Vec<(&'static str, String)>>)>> },
    List { make: fn(Lang) -> Vec<Triple>, cell: OnceLock<Vec<Triple>> },
}

pub struct Seg {
    pub lang: Lang,
    pub family: &'static str,
    kind: SegKind,
    pub start: usize,
    pub count: usize,
}

pub struct Space {
    pub mutated_corpus_queries: usize,
    pub segs: Vec<Seg>,
    pub total: usize,
    pub max_tokens: usize,
    pub ladder_max_log2: u32,
}

fn mutant_count(q: &str) -> usize {
    let t = tokenize(q).len();
    t + t + t.saturating_sub(1) + REPLACEMENTS.len() * t + 4 * t + q.len()
}

fn list_corpus(lang: Lang) -> Vec<Triple> {
    corpus(lang).into_iter().map(|q| ("-".to_string(), 0, q.to_string())).collect()
}
fn list_edge(lang: Lang) -> Vec<Triple> {
    edge_corpus(lang).into_iter().map(|q| ("-".to_string(), 0, q)).collect()
}
fn list_arith(lang: Lang) -> Vec<Triple> {
    arith(lang).into_iter().map(|(s, q)| (s, 0, q)).collect()
}

impl Space {
    pub fn build(tier: Tier) -> Space {
        let max_tokens = tier.pick(3, 4);
        let ladder_max_log2 = tier.pick(12u32, 14u32);
        let mut segs: Vec<Seg> = vec![];
        let mut push = |lang: Lang, family: &'static str, kind: SegKind, count: usize| {
            segs.push(Seg { lang, family, kind, start: 0, count });
        };
        // Cheap, crash-prone families first so that a crash is seen early; the big token product last.
        for lang in LANGS {
            let depths = ladder_depths(ladder_max_log2);
            let n = ladders(lang).len() * depths.len();
            push(lang, "ladder", SegKind::Ladders { depths }, n);
        }
        for lang in LANGS {
            push(lang, "corpus", SegKind::List { make: list_corpus, cell: OnceLock::new() }, corpus(lang).len());
            push(lang, "edge", SegKind::List { make: list_edge, cell: OnceLock::new() }, edge_corpus(lang).len());
            let n = arith(lang).len();
            if n > 0 {
                push(lang, "arith", SegKind::List { make: list_arith, cell: OnceLock::new() }, n);
            }
        }
        for lang in LANGS {
            // quick tier mutates the first 30 corpus queries of each language, thorough all of them
            let mut queries = corpus(lang);
            queries.truncate(tier.pick(30, usize::MAX));
            let mut offsets = vec![0usize];
            for q in &queries {
                offsets.push(offsets.last().unwrap() + mutant_count(q));
            }
            let n = *offsets.last().unwrap();
            push(lang, "mutant", SegKind::Mutants { queries, offsets, cache: Mutex::new(None) }, n);
        }
        for len in 0..=max_tokens {
            for lang in LANGS {
                let alpha = alphabet(lang);
                let n = alpha.len().pow(len as u32);
                push(lang, "tokens", SegKind::Tokens { alpha, len }, n);
            }
        }
        let mut total = 0;
        for s in segs.iter_mut() {
            s.start = total;
            total += s.count;
        }
        Space { mutated_corpus_queries: tier.pick(30, usize::MAX), segs, total, max_tokens, ladder_max_log2 }
    }

    pub fn seg_of(&self, i: usize) -> &Seg {
        let k = self.segs.partition_point(|s| s.start + s.count <= i);
        &self.segs[k]
    }

    pub fn get(&self, i: usize) -> Item {
        let s = self.seg_of(i);
        let k = i - s.start;
        match &s.kind {
            SegKind::Tokens { alpha, len } => Item { lang: s.lang, family: s.family, shape: format!("len{len}"), depth: 0, query: token_string(alpha, *len, k) },
            SegKind::Ladders { depths } => {
                let lds = ladders(s.lang);
                let ld = &lds[k / depths.len()];
                let d = depths[k % depths.len()];
                Item { lang: s.lang, family: s.family, shape: ld.name.to_string(), depth: d as u32, query: ladder_string(ld, d) }
            }
            SegKind::Mutants { queries, offsets, cache } => {
                let qi = offsets.partition_point(|o| *o <= k) - 1;
                let list = {
                    let mut g = cache.lock().unwrap();
                    match &*g {
                        Some((c, l)) if *c == qi => l.clone(),
                        _ => {
                            let l = Arc::new(mutants(queries[qi]));
                            debug_assert_eq!(l.len(), offsets[qi + 1] - offsets[qi]);
                            *g = Some((qi, l.clone()));
                            l
                        }
                    }
                };
                let (kind, q) = &list[k - offsets[qi]];
                Item { lang: s.lang, family: s.family, shape: kind.to_string(), depth: 0, query: q.clone() }
            }
            SegKind::List { make, cell } => {
                let v = cell.get_or_init(|| make(s.lang));
                Item { lang: s.lang, family: s.family, shape: v[k].0.clone(), depth: v[k].1, query: v[k].2.clone() }
            }
        }
    }
}
