//! Child-process side of C12: runs query strings against the real front ends.
//!
//! Protocol on stdout (one line each, flushed before the next string/call starts):
//!   `S <idx>`                       string idx is about to run (batch mode)
//!   `C <call-desc>`                 call about to run
//!   `P <json>`                      a caught panic {idx, call, stage, msg, loc}
//!   `D <idx> <parsed> <translated> <calls> <ok> <err> <max_us>`
//!   `E`                             range finished
//! Anything else (death, silence) is interpreted by the parent.

use crate::inputs::{Lang, Space};
use grafeo_common::types::{PropertyKey, Timestamp, Value};
use grafeo_engine::GrafeoDB;
use serde_json::json;
use std::collections::{BTreeMap, HashMap};
use std::io::Write;
use std::sync::{Arc, Mutex};
use std::time::Instant;

pub const STACK_BYTES: usize = 8 * 1024 * 1024;
pub const MEM_CAP_BYTES: u64 = 2 * 1024 * 1024 * 1024;

// --- self-imposed address-space cap (no libc crate available; std links libc anyway) ---
#[repr(C)]
struct Rlimit {
    cur: u64,
    max: u64,
}
unsafe extern "C" {
    fn setrlimit(resource: i32, rlim: *const Rlimit) -> i32;
}
pub fn cap_memory() {
    #[cfg(all(target_os = "linux", target_pointer_width = "64"))]
    {
        const RLIMIT_AS: i32 = 9;
        const RLIMIT_CORE: i32 = 4;
        let r = Rlimit { cur: MEM_CAP_BYTES, max: MEM_CAP_BYTES };
        let z = Rlimit { cur: 0, max: 0 };
        // SAFETY: plain libc call with a valid pointer to a correctly laid out struct.
        unsafe {
            setrlimit(RLIMIT_AS, &r);
            setrlimit(RLIMIT_CORE, &z);
        }
    }
}

// --- panic bookkeeping: the FIRST panic since the last reset is the root cause ---
static LAST_PANIC: Mutex<Option<(String, String)>> = Mutex::new(None);

pub fn install_hook() {
    std::panic::set_hook(Box::new(|info| {
        let msg = if let Some(s) = info.payload().downcast_ref::<&str>() {
            (*s).to_string()
        } else if let Some(s) = info.payload().downcast_ref::<String>() {
            s.clone()
        } else {
            "non-string panic payload".to_string()
        };
        let loc = info.location().map(|l| format!("{}:{}", l.file(), l.line())).unwrap_or_else(|| "?".into());
        if let Ok(mut g) = LAST_PANIC.lock() {
            if g.is_none() {
                *g = Some((msg, loc));
            }
        }
    }));
}

fn take_panic() -> Option<(String, String)> {
    LAST_PANIC.lock().ok().and_then(|mut g| g.take())
}

// --- databases ---
#[derive(Clone, Copy, PartialEq, Eq, Debug)]
pub enum DbKind {
    Empty,
    G0,
}
impl DbKind {
    pub fn name(self) -> &'static str {
        match self {
            DbKind::Empty => "empty",
            DbKind::G0 => "G0",
        }
    }
}

pub const G0_SPARQL: &str = "INSERT DATA { <http://ex.org/a> <http://ex.org/name> \"Alice\" . <http://ex.org/a> <http://ex.org/age> 30 . <http://ex.org/a> <http://ex.org/knows> <http://ex.org/b> . <http://ex.org/b> <http://ex.org/age> 9223372036854775807 . <http://ex.org/b> <http://ex.org/score> 1.5 }";

pub fn make_db(kind: DbKind) -> GrafeoDB {
    let db = GrafeoDB::new_in_memory();
    if kind == DbKind::G0 {
        let props = |name: &str, age: i64, score: f64| -> Vec<(&'static str, Value)> {
            vec![
                ("name", Value::String(name.into())),
                ("age", Value::Int64(age)),
                ("score", Value::Float64(score)),
                ("zero", Value::Int64(0)),
                ("one", Value::Int64(1)),
                ("neg", Value::Int64(-1)),
                ("big", Value::Int64(i64::MAX)),
                ("low", Value::Int64(i64::MIN)),
                ("f", Value::Float64(1e308)),
            ]
        };
        let a = db.create_node_with_props(&["Person"], props("Alice", 30, 1.5));
        let b = db.create_node_with_props(&["Person"], props("Bob", 25, 2.5));
        db.create_edge_with_props(a, b, "KNOWS", vec![("since", Value::Int64(2020))]);
        let _ = db.execute_sparql(G0_SPARQL);
        if db.rdf_store().len() != 5 {
            // the population statement itself is part of the code under test; fall back to the store API
            use grafeo_core::graph::rdf::{Term, Triple};
            let s = db.rdf_store();
            s.clear();
            let xi = "http://www.w3.org/2001/XMLSchema#integer";
            let xd = "http://www.w3.org/2001/XMLSchema#double";
            s.insert(Triple::new(Term::iri("http://ex.org/a"), Term::iri("http://ex.org/name"), Term::literal("Alice")));
            s.insert(Triple::new(Term::iri("http://ex.org/a"), Term::iri("http://ex.org/age"), Term::typed_literal("30", xi)));
            s.insert(Triple::new(Term::iri("http://ex.org/a"), Term::iri("http://ex.org/knows"), Term::iri("http://ex.org/b")));
            s.insert(Triple::new(Term::iri("http://ex.org/b"), Term::iri("http://ex.org/age"), Term::typed_literal("9223372036854775807", xi)));
            s.insert(Triple::new(Term::iri("http://ex.org/b"), Term::iri("http://ex.org/score"), Term::typed_literal("1.5", xd)));
        }
    }
    db
}

// --- parameter maps ---
pub const PARAM_SETS_FULL: [&str; 17] = ["none", "empty", "missing", "null", "bool", "int", "intmax", "intmin", "float", "nan", "string", "bytes", "timestamp", "list", "map", "vector", "mixed"];
pub const PARAM_SETS_NOREF: [&str; 2] = ["none", "empty"];

pub fn param_value(name: &str) -> Option<Value> {
    Some(match name {
        "null" => Value::Null,
        "bool" => Value::Bool(true),
        "int" => Value::Int64(1),
        "intmax" => Value::Int64(i64::MAX),
        "intmin" => Value::Int64(i64::MIN),
        "float" => Value::Float64(2.5),
        "nan" => Value::Float64(f64::NAN),
        "string" => Value::String("Alice".into()),
        "bytes" => Value::Bytes(Arc::from(vec![0u8, 255, 0xC3].into_boxed_slice())),
        "timestamp" => Value::Timestamp(Timestamp::from_micros(i64::MAX)),
        "list" => Value::List(Arc::from(vec![Value::Int64(1), Value::String("x".into()), Value::Null, Value::List(Arc::from(Vec::<Value>::new().into_boxed_slice()))].into_boxed_slice())),
        "map" => {
            let mut m: BTreeMap<PropertyKey, Value> = BTreeMap::new();
            m.insert(PropertyKey::from("k"), Value::Int64(1));
            m.insert(PropertyKey::from(""), Value::Null);
            Value::Map(Arc::new(m))
        }
        "vector" => Value::Vector(Arc::from(vec![1.0f32, f32::NAN, f32::INFINITY].into_boxed_slice())),
        _ => return None,
    })
}

/// None = call the entry point without a parameter map.
pub fn param_map(name: &str) -> Option<HashMap<String, Value>> {
    let mut m = HashMap::new();
    match name {
        "none" => return None,
        "empty" => {}
        "missing" => {
            m.insert("zzz".to_string(), Value::Int64(1));
        }
        "mixed" => {
            m.insert("p".to_string(), Value::String("x".into()));
            m.insert("q".to_string(), Value::Int64(0));
        }
        other => {
            let v = param_value(other).unwrap_or(Value::Null);
            m.insert("p".to_string(), v.clone());
            m.insert("q".to_string(), v);
        }
    }
    Some(m)
}

pub fn param_json(name: &str) -> serde_json::Value {
    match param_map(name) {
        None => json!({"set": name, "api": "no-params entry point"}),
        Some(m) => {
            let mut o = serde_json::Map::new();
            let mut keys: Vec<&String> = m.keys().collect();
            keys.sort();
            for k in keys {
                o.insert(k.clone(), json!(format!("{:?}", m[k])));
            }
            json!({"set": name, "map": o})
        }
    }
}

// --- calls ---
#[derive(Clone, Debug, PartialEq, Eq)]
pub enum Call {
    Parse,
    Translate,
    Bind,
    Exec { db: DbKind, params: &'static str },
}
impl Call {
    pub fn desc(&self) -> String {
        match self {
            Call::Parse => "probe:parse".into(),
            Call::Translate => "probe:translate".into(),
            Call::Bind => "probe:bind".into(),
            Call::Exec { db, params } => format!("exec:{}:{}", db.name(), params),
        }
    }
}

pub fn entry_name(lang: Lang, with_params: bool) -> &'static str {
    match (lang, with_params) {
        (Lang::Gql, false) => "GrafeoDB::execute",
        (Lang::Gql, true) => "GrafeoDB::execute_with_params",
        (Lang::Cypher, false) => "GrafeoDB::execute_cypher",
        (Lang::Cypher, true) => "GrafeoDB::execute_cypher_with_params",
        (Lang::Gremlin, false) => "GrafeoDB::execute_gremlin",
        (Lang::Gremlin, true) => "GrafeoDB::execute_gremlin_with_params",
        (Lang::Graphql, false) => "GrafeoDB::execute_graphql",
        (Lang::Graphql, true) => "GrafeoDB::execute_graphql_with_params",
        (Lang::Sparql, false) => "GrafeoDB::execute_sparql",
        (Lang::Sparql, true) => "Session::execute_sparql_with_params",
    }
}

/// Ok(Some(rows)) / Ok(None)=Err value returned.
fn front_end(db: &GrafeoDB, lang: Lang, q: &str, params: Option<HashMap<String, Value>>) -> Option<usize> {
    let r = match (lang, params) {
        (Lang::Gql, None) => db.execute(q),
        (Lang::Gql, Some(p)) => db.execute_with_params(q, p),
        (Lang::Cypher, None) => db.execute_cypher(q),
        (Lang::Cypher, Some(p)) => db.execute_cypher_with_params(q, p),
        (Lang::Gremlin, None) => db.execute_gremlin(q),
        (Lang::Gremlin, Some(p)) => db.execute_gremlin_with_params(q, p),
        (Lang::Graphql, None) => db.execute_graphql(q),
        (Lang::Graphql, Some(p)) => db.execute_graphql_with_params(q, p),
        (Lang::Sparql, None) => db.execute_sparql(q),
        (Lang::Sparql, Some(p)) => db.session().execute_sparql_with_params(q, p),
    };
    r.ok().map(|qr| qr.rows.len())
}

fn probe_parse(lang: Lang, q: &str) -> bool {
    use grafeo_adapters::query as aq;
    match lang {
        Lang::Gql => aq::gql::parse(q).is_ok(),
        Lang::Cypher => aq::cypher::parse(q).is_ok(),
        Lang::Gremlin => aq::gremlin::parse(q).is_ok(),
        Lang::Graphql => aq::graphql::parse(q).is_ok(),
        Lang::Sparql => aq::sparql::parse(q).is_ok(),
    }
}

fn probe_translate(lang: Lang, q: &str) -> Option<grafeo_engine::query::LogicalPlan> {
    use grafeo_engine::query as eq;
    match lang {
        Lang::Gql => eq::translate_gql(q),
        Lang::Cypher => eq::translate_cypher(q),
        Lang::Gremlin => eq::translate_gremlin(q),
        Lang::Graphql => eq::translate_graphql(q),
        Lang::Sparql => eq::translate_sparql(q),
    }
    .ok()
}

pub fn stage_of(call: &Call, loc: &str) -> &'static str {
    if loc.contains("/lexer.rs") {
        return "lex";
    }
    match call {
        Call::Parse => "parse",
        Call::Translate => {
            if loc.contains("/parser.rs") {
                "parse"
            } else {
                "translate"
            }
        }
        Call::Bind => "bind",
        Call::Exec { .. } => {
            if loc.contains("/parser.rs") {
                "parse"
            } else if loc.contains("_translator.rs") {
                "translate"
            } else if loc.contains("/binder.rs") {
                "bind"
            } else if loc.contains("/optimizer") {
                "optimize"
            } else if loc.contains("/planner") || loc.contains("/processor.rs") {
                "plan"
            } else {
                "execute"
            }
        }
    }
}

pub struct PanicRec {
    pub call: String,
    pub stage: &'static str,
    pub msg: String,
    pub loc: String,
}

pub struct Outcome {
    pub parsed: bool,
    pub translated: bool,
    pub calls: u32,
    pub ok: u32,
    pub err: u32,
    pub max_us: u64,
    pub panics: Vec<PanicRec>,
}

/// Progress file shared with the parent: (marker sequence number, call code), written before every call.
pub struct Progress {
    file: Option<std::fs::File>,
    seq: u64,
}
impl Progress {
    pub fn open() -> Self {
        let file = std::env::var_os("C12_PROGRESS").and_then(|p| std::fs::OpenOptions::new().write(true).open(p).ok());
        Progress { file, seq: 0 }
    }
    pub fn mark(&mut self, code: u64) {
        use std::os::unix::fs::FileExt;
        self.seq += 1;
        if let Some(f) = &self.file {
            let mut b = [0u8; 16];
            b[0..8].copy_from_slice(&self.seq.to_le_bytes());
            b[8..16].copy_from_slice(&code.to_le_bytes());
            let _ = f.write_at(&b, 0);
        }
    }
}

pub struct Runner {
    pub progress: Progress,
    empty: Option<(GrafeoDB, u64)>,
    g0: Option<(GrafeoDB, u64)>,
}

/// Everything observable about the contents of a database; a batch worker keeps
/// using a database only while this is unchanged (creating one costs ~2 ms).
pub fn fingerprint(db: &GrafeoDB) -> u64 {
    let mut v: Vec<String> = vec![];
    v.push(format!("{} {} {} {} {}", db.node_count(), db.edge_count(), db.label_count(), db.property_key_count(), db.edge_type_count()));
    let mut items: Vec<String> = db.iter_nodes().map(|n| format!("{n:?}")).collect();
    items.extend(db.iter_edges().map(|e| format!("{e:?}")));
    items.extend(db.rdf_store().triples().iter().map(|t| format!("{t:?}")));
    items.sort();
    v.extend(items);
    vcore::hash_of(&v)
}

pub struct SoloOpts {
    pub reduced: bool,
    pub only_fe0: bool,
    pub skip_fe: usize,
}

impl Runner {
    pub fn new() -> Self {
        Runner { progress: Progress::open(), empty: None, g0: None }
    }
    fn db(&mut self, kind: DbKind) -> (&GrafeoDB, u64) {
        let slot = match kind {
            DbKind::Empty => &mut self.empty,
            DbKind::G0 => &mut self.g0,
        };
        if slot.is_none() {
            let db = make_db(kind);
            let fp = fingerprint(&db);
            *slot = Some((db, fp));
        }
        let (db, fp) = slot.as_ref().unwrap();
        (db, *fp)
    }
    fn dirty(&mut self, kind: DbKind) {
        match kind {
            DbKind::Empty => self.empty = None,
            DbKind::G0 => self.g0 = None,
        }
    }

    /// The calls made for one string are a deterministic function of (lang, query,
    /// outcome of the probes).  `solo` = emit a `C` marker before every call.
    pub fn run_string(&mut self, lang: Lang, q: &str, reduced: bool, solo: Option<&SoloOpts>, out: &mut impl Write) -> Outcome {
        let mut o = Outcome { parsed: false, translated: false, calls: 0, ok: 0, err: 0, max_us: 0, panics: vec![] };
        let mut progress = std::mem::replace(&mut self.progress, Progress { file: None, seq: 0 });
        let mut marker = |c: &Call, out: &mut dyn Write| {
            let _ = writeln!(out, "C {}", c.desc());
            let _ = out.flush();
            progress.mark(match c {
                Call::Parse => 1,
                Call::Translate => 2,
                Call::Bind => 3,
                Call::Exec { .. } => 4,
            });
        };
        let only_fe0 = solo.map(|s| s.only_fe0).unwrap_or(false);
        let skip_fe = solo.map(|s| s.skip_fe).unwrap_or(0);
        let mut probe_bad = false; // a probe panicked: front end is called once, on the empty db
        let mut plan = None;
        if !only_fe0 {
            // probe 1: parser entry point of grafeo-adapters
            marker(&Call::Parse, out);
            let _ = take_panic();
            let t = Instant::now();
            let r = vcore::catch(|| probe_parse(lang, q));
            o.max_us = o.max_us.max(t.elapsed().as_micros() as u64);
            match r {
                Ok(b) => o.parsed = b,
                Err(m) => {
                    let (msg, loc) = take_panic().unwrap_or((m, "?".into()));
                    o.panics.push(PanicRec { call: Call::Parse.desc(), stage: stage_of(&Call::Parse, &loc), msg, loc });
                    probe_bad = true;
                }
            }
            // probe 2: translator entry point of grafeo-engine
            if o.parsed && !probe_bad {
                marker(&Call::Translate, out);
                let t = Instant::now();
                let r = vcore::catch(|| probe_translate(lang, q));
                o.max_us = o.max_us.max(t.elapsed().as_micros() as u64);
                match r {
                    Ok(p) => {
                        o.translated = p.is_some();
                        plan = p;
                    }
                    Err(m) => {
                        let (msg, loc) = take_panic().unwrap_or((m, "?".into()));
                        o.panics.push(PanicRec { call: Call::Translate.desc(), stage: stage_of(&Call::Translate, &loc), msg, loc });
                        probe_bad = true;
                    }
                }
            }
            // probe 3: binder
            if let Some(p) = plan.take() {
                marker(&Call::Bind, out);
                let t = Instant::now();
                let r = vcore::catch(|| {
                    let mut b = grafeo_engine::query::binder::Binder::new();
                    let ok = b.bind(&p).is_ok();
                    drop(p);
                    ok
                });
                o.max_us = o.max_us.max(t.elapsed().as_micros() as u64);
                if let Err(m) = r {
                    let (msg, loc) = take_panic().unwrap_or((m, "?".into()));
                    o.panics.push(PanicRec { call: Call::Bind.desc(), stage: stage_of(&Call::Bind, &loc), msg, loc });
                    probe_bad = true;
                }
            }
        }
        // front-end calls
        let mut fe: Vec<Call> = vec![Call::Exec { db: DbKind::Empty, params: "none" }];
        if o.translated && !probe_bad && !only_fe0 {
            let sets: &[&'static str] = if q.contains('$') { &PARAM_SETS_FULL } else { &PARAM_SETS_NOREF };
            if reduced {
                // quick-tier ladders: both pipelines (session path, parameter path) and both databases, once each
                fe.push(Call::Exec { db: DbKind::G0, params: "empty" });
            } else {
                for db in [DbKind::Empty, DbKind::G0] {
                    for p in sets {
                        let c = Call::Exec { db, params: p };
                        if !fe.contains(&c) {
                            fe.push(c);
                        }
                    }
                }
            }
        }
        for (i, c) in fe.iter().enumerate() {
            if i < skip_fe {
                continue;
            }
            let Call::Exec { db: kind, params } = c else { continue };
            let pm = param_map(params);
            let (dbref, clean_fp) = self.db(*kind);
            marker(c, out);
            let _ = take_panic();
            let t = Instant::now();
            let r = vcore::catch(|| front_end(dbref, lang, q, pm));
            o.max_us = o.max_us.max(t.elapsed().as_micros() as u64);
            o.calls += 1;
            // solo runs (the source of every replay) always get a fresh database per call
            let mut dirty = solo.is_some();
            match r {
                Ok(Some(_)) => o.ok += 1,
                Ok(None) => o.err += 1,
                Err(m) => {
                    let (msg, loc) = take_panic().unwrap_or((m, "?".into()));
                    let stage = stage_of(c, &loc);
                    o.panics.push(PanicRec { call: c.desc(), stage, msg, loc });
                    // a panic before planning cannot have touched the database
                    dirty = dirty || !matches!(stage, "lex" | "parse" | "translate" | "bind");
                }
            }
            if !dirty && (o.parsed || probe_bad) {
                dirty = vcore::catch(|| fingerprint(dbref)).map(|f| f != clean_fp).unwrap_or(true);
            }
            if dirty {
                self.dirty(*kind);
            }
        }
        drop(marker);
        self.progress = progress;
        o
    }
}

fn emit_outcome(idx: usize, o: &Outcome, out: &mut impl Write) {
    for p in &o.panics {
        let _ = writeln!(out, "P {}", json!({"idx": idx, "call": p.call, "stage": p.stage, "msg": p.msg, "loc": p.loc}));
    }
    let _ = writeln!(out, "D {} {} {} {} {} {} {}", idx, o.parsed as u8, o.translated as u8, o.calls, o.ok, o.err, o.max_us);
}

fn on_case_thread<F: FnOnce() + Send + 'static>(f: F) {
    let h = std::thread::Builder::new().name("c12-case".into()).stack_size(STACK_BYTES).spawn(f).expect("spawn case thread");
    let _ = h.join();
}

/// `--worker <tier> <lo> <hi>`: run strings lo..hi of the space.
pub fn worker_main(tier: vcore::Tier, lo: usize, hi: usize) -> i32 {
    cap_memory();
    install_hook();
    on_case_thread(move || {
        let space = Space::build(tier);
        let stdout = std::io::stdout();
        let mut out = std::io::BufWriter::with_capacity(1 << 16, stdout.lock());
        let mut runner = Runner::new();
        for idx in lo..hi.min(space.total) {
            let item = space.get(idx);
            let _ = writeln!(out, "S {idx}");
            let _ = out.flush();
            runner.progress.mark(0);
            let o = runner.run_string(item.lang, &item.query, item.family == "ladder" && tier == vcore::Tier::Quick, None, &mut out);
            emit_outcome(idx, &o, &mut out);
        }
        let _ = writeln!(out, "E");
        let _ = out.flush();
        drop(out);
        // leave at once: tearing down databases and their helper threads is not under test
        std::process::exit(0);
    });
    0
}

/// `--solo <casefile> [--only-fe0] [--skip-fe n]`: one string, a marker before every call.
pub fn solo_main(case_file: &str, opts: SoloOpts) -> i32 {
    cap_memory();
    install_hook();
    let txt = std::fs::read_to_string(case_file).unwrap_or_default();
    let v: serde_json::Value = serde_json::from_str(&txt).unwrap_or(serde_json::Value::Null);
    let Some(lang) = v.get("lang").and_then(|x| x.as_str()).and_then(Lang::from_name) else { return 2 };
    let Some(q) = v.get("query").and_then(|x| x.as_str()).map(|s| s.to_string()) else { return 2 };
    on_case_thread(move || {
        let stdout = std::io::stdout();
        let mut out = stdout.lock();
        let mut runner = Runner::new();
        // build both databases before the first marker so that their cost is not charged to a call
        runner.db(DbKind::Empty);
        runner.db(DbKind::G0);
        let _ = writeln!(out, "S 0");
        let _ = out.flush();
        runner.progress.mark(0);
        let o = runner.run_string(lang, &q, opts.reduced, Some(&opts), &mut out);
        emit_outcome(0, &o, &mut out);
        let _ = writeln!(out, "E");
        let _ = out.flush();
        drop(out);
        // leave at once: tearing down databases and their helper threads is not under test
        std::process::exit(0);
    });
    0
}
