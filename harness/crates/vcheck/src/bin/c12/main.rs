//! C12 — no query text can crash or hang the embedding process (DESIGN.md §3/C12).
//!
//! Bounded-exhaustive enumeration of query strings for the five front ends
//! (GQL, Cypher, Gremlin, GraphQL, SPARQL), executed in sacrificial child
//! processes of this same binary.  `inputs.rs` writes the input space down
//! (token strings, corpus, mutants, boundary constants, nesting ladders,
//! arithmetic grid); `worker.rs` is what a child does with one string (parser,
//! translator, binder probes, then the public `execute*` entry points on an
//! empty database and on G0 with every parameter-map class).
//!
//! Parent side (this file): the index space is cut into chunks; 16 threads each
//! drive one child (`c12 --worker <tier> <lo> <hi>`) at a time.  Panics are
//! caught inside the child and reported with message and source location.  A
//! child that dies (stack overflow, abort, allocation failure under its 2 GiB
//! address-space cap) or that stays inside one call for too much CPU time is
//! killed; the offending string is re-run alone (`c12 --solo <case>`), call by
//! call, which yields the exact call, the stage and the kind, and is also what
//! `--replay` does.  Debug switches: `--list`, `--show <idx>`, `--family <f>`,
//! `--lang <l>`, `--range <lo> <hi>`, env `C12_TIMING=1`.

mod inputs;
mod worker;

use inputs::{Lang, Space};
use serde_json::{Value, json};
use std::collections::{BTreeMap, BTreeSet};
use std::io::{BufRead, BufReader, Read};
use std::process::{Child, Command, Stdio};
use std::sync::atomic::{AtomicUsize, Ordering};
use std::sync::mpsc;
use std::time::{Duration, Instant};
use vcore::{Report, Tier, Violation};

/// A call is a *hang candidate* in a batch when the child burnt this much CPU, or
/// this much wall time, without leaving the call (normal calls take 10 us .. 20 ms).
const BATCH_LIMITS: Limits = Limits { cpu_ms: 150, wall: Duration::from_secs(5) };
/// Verdict "timeout": re-run alone, one call did not return after this much CPU or wall time.
const SOLO_LIMITS: Limits = Limits { cpu_ms: 3_000, wall: Duration::from_secs(30) };
const STARTUP_DEADLINE: Duration = Duration::from_secs(120);
/// After this many full (solo) confirmations of a hang with the same (language, stage),
/// further candidates from the tiny-string families are recorded without the 3 s re-run.
const FULL_CONFIRMATIONS: u32 = 2;
const POLL: Duration = Duration::from_millis(20);
/// Limits used for parser/translator/binder probes of tiny strings once the same (language, stage) hang is confirmed.
const FAST_LIMITS: Limits = Limits { cpu_ms: 60, wall: Duration::from_secs(5) };
const SMALL_FAMILIES: [&str; 3] = ["tokens", "mutant", "edge"];
/// "small input" for the purposes of the time/memory clause of the statement.
const SMALL_INPUT_BYTES: usize = 4096;

#[derive(Clone, Copy, PartialEq)]
struct Limits {
    cpu_ms: u64,
    wall: Duration,
}

/// CPU time (user+system, all threads) consumed so far by process `pid`, in ms.
fn cpu_ms(pid: u32) -> Option<u64> {
    let s = std::fs::read_to_string(format!("/proc/{pid}/stat")).ok()?;
    let rest = &s[s.rfind(')')? + 1..];
    let f: Vec<&str> = rest.split_whitespace().collect();
    // after the comm field: state is f[0]; utime/stime are fields 14/15 of the full line = f[11], f[12]
    let ut: u64 = f.get(11)?.parse().ok()?;
    let st: u64 = f.get(12)?.parse().ok()?;
    Some((ut + st) * 10) // USER_HZ = 100 on Linux
}

fn main() {
    let argv: Vec<String> = std::env::args().skip(1).collect();
    // child modes are dispatched before anything else (they install their own panic hook)
    if argv.first().map(|s| s.as_str()) == Some("--worker") {
        let tier = if argv.get(1).map(|s| s.as_str()) == Some("thorough") { Tier::Thorough } else { Tier::Quick };
        let lo: usize = argv.get(2).and_then(|s| s.parse().ok()).unwrap_or(0);
        let hi: usize = argv.get(3).and_then(|s| s.parse().ok()).unwrap_or(0);
        std::process::exit(worker::worker_main(tier, lo, hi));
    }
    if argv.first().map(|s| s.as_str()) == Some("--solo") {
        let file = argv.get(1).cloned().unwrap_or_default();
        let only_fe0 = argv.iter().any(|a| a == "--only-fe0");
        let skip_fe = argv.iter().position(|a| a == "--skip-fe").and_then(|i| argv.get(i + 1)).and_then(|s| s.parse().ok()).unwrap_or(0);
        let reduced = argv.iter().any(|a| a == "--reduced");
        std::process::exit(worker::solo_main(&file, worker::SoloOpts { reduced, only_fe0, skip_fe }));
    }
    std::process::exit(run(vcheck::entry()));
}

// ---------------------------------------------------------------------------
// child management
// ---------------------------------------------------------------------------

#[derive(Debug, Clone)]
enum End {
    Finished,
    /// child process ended without `E`: (kind, human detail)
    Died { kind: &'static str, detail: String },
    Timeout,
}

struct ChildRun {
    fast_limits_applied: bool,
    spurious: bool,
    stuck_cpu_ms: u64,
    stuck_wall_ms: u64,
    lines: Vec<String>, // protocol lines other than S/C (P, D)
    last_s: Option<usize>,
    last_c: Option<String>,
    end: End,
}

fn classify_death(status: std::process::ExitStatus, stderr: &str) -> (&'static str, String) {
    use std::os::unix::process::ExitStatusExt;
    let tail: String = {
        let t = stderr.trim();
        let start = t.len().saturating_sub(400);
        let mut s = start;
        while !t.is_char_boundary(s) {
            s += 1;
        }
        t[s..].replace('\n', " | ")
    };
    let sig = status.signal();
    let kind = if stderr.contains("has overflowed its stack") || stderr.contains("stack overflow") {
        "stack-overflow"
    } else if stderr.contains("memory allocation of") {
        "oom"
    } else {
        "abort"
    };
    let how = match (sig, status.code()) {
        (Some(s), _) => format!("signal {s}"),
        (None, Some(c)) => format!("exit code {c}"),
        _ => "unknown status".into(),
    };
    (kind, format!("{how}; stderr: {tail}"))
}

static PROGRESS_SEQ: AtomicUsize = AtomicUsize::new(0);

fn marker_of_code(code: u64) -> Option<&'static str> {
    match code {
        1 => Some("probe:parse"),
        2 => Some("probe:translate"),
        3 => Some("probe:bind"),
        4 => Some("exec"),
        _ => None,
    }
}

/// Run one child; the limits apply to the time spent under one progress marker.
///
/// The hang decision never depends on how fast this process drains the child's pipe: the child stores
/// (marker sequence number, call code) in a small progress file before every call, and the parent reads
/// that file and /proc/<pid>/stat in the same poll.  The pipe (fully drained after the child is gone)
/// says which string and call the last marker belonged to.
fn run_child(args: &[String], limits_for: &dyn Fn(Option<&str>) -> Limits) -> ChildRun {
    use std::os::unix::fs::FileExt;
    let exe = std::env::current_exe().unwrap_or_else(|e| vcore::machinery_failure(&format!("current_exe: {e}")));
    let ppath = scratch().join(format!("progress-{}", PROGRESS_SEQ.fetch_add(1, Ordering::Relaxed)));
    std::fs::write(&ppath, [0u8; 16]).unwrap_or_else(|e| vcore::machinery_failure(&format!("progress file: {e}")));
    let pfile = std::fs::File::open(&ppath).unwrap_or_else(|e| vcore::machinery_failure(&format!("progress file: {e}")));
    let mut child: Child = Command::new(exe)
        .args(args)
        .env("C12_PROGRESS", &ppath)
        .env("RUST_BACKTRACE", "0")
        // allocator tuning only (glibc grows non-main arenas page by page through mprotect, which made a child 5x slower)
        .env("MALLOC_ARENA_MAX", "1")
        .env("MALLOC_TOP_PAD_", "33554432")
        .env("MALLOC_TRIM_THRESHOLD_", "268435456")
        .stdin(Stdio::null())
        .stdout(Stdio::piped())
        .stderr(Stdio::piped())
        .spawn()
        .unwrap_or_else(|e| vcore::machinery_failure(&format!("cannot spawn child: {e}")));
    let stdout = child.stdout.take().unwrap();
    let mut stderr = child.stderr.take().unwrap();
    let (tx, rx) = mpsc::channel::<String>();
    let reader = std::thread::spawn(move || {
        let br = BufReader::with_capacity(1 << 16, stdout);
        for line in br.split(b'\n') {
            match line {
                Ok(l) => {
                    if tx.send(String::from_utf8_lossy(&l).into_owned()).is_err() {
                        break;
                    }
                }
                Err(_) => break,
            }
        }
    });
    let err_reader = std::thread::spawn(move || {
        let mut buf = Vec::new();
        let _ = stderr.read_to_end(&mut buf);
        String::from_utf8_lossy(&buf).into_owned()
    });
    let mut run = ChildRun { fast_limits_applied: false, spurious: false, stuck_cpu_ms: 0, stuck_wall_ms: 0, lines: vec![], last_s: None, last_c: None, end: End::Finished };
    let pid = child.id();
    let mut finished = false;
    let mut timed_out = false;
    let spawned = Instant::now();
    let mut pipe_seq: u64 = 0; // markers seen on the pipe
    let mut decision_seq: u64 = 0;
    let mut last_poll = Instant::now();
    let mut poll_seq: u64 = u64::MAX;
    let mut poll_cpu: u64 = 0;
    let mut stuck_cpu: u64 = 0;
    let mut stuck_since = Instant::now();
    let handle = |line: String, run: &mut ChildRun, finished: &mut bool, pipe_seq: &mut u64| {
        if let Some(r) = line.strip_prefix("S ") {
            run.last_s = r.trim().parse().ok();
            run.last_c = None;
            *pipe_seq += 1;
        } else if let Some(r) = line.strip_prefix("C ") {
            run.last_c = Some(r.trim().to_string());
            *pipe_seq += 1;
        } else if line == "E" {
            *finished = true;
        } else if !line.is_empty() {
            run.lines.push(line);
        }
    };
    loop {
        match rx.recv_timeout(POLL) {
            Ok(line) => handle(line, &mut run, &mut finished, &mut pipe_seq),
            Err(mpsc::RecvTimeoutError::Timeout) => {}
            Err(mpsc::RecvTimeoutError::Disconnected) => break,
        }
        if last_poll.elapsed() >= POLL {
            last_poll = Instant::now();
            let cpu = cpu_ms(pid).unwrap_or(poll_cpu);
            let mut buf = [0u8; 16];
            let _ = pfile.read_at(&mut buf, 0);
            let fseq = u64::from_le_bytes(buf[0..8].try_into().unwrap());
            let code = u64::from_le_bytes(buf[8..16].try_into().unwrap());
            if fseq == poll_seq {
                stuck_cpu += cpu.saturating_sub(poll_cpu);
            } else {
                stuck_cpu = 0;
                stuck_since = last_poll;
                poll_seq = fseq;
            }
            poll_cpu = cpu;
            let limits = limits_for(marker_of_code(code));
            let over = if fseq > 0 { !finished && (stuck_cpu >= limits.cpu_ms || stuck_since.elapsed() >= limits.wall) } else { spawned.elapsed() >= STARTUP_DEADLINE };
            if over {
                timed_out = true;
                decision_seq = fseq;
                run.fast_limits_applied = limits == FAST_LIMITS;
                run.stuck_cpu_ms = stuck_cpu;
                run.stuck_wall_ms = stuck_since.elapsed().as_millis() as u64;
                let _ = child.kill();
                break;
            }
        }
    }
    let status = child.wait();
    let _ = reader.join();
    // everything the child wrote before it ended
    while let Ok(line) = rx.try_recv() {
        handle(line, &mut run, &mut finished, &mut pipe_seq);
    }
    let errtxt = err_reader.join().unwrap_or_default();
    let _ = std::fs::remove_file(&ppath);
    run.end = if finished {
        End::Finished
    } else if timed_out {
        // the child left the marker we judged in the instant before the kill: not a hang
        run.spurious = decision_seq == 0 || pipe_seq != decision_seq;
        if decision_seq == 0 {
            vcore::machinery_failure("child did not start within the startup deadline");
        }
        End::Timeout
    } else {
        match status {
            Ok(st) => {
                let (kind, detail) = classify_death(st, &errtxt);
                End::Died { kind, detail }
            }
            Err(e) => vcore::machinery_failure(&format!("wait on child: {e}")),
        }
    };
    run
}

// ---------------------------------------------------------------------------
// signatures
// ---------------------------------------------------------------------------

/// Normalised panic site: digits and quoted data removed, first 60 characters.
fn normalise(msg: &str) -> String {
    let mut out = String::new();
    let mut chars = msg.chars().peekable();
    let mut last_n = false;
    while let Some(c) = chars.next() {
        if c == '\'' || c == '"' || c == '`' {
            // skip to the matching quote (or the end)
            let mut closed = false;
            let mut skipped = String::new();
            for d in chars.by_ref() {
                if d == c {
                    closed = true;
                    break;
                }
                skipped.push(d);
            }
            out.push('Q');
            if !closed {
                // unbalanced quote: nothing more to keep
                let _ = skipped;
            }
            last_n = false;
        } else if c.is_ascii_digit() {
            if !last_n {
                out.push('N');
            }
            last_n = true;
        } else if c.is_control() {
            out.push(' ');
            last_n = false;
        } else {
            out.push(c);
            last_n = false;
        }
        if out.chars().count() >= 60 {
            break;
        }
    }
    out.trim().to_string()
}

fn short_loc(loc: &str) -> String {
    // keep the path from the repository root on, wherever the tree lives (/repo or a scratch copy)
    let l = match loc.find("/crates/grafeo-") {
        Some(p) => &loc[p + 1..],
        None => loc.strip_prefix("/repo/").unwrap_or(loc),
    };
    // std / registry locations: keep the tail only
    if let Some(p) = l.find("/library/") {
        return format!("std:{}", &l[p + 9..]);
    }
    if let Some(p) = l.find("/registry/src/") {
        let rest = &l[p + 14..];
        return format!("dep:{}", rest.splitn(2, '/').nth(1).unwrap_or(rest));
    }
    l.to_string()
}

fn case_json(item: &inputs::Item, call: &str) -> Value {
    // call = "probe:parse" | "exec:<db>:<params>"
    let parts: Vec<&str> = call.split(':').collect();
    let (db, params, entry) = if parts.first() == Some(&"exec") && parts.len() == 3 {
        (parts[1].to_string(), worker::param_json(parts[2]), worker::entry_name(item.lang, parts[2] != "none").to_string())
    } else {
        let api = match call {
            "probe:parse" => format!("grafeo_adapters::query::{}::parse", item.lang.name()),
            "probe:translate" => format!("grafeo_engine::query::translate_{}", item.lang.name()),
            _ => "grafeo_engine::query::binder::Binder::bind".to_string(),
        };
        ("none".to_string(), json!({"set": "none"}), api)
    };
    json!({
        "lang": item.lang.name(),
        "query": item.query,
        "query_bytes": item.query.len(),
        "db": db,
        "params": params,
        "entry": entry,
        "call": call,
        "family": item.family,
        "shape": item.shape,
        "depth": item.depth,
    })
}

fn display_query(q: &str) -> String {
    let j = serde_json::to_string(&vcore::truncate(q, 160)).unwrap_or_default();
    j
}

fn panic_violation(item: &inputs::Item, call: &str, stage: &str, msg: &str, loc: &str) -> Violation {
    let site = normalise(msg);
    let sl = short_loc(loc);
    Violation::new(
        &[("lang", item.lang.name()), ("stage", stage), ("kind", "panic"), ("site", &site), ("loc", &sl)],
        case_json(item, call),
        format!("{} panicked at {}: {} -- query {} [{}]", item.lang.name(), sl, vcore::truncate(msg, 160), display_query(&item.query), call),
    )
}

/// `[...*...]` inside a relationship pattern.
fn has_varlen_path(q: &str) -> bool {
    let mut depth = 0;
    for c in q.chars() {
        match c {
            '[' => depth += 1,
            ']' => depth -= 1,
            '*' if depth > 0 => return true,
            _ => {}
        }
    }
    false
}

fn death_violation(item: &inputs::Item, call: &str, stage: &str, kind: &str, detail: &str) -> Violation {
    // which construct nests/repeats (ladders); otherwise a coarse syntactic class so that different hang mechanisms do not share a signature
    let shape = if item.family == "ladder" {
        item.shape.as_str()
    } else if matches!(item.lang, Lang::Gql | Lang::Cypher) && stage == "execute" && has_varlen_path(&item.query) {
        "varlen-path"
    } else if matches!(item.lang, Lang::Gql | Lang::Cypher) && item.query.matches("MATCH").count() >= 16 {
        "chain-match"
    } else {
        "-"
    };
    Violation::new(
        &[("lang", item.lang.name()), ("stage", stage), ("kind", kind), ("site", "-"), ("loc", "-"), ("shape", shape)],
        case_json(item, call),
        format!("{} {} in stage {} ({}) -- query {} ({} bytes, depth {}) [{}]", item.lang.name(), kind, stage, vcore::truncate(detail, 200), display_query(&item.query), item.query.len(), item.depth, call),
    )
}

// ---------------------------------------------------------------------------
// solo re-run of one string: exact call, stage and kind of every death
// ---------------------------------------------------------------------------

static CONFIRMED_HANGS: std::sync::Mutex<BTreeMap<String, u32>> = std::sync::Mutex::new(BTreeMap::new());

fn confirmed_hangs(lang: Lang, stage: &str) -> u32 {
    CONFIRMED_HANGS.lock().unwrap().get(&format!("{}|{}", lang.name(), stage)).copied().unwrap_or(0)
}
fn note_confirmed_hang(lang: Lang, stage: &str) {
    *CONFIRMED_HANGS.lock().unwrap().entry(format!("{}|{}", lang.name(), stage)).or_insert(0) += 1;
}

fn stage_of_marker(call: &str) -> &'static str {
    match call {
        "probe:parse" => "parse",
        "probe:translate" => "translate",
        "probe:bind" => "bind",
        _ => "execute",
    }
}

struct SoloResult {
    large_slow: u32,
    hang_stages: Vec<String>,
    violations: Vec<Violation>,
    deaths: u32,
    timeouts: u32,
    child_runs: u32,
    summary: Option<Vec<u64>>, // D line numbers of the last finished run
}

fn scratch() -> std::path::PathBuf {
    let p = vcore::verif_root().join("target/scratch").join(format!("c12-{}", std::process::id()));
    let _ = std::fs::create_dir_all(&p);
    p
}

static CASE_SEQ: AtomicUsize = AtomicUsize::new(0);

fn solo(item: &inputs::Item, fe0_only_from_start: bool) -> SoloResult {
    solo_x(item, fe0_only_from_start, false)
}

fn solo_x(item: &inputs::Item, fe0_only_from_start: bool, reduced: bool) -> SoloResult {
    let file = scratch().join(format!("case-{}.json", CASE_SEQ.fetch_add(1, Ordering::Relaxed)));
    std::fs::write(&file, json!({"lang": item.lang.name(), "query": item.query}).to_string()).unwrap_or_else(|e| vcore::machinery_failure(&format!("case file: {e}")));
    let mut res = SoloResult { large_slow: 0, hang_stages: vec![], violations: vec![], deaths: 0, timeouts: 0, child_runs: 0, summary: None };
    let mut seen: BTreeSet<String> = BTreeSet::new();
    let mut only_fe0 = fe0_only_from_start;
    let mut skip = 0usize;
    let mut stage_hint: Option<String> = None;
    for _round in 0..80 {
        let mut args = vec!["--solo".to_string(), file.display().to_string()];
        if only_fe0 {
            args.push("--only-fe0".into());
        }
        if reduced {
            args.push("--reduced".into());
        }
        if skip > 0 {
            args.push("--skip-fe".into());
            args.push(skip.to_string());
        }
        let run = run_child(&args, &|_| SOLO_LIMITS);
        res.child_runs += 1;
        for l in &run.lines {
            if let Some(j) = l.strip_prefix("P ") {
                if let Ok(v) = serde_json::from_str::<Value>(j) {
                    let call = v["call"].as_str().unwrap_or("?");
                    let mut stage = v["stage"].as_str().unwrap_or("?").to_string();
                    if call.starts_with("exec:") && stage == "execute" {
                        if let Some(h) = &stage_hint {
                            stage = h.clone();
                        }
                    }
                    let viol = panic_violation(item, call, &stage, v["msg"].as_str().unwrap_or(""), v["loc"].as_str().unwrap_or("?"));
                    if seen.insert(viol.sig_string()) {
                        res.violations.push(viol);
                    }
                }
            } else if let Some(d) = l.strip_prefix("D ") {
                res.summary = Some(d.split_whitespace().filter_map(|x| x.parse().ok()).collect());
            }
        }
        let (kind, detail): (&str, String) = match &run.end {
            End::Finished => break,
            End::Timeout if run.spurious => continue,
            End::Died { kind, detail } => {
                res.deaths += 1;
                (kind, detail.clone())
            }
            End::Timeout if item.query.len() > SMALL_INPUT_BYTES => {
                // slow large input: reported in the evidence, not judged (see SMALL_INPUT_BYTES)
                res.large_slow += 1;
                break;
            }
            End::Timeout => {
                res.timeouts += 1;
                ("timeout", format!("run alone, the call did not return: {} ms CPU / {} ms wall spent in it (limits {} ms CPU, {} s wall)", run.stuck_cpu_ms, run.stuck_wall_ms, SOLO_LIMITS.cpu_ms, SOLO_LIMITS.wall.as_secs()))
            }
        };
        let Some(call) = run.last_c.clone() else {
            if run.last_s.is_none() {
                vcore::machinery_failure(&format!("solo child died before its first marker: {detail}"));
            }
            // died after S but before the first call marker: database construction — not attributable to the query
            vcore::machinery_failure(&format!("solo child died while building databases: {detail}"));
        };
        let is_probe = call.starts_with("probe:");
        let stage = if is_probe { call.trim_start_matches("probe:").to_string() } else { stage_hint.clone().unwrap_or_else(|| "execute".into()) };
        if kind == "timeout" {
            res.hang_stages.push(stage.clone());
        }
        let viol = death_violation(item, &call, &stage, kind, &detail);
        if seen.insert(format!("{}|{}", viol.sig_string(), if is_probe { "probe" } else { "fe" })) {
            res.violations.push(viol);
        }
        if is_probe {
            stage_hint = Some(stage);
            only_fe0 = true;
            skip = 0;
        } else if only_fe0 || item.family == "ladder" {
            // ladders: one dead front-end call per string is enough (the other databases/parameter maps repeat it at a high price)
            break;
        } else {
            // resume after the offending front-end call
            let idx = fe_index(&call, item);
            skip = idx + 1;
        }
    }
    let _ = std::fs::remove_file(&file);
    res
}

/// Position of an exec call in the worker's deterministic front-end call list.
fn fe_index(call: &str, item: &inputs::Item) -> usize {
    let sets: &[&str] = if item.query.contains('$') { &worker::PARAM_SETS_FULL } else { &worker::PARAM_SETS_NOREF };
    let mut list = vec!["exec:empty:none".to_string()];
    for db in ["empty", "G0"] {
        for p in sets {
            let c = format!("exec:{db}:{p}");
            if !list.contains(&c) {
                list.push(c);
            }
        }
    }
    list.iter().position(|c| c == call).unwrap_or(usize::MAX - 1)
}

// ---------------------------------------------------------------------------
// statistics
// ---------------------------------------------------------------------------

#[derive(Default, Clone)]
struct FamStats {
    strings: u64,
    parsed: u64,
    translated: u64,
    calls: u64,
    ok: u64,
    err: u64,
    strings_ok: u64, // strings with at least one front-end call returning Ok
    panic_strings: u64,
    dead_strings: u64,
    timeout_strings: u64,
    large_slow_strings: u64,
    max_us: u64,
}
impl FamStats {
    fn add(&mut self, o: &FamStats) {
        self.strings += o.strings;
        self.parsed += o.parsed;
        self.translated += o.translated;
        self.calls += o.calls;
        self.ok += o.ok;
        self.err += o.err;
        self.strings_ok += o.strings_ok;
        self.panic_strings += o.panic_strings;
        self.dead_strings += o.dead_strings;
        self.timeout_strings += o.timeout_strings;
        self.large_slow_strings += o.large_slow_strings;
        self.max_us = self.max_us.max(o.max_us);
    }
    fn json(&self) -> Value {
        json!({"strings": self.strings, "accepted_by_parser": self.parsed, "translated": self.translated, "front_end_calls": self.calls, "returned_ok": self.ok, "returned_err": self.err,
               "strings_with_an_ok_call": self.strings_ok, "strings_with_panic": self.panic_strings, "strings_killing_the_process": self.dead_strings, "strings_timing_out": self.timeout_strings, "large_strings_given_up_as_slow": self.large_slow_strings, "slowest_call_us": self.max_us})
    }
}

/// At most this many violation records per signature and chunk are kept as objects (each carries its case);
/// all occurrences are counted in `sig_counts`.
const RECORDS_PER_SIG_PER_CHUNK: u64 = 3;

struct Shard {
    sig_counts: BTreeMap<String, u64>,
    rep: Report,
    stats: BTreeMap<(Lang, &'static str), FamStats>,
    ladder: BTreeMap<(Lang, String), (u32, u32, u32)>, // (max depth that returned, min depth that killed the process, min depth that hung / was given up as slow)
    slow: Vec<(u64, usize)>,
    large_slow: Vec<Value>,
    child_runs: u64,
    slow_rechecks: u64,
    fast_path_hangs: u64,
    ladder_skipped: u64,
    spurious_kills: u64,
}

/// Limits for the call currently running in a batch child of segment (lang, family).
fn batch_limits(lang: Lang, family: &str, marker: Option<&str>) -> Limits {
    if family == "ladder" {
        // large inputs may legitimately be slow; the batch run itself is the full-length observation
        return SOLO_LIMITS;
    }
    if let Some(m) = marker {
        if m.starts_with("probe:") && SMALL_FAMILIES.contains(&family) && confirmed_hangs(lang, stage_of_marker(m)) >= FULL_CONFIRMATIONS {
            return FAST_LIMITS;
        }
    }
    BATCH_LIMITS
}

fn process_chunk(space: &Space, tier: Tier, lo: usize, hi: usize) -> Shard {
    let mut sh = Shard { sig_counts: BTreeMap::new(), rep: Report::new("C12", tier, "exploration"), stats: BTreeMap::new(), ladder: BTreeMap::new(), slow: vec![], large_slow: vec![], child_runs: 0, slow_rechecks: 0, fast_path_hangs: 0, ladder_skipped: 0, spurious_kills: 0 };
    let seg = space.seg_of(lo);
    let (seg_lang, seg_family) = (seg.lang, seg.family);
    let mut cur = lo;
    while cur < hi {
        let args = vec!["--worker".to_string(), tier.as_str().to_string(), cur.to_string(), hi.to_string()];
        let run = run_child(&args, &|m| batch_limits(seg_lang, seg_family, m));
        sh.child_runs += 1;
        // completed strings
        let mut panics: BTreeMap<usize, Vec<Value>> = BTreeMap::new();
        let mut done_upto = cur; // exclusive
        for l in &run.lines {
            if let Some(j) = l.strip_prefix("P ") {
                if let Ok(v) = serde_json::from_str::<Value>(j) {
                    panics.entry(v["idx"].as_u64().unwrap_or(0) as usize).or_default().push(v);
                }
            } else if let Some(d) = l.strip_prefix("D ") {
                let n: Vec<u64> = d.split_whitespace().filter_map(|x| x.parse().ok()).collect();
                if n.len() != 7 {
                    vcore::machinery_failure(&format!("bad D line from child: {l}"));
                }
                let idx = n[0] as usize;
                let item = space.get(idx);
                record_done(&mut sh, &item, &n, idx);
                if let Some(ps) = panics.remove(&idx) {
                    sh.stats.entry((item.lang, item.family)).or_default().panic_strings += 1;
                    for v in ps {
                        sh.push_violation(panic_violation(&item, v["call"].as_str().unwrap_or("?"), v["stage"].as_str().unwrap_or("?"), v["msg"].as_str().unwrap_or(""), v["loc"].as_str().unwrap_or("?")));
                    }
                }
                done_upto = done_upto.max(idx + 1);
            }
        }
        match run.end {
            End::Finished => {
                if done_upto < hi {
                    vcore::machinery_failure(&format!("worker finished but reported only up to {done_upto} of {hi}"));
                }
                cur = hi;
            }
            End::Timeout if run.spurious => {
                sh.spurious_kills += 1;
                cur = done_upto;
            }
            End::Died { .. } | End::Timeout => {
                let Some(k) = run.last_s else { vcore::machinery_failure(&format!("worker died before its first string: {:?}", run.end)) };
                if k < done_upto {
                    vcore::machinery_failure(&format!("worker died between strings ({k} already done): {:?}", run.end));
                }
                let item = space.get(k);
                let is_timeout = matches!(run.end, End::Timeout);
                let mut bad = true; // did string k really kill / hang the process?
                let mut died = false;
                if is_timeout && item.query.len() > SMALL_INPUT_BYTES {
                    // the statement bounds time and memory "on small input" only: a slow large input is reported, not judged
                    let call = run.last_c.clone().unwrap_or_default();
                    sh.large_slow.push(json!({"lang": item.lang.name(), "shape": item.shape, "depth": item.depth, "bytes": item.query.len(), "call": call, "cpu_ms_before_giving_up": run.stuck_cpu_ms}));
                    let st = sh.stats.entry((item.lang, item.family)).or_default();
                    st.strings += 1;
                    st.large_slow_strings += 1;
                    sh.rep.evaluations += 1;
                } else if let (true, Some(call)) = (is_timeout && run.fast_limits_applied, run.last_c.as_deref()) {
                    // fast path: same language+stage already confirmed in full FULL_CONFIRMATIONS times
                    let stage = stage_of_marker(call);
                    let detail = format!(
                        "hang candidate: {} ms CPU / {} ms wall inside this one call in a batch (normal: < 1 ms); not re-run alone because {} hangs with the same language+stage were already confirmed with {} ms CPU each",
                        run.stuck_cpu_ms, run.stuck_wall_ms, FULL_CONFIRMATIONS, SOLO_LIMITS.cpu_ms
                    );
                    sh.push_violation(death_violation(&item, call, stage, "timeout", &detail));
                    sh.rep.evaluations += 1;
                    sh.fast_path_hangs += 1;
                    let st = sh.stats.entry((item.lang, item.family)).or_default();
                    st.strings += 1;
                    st.timeout_strings += 1;
                } else {
                    // string k is the suspect: re-run it alone, call by call
                    let sr = solo_x(&item, false, item.family == "ladder" && tier == Tier::Quick);
                    for h in &sr.hang_stages {
                        note_confirmed_hang(item.lang, h);
                    }
                    sh.child_runs += sr.child_runs as u64;
                    if let Some(n) = &sr.summary {
                        if n.len() == 7 {
                            record_done(&mut sh, &item, n, k);
                        }
                    } else {
                        sh.stats.entry((item.lang, item.family)).or_default().strings += 1;
                    }
                    let st = sh.stats.entry((item.lang, item.family)).or_default();
                    if sr.deaths > 0 {
                        st.dead_strings += 1;
                        died = true;
                    }
                    if sr.large_slow > 0 {
                        st.large_slow_strings += 1;
                        sh.large_slow.push(json!({"lang": item.lang.name(), "shape": item.shape, "depth": item.depth, "bytes": item.query.len(), "call": "solo", "cpu_ms_before_giving_up": SOLO_LIMITS.cpu_ms}));
                    }
                    if sr.timeouts > 0 {
                        st.timeout_strings += 1;
                    }
                    if sr.deaths == 0 && sr.timeouts == 0 && sr.large_slow == 0 {
                        bad = false;
                        if !sr.violations.is_empty() {
                            st.panic_strings += 1;
                        }
                        // The batch child died/stalled here but the string alone returns in time.
                        match &run.end {
                            End::Died { kind, detail } => {
                                let mut v = death_violation(&item, "batch", "unknown", kind, detail);
                                v.sig.insert("solo".into(), "not-reproduced".into());
                                sh.push_violation(v);
                            }
                            _ => sh.slow_rechecks += 1,
                        }
                    } else {
                        sh.rep.evaluations += (sr.deaths + sr.timeouts) as u64;
                    }
                    for v in sr.violations {
                        sh.push_violation(v);
                    }
                }
                if bad && item.family == "ladder" {
                    let e = sh.ladder.entry((item.lang, item.shape.clone())).or_insert((0, u32::MAX, u32::MAX));
                    if died {
                        e.1 = e.1.min(item.depth);
                    } else {
                        e.2 = e.2.min(item.depth);
                    }
                }
                cur = k + 1;
                if bad && item.family == "ladder" && tier == Tier::Quick {
                    // quick tier: a ladder stops at its first crash or hang (one chunk = one ladder); thorough runs every depth
                    sh.ladder_skipped += (hi - cur) as u64;
                    cur = hi;
                }
            }
        }
    }
    sh
}

impl Shard {
    fn push_violation(&mut self, v: Violation) {
        let c = self.sig_counts.entry(v.sig_string()).or_insert(0);
        *c += 1;
        if *c <= RECORDS_PER_SIG_PER_CHUNK {
            self.rep.violation(v);
        }
    }
}

fn record_done(sh: &mut Shard, item: &inputs::Item, n: &[u64], idx: usize) {
    let st = sh.stats.entry((item.lang, item.family)).or_default();
    st.strings += 1;
    st.parsed += n[1];
    st.translated += n[2];
    st.calls += n[3];
    st.ok += n[4];
    st.err += n[5];
    st.max_us = st.max_us.max(n[6]);
    if n[4] > 0 {
        st.strings_ok += 1;
    }
    sh.rep.evaluations += n[3] + 1; // front-end calls + the parser probe
    if n[1] == 1 {
        sh.rep.nontrivial(&(item.lang.name(), &item.query));
    }
    if n[6] > 200_000 {
        sh.slow.push((n[6], idx));
    }
    if (idx % 9973 == 7 && n[1] == 1) || (item.family == "corpus" && idx % 17 == 3) {
        sh.rep.sample(json!({"lang": item.lang.name(), "family": item.family, "query": item.query, "accepted_by_parser": n[1] == 1, "front_end_calls": n[3], "returned_ok": n[4], "returned_err": n[5]}));
    }
    if item.family == "ladder" {
        let e = sh.ladder.entry((item.lang, item.shape.clone())).or_insert((0, u32::MAX, u32::MAX));
        e.0 = e.0.max(item.depth);
    }
}

// ---------------------------------------------------------------------------
// ladder bisection: largest depth that still returns, per shape
// ---------------------------------------------------------------------------

fn bisect_ladder(lang: Lang, shape: &str, ok: u32, bad: u32) -> (u32, u32, u32) {
    let Some(ld) = inputs::find_ladder(lang, shape) else { return (ok, bad, 0) };
    let (mut lo, mut hi) = (ok, bad);
    let mut runs = 0;
    while hi - lo > 1 && hi != u32::MAX {
        let mid = lo + (hi - lo) / 2;
        let item = inputs::Item { lang, family: "ladder", shape: shape.to_string(), depth: mid, query: inputs::ladder_string(&ld, mid as usize) };
        let sr = solo(&item, true);
        runs += sr.child_runs;
        if sr.deaths > 0 || sr.timeouts > 0 || sr.large_slow > 0 {
            hi = mid;
        } else {
            lo = mid;
        }
    }
    (lo, hi, runs)
}

// ---------------------------------------------------------------------------
// run
// ---------------------------------------------------------------------------

fn replay(case: &Value) -> i32 {
    let Some(lang) = case["lang"].as_str().and_then(Lang::from_name) else { vcore::machinery_failure("replay case without lang") };
    let Some(q) = case["query"].as_str() else { vcore::machinery_failure("replay case without query") };
    let fam = case["family"].as_str().unwrap_or("-");
    let item = inputs::Item { lang, family: if fam == "ladder" { "ladder" } else { "replay" }, shape: case["shape"].as_str().unwrap_or("-").to_string(), depth: case["depth"].as_u64().unwrap_or(0) as u32, query: q.to_string() };
    let a = solo(&item, false);
    let b = solo(&item, false);
    let sa: Vec<String> = a.violations.iter().map(|v| v.sig_string()).collect();
    let sb: Vec<String> = b.violations.iter().map(|v| v.sig_string()).collect();
    if sa != sb {
        println!("REPLAY property=C12: note: two runs differ: {sa:?} vs {sb:?}");
    }
    vcheck::replay_report("C12", a.violations)
}

fn run(args: vcore::Args) -> i32 {
    if let Some(p) = args.replay.as_deref() {
        let case = vcore::read_replay_case(p);
        return replay(&case);
    }
    let tier = args.tier;
    let space = Space::build(tier);
    if args.rest.iter().any(|a| a == "--list") {
        // debugging aid: print the space (family sizes) and exit
        for s in &space.segs {
            println!("{:8} {:8} start={} count={}", s.lang.name(), s.family, s.start, s.count);
        }
        println!("total {}", space.total);
        return 0;
    }
    if let Some(i) = args.rest.iter().position(|a| a == "--show") {
        let k: usize = args.rest.get(i + 1).and_then(|s| s.parse().ok()).unwrap_or(0);
        let it = space.get(k);
        println!("{} {} {} {:?}", it.lang.name(), it.family, it.shape, it.query);
        return 0;
    }
    let only_family: Option<String> = args.rest.iter().position(|a| a == "--family").and_then(|i| args.rest.get(i + 1).cloned());
    let only_lang: Option<String> = args.rest.iter().position(|a| a == "--lang").and_then(|i| args.rest.get(i + 1).cloned());

    let mut rep = Report::new("C12", tier, "exploration");
    rep.max_samples = 10;
    rep.rule = "every string of the written-down product (token strings, corpus, single-token mutants and byte truncations of the corpus, boundary-constant queries, nesting ladders, arithmetic grid) is handed to the parser, the translator, the binder and the public execute* entry point of its language, on an empty database and on G0, with every parameter-map class, inside a sacrificial child process; a case is non-trivial when the parser accepted the string (distinct by language+text)".into();

    // chunks: contiguous index ranges, never across a segment; small chunks where execution dominates
    let mut chunks: Vec<(usize, usize)> = vec![];
    for s in &space.segs {
        if only_family.as_deref().map(|f| f != s.family).unwrap_or(false) || only_lang.as_deref().map(|l| l != s.lang.name()).unwrap_or(false) {
            continue;
        }
        let step = match s.family {
            "tokens" => 4_000,
            "ladder" => inputs::ladder_depths(space.ladder_max_log2).len(), // one ladder per chunk
            "edge" | "corpus" => 40,
            "arith" => 250,
            _ => 300,
        };
        let mut a = s.start;
        while a < s.start + s.count {
            let b = (a + step).min(s.start + s.count);
            chunks.push((a, b));
            a = b;
        }
    }
    let only_range: Option<(usize, usize)> = args.rest.iter().position(|a| a == "--range").and_then(|i| Some((args.rest.get(i + 1)?.parse().ok()?, args.rest.get(i + 2)?.parse().ok()?)));
    if let Some((a, b)) = only_range {
        chunks.retain(|c| c.0 >= a && c.1 <= b);
    }
    let filtered = only_family.is_some() || only_lang.is_some() || only_range.is_some();
    let workers = vcore::cores();
    let timing = std::env::var("C12_TIMING").is_ok();
    let shards = vcore::par_map(&chunks, workers, |_, &(lo, hi)| {
        let t = Instant::now();
        let sh = process_chunk(&space, tier, lo, hi);
        if timing {
            let s = space.seg_of(lo);
            eprintln!("TIMING {:8} {:8} {lo}..{hi} {:.2}s children={}", s.lang.name(), s.family, t.elapsed().as_secs_f64(), sh.child_runs);
        }
        sh
    });

    let mut stats: BTreeMap<(Lang, &'static str), FamStats> = BTreeMap::new();
    let mut ladder: BTreeMap<(Lang, String), (u32, u32, u32)> = BTreeMap::new();
    let mut slow: Vec<(u64, usize)> = vec![];
    let mut large_slow: Vec<Value> = vec![];
    let mut ladder_skipped = 0u64;
    let mut spurious_kills = 0u64;
    let mut child_runs = 0u64;
    let mut slow_rechecks = 0u64;
    let mut fast_path_hangs = 0u64;
    let mut sig_counts: BTreeMap<String, u64> = BTreeMap::new();
    for sh in shards {
        fast_path_hangs += sh.fast_path_hangs;
        for (k, v) in sh.sig_counts {
            *sig_counts.entry(k).or_insert(0) += v;
        }
        for (k, v) in sh.stats {
            stats.entry(k).or_default().add(&v);
        }
        for (k, v) in sh.ladder {
            let e = ladder.entry(k).or_insert((0, u32::MAX, u32::MAX));
            e.0 = e.0.max(v.0);
            e.1 = e.1.min(v.1);
            e.2 = e.2.min(v.2);
        }
        spurious_kills += sh.spurious_kills;
        large_slow.extend(sh.large_slow);
        ladder_skipped += sh.ladder_skipped;
        slow.extend(sh.slow);
        child_runs += sh.child_runs;
        slow_rechecks += sh.slow_rechecks;
        rep.merge(sh.rep);
    }

    // ladder summary; thorough tier bisects the crash threshold between the last good and the first killing depth
    let crashing: Vec<((Lang, String), (u32, u32, u32))> = ladder.iter().filter(|(_, v)| v.1 != u32::MAX && tier == Tier::Thorough).map(|(k, v)| (k.clone(), *v)).collect();
    let bis = vcore::par_map(&crashing, workers, |_, (k, v)| {
        // depths below the first killing depth all returned (doubling ladder), so v.1/2 is the last known good one
        let ok = if v.1 > 1 { v.1 / 2 } else { 0 };
        bisect_ladder(k.0, &k.1, ok, v.1)
    });
    let mut ladder_json = vec![];
    let mut per_lang_min_crash: BTreeMap<&'static str, (u32, String)> = BTreeMap::new();
    for ((lang, shape), (max_ok, min_dead, min_hang)) in &ladder {
        let mut o = json!({"lang": lang.name(), "shape": shape, "max_depth_tested_that_returned": max_ok});
        if *min_hang != u32::MAX {
            o["first_depth_that_hung_or_was_given_up_as_slow"] = json!(min_hang);
        }
        if *min_dead != u32::MAX {
            o["first_tested_depth_that_killed_the_process"] = json!(min_dead);
            let mut hi = *min_dead;
            if let Some(p) = crashing.iter().position(|(k, _)| k.0 == *lang && &k.1 == shape) {
                let (lo, h, runs) = bis[p];
                child_runs += runs as u64;
                o["max_safe_depth"] = json!(lo);
                o["min_killing_depth"] = json!(h);
                hi = h;
            }
            let e = per_lang_min_crash.entry(lang.name()).or_insert((u32::MAX, String::new()));
            if hi < e.0 {
                *e = (hi, shape.clone());
            }
        }
        ladder_json.push(o);
    }
    rep.set("ladders", json!(ladder_json));
    rep.set("smallest_killing_depth_per_language", json!(per_lang_min_crash.iter().map(|(k, v)| (k.to_string(), json!({"depth": v.0, "shape": v.1, "exact": tier == Tier::Thorough}))).collect::<serde_json::Map<String, Value>>()));
    large_slow.sort_by_key(|v| v.to_string());
    rep.set("slow_large_inputs_not_judged", json!(large_slow));
    rep.set("ladder_strings_skipped_after_first_crash_quick_tier", json!(ladder_skipped));
    rep.set("kills_that_raced_with_progress_and_were_discarded", json!(spurious_kills));

    let mut fam_json = serde_json::Map::new();
    let mut totals: BTreeMap<&'static str, FamStats> = BTreeMap::new();
    for ((lang, fam), st) in &stats {
        fam_json.insert(format!("{}/{}", lang.name(), fam), st.json());
        totals.entry(fam).or_default().add(st);
    }
    rep.set("families", Value::Object(fam_json));
    rep.set("family_totals", Value::Object(totals.iter().map(|(k, v)| (k.to_string(), v.json())).collect()));
    slow.sort_by(|a, b| b.cmp(a));
    rep.set(
        "slowest_strings",
        json!(slow.iter().take(8).map(|(us, idx)| { let it = space.get(*idx); json!({"us": us, "lang": it.lang.name(), "family": it.family, "shape": it.shape, "depth": it.depth, "query": vcore::truncate(&it.query, 120)}) }).collect::<Vec<_>>()),
    );
    rep.set(
        "bounds",
        json!({
            "token_alphabet_sizes": inputs::LANGS.iter().map(|l| (l.name().to_string(), json!(inputs::alphabet(*l).len()))).collect::<serde_json::Map<String, Value>>(),
            "max_tokens": space.max_tokens,
            "corpus_queries_mutated_per_language": if space.mutated_corpus_queries == usize::MAX { json!("all") } else { json!(space.mutated_corpus_queries) },
            "ladder_depths": format!("1,2,4,...,2^{}", space.ladder_max_log2),
            "strings_total": space.total,
            "hang_candidate_limits_per_call_in_batch": {"cpu_ms": BATCH_LIMITS.cpu_ms, "wall_s": BATCH_LIMITS.wall.as_secs()},
            "fast_path_limits_for_probes_of_small_families_after_full_confirmations": {"cpu_ms": FAST_LIMITS.cpu_ms, "families": SMALL_FAMILIES},
            "small_input_bytes_for_timeout_verdicts": SMALL_INPUT_BYTES,
            "timeout_verdict_limits_per_call_alone": {"cpu_ms": SOLO_LIMITS.cpu_ms, "wall_s": SOLO_LIMITS.wall.as_secs()},
            "full_confirmations_per_language_and_stage_before_fast_path": FULL_CONFIRMATIONS,
            "case_thread_stack_bytes": worker::STACK_BYTES,
            "child_address_space_cap_bytes": worker::MEM_CAP_BYTES,
            "param_sets_when_query_mentions_a_parameter": worker::PARAM_SETS_FULL,
            "param_sets_otherwise": worker::PARAM_SETS_NOREF,
            "G0": "2 Person nodes {name,age,score,zero,one,neg,big=i64::MAX,low=i64::MIN,f=1e308}, 1 KNOWS edge {since}, 5 RDF triples via SPARQL INSERT DATA",
        }),
    );
    rep.set("child_processes", json!(child_runs));
    rep.set("hang_candidates_cleared_by_solo_rerun", json!(slow_rechecks));
    rep.set("hang_candidates_recorded_without_solo_rerun", json!(fast_path_hangs));
    rep.assumptions.push("A panic is observed through catch_unwind in the child; the C binding (crates/bindings/c) forwards to the same entry points without an unwind guard and is covered by implication only.".into());
    rep.assumptions.push("Stack-overflow thresholds are those of this build profile (opt-level 2, debug assertions, overflow checks) on an 8 MiB thread stack; other profiles shift the numbers, not the existence of unbounded recursion.".into());
    rep.assumptions.push("A timeout verdict means: re-run alone, one call consumed 3 s of CPU (or 30 s wall) without returning; CPU time, not wall time, is the primary clock so machine load cannot produce it. Exception, stated per violation: for strings of the families tokens/mutant/edge (<= ~300 bytes) a parser/translator/binder call that burnt 60 ms CPU (normal: microseconds) is recorded without the 3 s re-run once two hangs of the same language+stage were confirmed in full.".into());
    // One representative per panic signature is re-run alone (fresh databases for every call) so that every
    // replay file reproduces by construction; batch workers reuse a database while its contents are unchanged.
    let mut by_sig: BTreeMap<String, Vec<usize>> = BTreeMap::new();
    for (i, v) in rep.violations.iter().enumerate() {
        if v.sig.get("kind").map(|k| k == "panic").unwrap_or(false) {
            by_sig.entry(v.sig_string()).or_default().push(i);
        }
    }
    let groups: Vec<(String, Vec<usize>)> = by_sig.into_iter().collect();
    let confirmed: Vec<Option<usize>> = vcore::par_map(&groups, workers, |_, (sig, idxs)| {
        for &i in idxs.iter().take(3) {
            let c = &rep.violations[i].case;
            let (Some(lang), Some(q)) = (c["lang"].as_str().and_then(Lang::from_name), c["query"].as_str()) else { continue };
            let item = inputs::Item { lang, family: "replay", shape: "-".into(), depth: 0, query: q.to_string() };
            let sr = solo(&item, false);
            if sr.violations.iter().any(|v| &v.sig_string() == sig) {
                return Some(i);
            }
        }
        None
    });
    let mut front: Vec<usize> = vec![];
    let mut unconfirmed = 0u64;
    for ((_, idxs), c) in groups.iter().zip(&confirmed) {
        match c {
            Some(i) => front.push(*i),
            None => {
                unconfirmed += 1;
                for &i in idxs {
                    rep.violations[i].sig.insert("solo".into(), "not-reproduced".into());
                }
            }
        }
    }
    let fset: BTreeSet<usize> = front.iter().copied().collect();
    let all = std::mem::take(&mut rep.violations);
    let mut rest = vec![];
    let mut head = vec![];
    for (i, v) in all.into_iter().enumerate() {
        if fset.contains(&i) { head.push(v) } else { rest.push(v) }
    }
    head.extend(rest);
    rep.violations = head;
    rep.set("panic_signatures_confirmed_alone", json!(groups.len() as u64 - unconfirmed));
    rep.set("panic_signatures_not_reproduced_alone", json!(unconfirmed));
    rep.set("occurrences_per_signature", json!(sig_counts));
    rep.assumptions.push(format!("Time is judged on small input only (the statement's words): a call that does not return is a violation when the string has at most {SMALL_INPUT_BYTES} bytes; longer strings that exceed the CPU limit are listed under slow_large_inputs_not_judged. Crashes (stack overflow, abort, allocation failure under the 2 GiB address-space cap) are violations at every length."));
    rep.assumptions.push("Quick tier: a nesting ladder (depths 1,2,4,..) stops at its first crash or hang, runs two front-end calls per string (empty db without parameter map, G0 with an empty map) and mutates the first 30 corpus queries per language; thorough runs every depth to 2^14 with all four call variants, bisects each crash threshold and mutates the whole corpus.".into());
    rep.assumptions.push("Parameter maps: a string that mentions a parameter ('$') is executed with all 17 map classes on both databases; for other strings the content of the map cannot be consulted (processor.rs substitute_params looks values up by name only), so they are executed without a map and with an empty map.".into());
    rep.assumptions.push("A batch worker keeps a database across calls only while a full dump of its contents (nodes, edges, triples, catalog counts) is unchanged; every replay and every confirmation run builds fresh databases for each call.".into());
    if filtered {
        rep.exhaustive = false;
    }
    let _ = std::fs::remove_dir_all(scratch());
    rep.finish()
}
