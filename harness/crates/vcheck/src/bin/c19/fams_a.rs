//! Families: shortest paths, traversals, components.
use grafeo_adapters::plugins::algorithms as ga;
use grafeo_common::types::NodeId;
use grafeo_common::utils::hash::FxHashMap;
use grafeo_core::graph::lpg::LpgStore;

use crate::model::*;

fn vname(weighted: bool) -> &'static str {
    if weighted { "w" } else { "none" }
}

/// distances map vs brute force: domain = reachable set, values = minimum.
fn check_dist(c: &mut Out, alg: &'static str, params: &str, s: usize, dist: &FxHashMap<NodeId, f64>, m: &Model, wm: &Wm, b: &Built) {
    let mut got: Vec<Option<f64>> = vec![None; m.n];
    for (id, d) in dist.iter() {
        match b.ix(*id) {
            Some(i) => got[i] = Some(*d),
            None => c.bad(alg, "unknown-node", params.into(), format!("distance map contains node {id:?} which is not in the graph")),
        }
    }
    for t in 0..m.n {
        match (got[t], wm.sp[s][t]) {
            (None, None) => {}
            (Some(d), None) => c.bad(alg, "reach-set", params.into(), format!("distance {d} reported for node {t}, unreachable from {s}")),
            (None, Some(o)) => c.bad(alg, "reach-set", params.into(), format!("no distance for node {t}, reachable from {s} at {o}")),
            (Some(d), Some(o)) => {
                if d > o + 1e-9 {
                    c.bad(alg, "distance-not-minimal", params.into(), format!("dist({s}->{t})={d}, a path of weight {o} exists"));
                } else if d < o - 1e-9 || d.is_nan() {
                    c.bad(alg, "distance-unreal", params.into(), format!("dist({s}->{t})={d}, but the minimum over all paths is {o}"));
                }
            }
        }
    }
}

/// A returned node path must start/end right, exist edge by edge, and weigh what was claimed.
fn check_path(c: &mut Out, alg: &'static str, params: &str, path: &[NodeId], s: usize, t: usize, claimed: f64, wm: &Wm, b: &Built) {
    let ix: Vec<Option<usize>> = path.iter().map(|p| b.ix(*p)).collect();
    if ix.is_empty() || ix.iter().any(|x| x.is_none()) || ix[0] != Some(s) || *ix.last().unwrap() != Some(t) {
        c.bad(alg, "path-not-real", params.into(), format!("path {path:?} does not lead from {s} to {t}"));
        return;
    }
    let mut sum = 0.0;
    for k in 1..ix.len() {
        let (u, v) = (ix[k - 1].unwrap(), ix[k].unwrap());
        match wm.minw[u][v] {
            Some(w) => sum += w,
            None => {
                c.bad(alg, "path-not-real", params.into(), format!("path {path:?} uses hop {u}->{v} but no such edge exists"));
                return;
            }
        }
    }
    if !feq(sum, claimed) {
        c.bad(alg, "path-weight", params.into(), format!("path {path:?} weighs {sum} (cheapest parallel edges) but distance {claimed} was claimed"));
    }
}

/// Would following `preds` from t reach s (or run out) within n+1 steps?  (guards path_to against looping)
fn pred_walk_terminates(preds: &FxHashMap<NodeId, NodeId>, s: NodeId, t: NodeId, n: usize) -> bool {
    let mut cur = t;
    for _ in 0..=n + 1 {
        if cur == s {
            return true;
        }
        match preds.get(&cur) {
            Some(p) => cur = *p,
            None => return true,
        }
    }
    false
}

fn check_pair_result(c: &mut Out, alg: &'static str, params: &str, r: Option<(f64, Vec<NodeId>)>, s: usize, t: usize, wm: &Wm, b: &Built) {
    match (r, wm.sp[s][t]) {
        (None, None) => {}
        (None, Some(o)) => c.bad(alg, "reach-set", params.into(), format!("None returned but {t} is reachable from {s} at {o}")),
        (Some((d, _)), None) => c.bad(alg, "reach-set", params.into(), format!("distance {d} returned but {t} is unreachable from {s}")),
        (Some((d, p)), Some(o)) => {
            if d > o + 1e-9 {
                c.bad(alg, "distance-not-minimal", params.into(), format!("dist({s}->{t})={d}, a path of weight {o} exists"));
            } else if d < o - 1e-9 || d.is_nan() {
                c.bad(alg, "distance-unreal", params.into(), format!("dist({s}->{t})={d}, but the minimum over all paths is {o}"));
            }
            check_path(c, alg, params, &p, s, t, d, wm, b);
        }
    }
}

pub fn fam_sp(_g: &G, m: &Model, b: &Built, c: &mut Out) {
    c.fam = F_SP;
    let n = m.n;
    let st = b.store.clone();
    let store: &LpgStore = &st;
    let ns = &b.nodes;
    let neg = m.has_neg;
    let variants: &[bool] = if neg { &[true] } else { &[true, false] };
    for &weighted in variants {
        let wp: Option<&str> = if weighted { Some("w") } else { None };
        let wm = if weighted { &m.wm } else { &m.um };
        for s in 0..n {
            let ps = format!("source={s},weight={}", vname(weighted));
            if !neg {
                if let Some(r) = c.call("dijkstra", &ps, || ga::dijkstra(store, ns[s], wp)) {
                    check_dist(c, "dijkstra", &ps, s, &r.distances, m, wm, b);
                    for t in 0..n {
                        let pt = format!("{ps},target={t}");
                        if !pred_walk_terminates(&r.predecessors, ns[s], ns[t], n) {
                            c.bad("dijkstra", "pred-cycle", pt, format!("predecessor chain from {t} never reaches the source"));
                            continue;
                        }
                        if let Some(Some(d)) = c.call("dijkstra", &pt, || r.distance_to(ns[t])) {
                            if r.distances.get(&ns[t]).copied() != Some(d) {
                                c.bad("dijkstra", "distance-accessor", pt.clone(), format!("distance_to({t})={d} differs from the distance map"));
                            }
                        }
                        if let Some(p) = c.call("dijkstra", &pt, || r.path_to(ns[s], ns[t])) {
                            match (p, r.distances.get(&ns[t])) {
                                (Some(path), Some(&d)) => check_path(c, "dijkstra", &pt, &path, s, t, d, wm, b),
                                (Some(path), None) => c.bad("dijkstra", "path-not-real", pt, format!("path {path:?} returned for a node without distance")),
                                (None, Some(_)) => c.bad("dijkstra", "path-missing", pt, format!("no path returned to {t} although a distance was")),
                                (None, None) => {}
                            }
                        }
                    }
                }
                for t in 0..n {
                    let pt = format!("{ps},target={t}");
                    if let Some(r) = c.call("dijkstra_path", &pt, || ga::dijkstra_path(store, ns[s], ns[t], wp)) {
                        check_pair_result(c, "dijkstra_path", &pt, r, s, t, wm, b);
                    }
                    for hname in ["zero", "exact"] {
                        let ph = format!("{pt},heuristic={hname}");
                        let exact = hname == "exact";
                        let h = |x: NodeId| -> f64 {
                            if !exact {
                                return 0.0;
                            }
                            match b.ix(x).and_then(|i| wm.sp[i][t]) {
                                Some(d) => d,
                                None => 1e18,
                            }
                        };
                        if let Some(r) = c.call("astar", &ph, || ga::astar(store, ns[s], ns[t], wp, h)) {
                            check_pair_result(c, "astar", &ph, r, s, t, wm, b);
                        }
                    }
                }
            }
            // Bellman-Ford
            if let Some(r) = c.call("bellman_ford", &ps, || ga::bellman_ford(store, ns[s], wp)) {
                let want = weighted && m.neg_from[s];
                if r.has_negative_cycle != want {
                    c.bad("bellman_ford", "negative-cycle-flag", ps.clone(), format!("has_negative_cycle={} but a negative cycle reachable from {s} {}", r.has_negative_cycle, if want { "exists" } else { "does not exist" }));
                } else if want {
                    c.tolerate("bellman_ford: distances in presence of a reachable negative cycle not checked");
                } else {
                    check_dist(c, "bellman_ford", &ps, s, &r.distances, m, wm, b);
                    for t in 0..n {
                        let pt = format!("{ps},target={t}");
                        if !pred_walk_terminates(&r.predecessors, ns[s], ns[t], n) {
                            c.bad("bellman_ford", "pred-cycle", pt, format!("predecessor chain from {t} never reaches the source"));
                            continue;
                        }
                        if let Some(p) = c.call("bellman_ford", &pt, || r.path_to(ns[t])) {
                            match (p, r.distances.get(&ns[t])) {
                                (Some(path), Some(&d)) => check_path(c, "bellman_ford", &pt, &path, s, t, d, wm, b),
                                (Some(path), None) => c.bad("bellman_ford", "path-not-real", pt, format!("path {path:?} returned for a node without distance")),
                                (None, Some(_)) => c.bad("bellman_ford", "path-missing", pt, format!("no path returned to {t} although a distance was")),
                                (None, None) => {}
                            }
                        }
                    }
                }
            }
        }
        // Floyd-Warshall
        let pf = format!("weight={}", vname(weighted));
        if let Some(r) = c.call("floyd_warshall", &pf, || ga::floyd_warshall(store, wp)) {
            let any_neg = weighted && m.on_neg.iter().any(|&x| x);
            let flag = r.has_negative_cycle();
            if flag != any_neg {
                c.bad("floyd_warshall", "negative-cycle-flag", pf.clone(), format!("has_negative_cycle()={flag} but a negative cycle {}", if any_neg { "exists" } else { "does not exist" }));
            }
            let mut got: Vec<NodeId> = r.nodes().to_vec();
            got.sort();
            let mut want: Vec<NodeId> = ns.clone();
            want.sort();
            if got != want {
                c.bad("floyd_warshall", "node-set", pf.clone(), format!("nodes()={got:?} expected {want:?}"));
            }
            for i in 0..n {
                for j in 0..n {
                    let pp = format!("{pf},from={i},to={j}");
                    let affected = weighted && (0..n).any(|x| m.on_neg[x] && m.reach[i][x] && m.reach[x][j]);
                    if affected {
                        c.tolerate("floyd_warshall: pairs whose walks can pass a negative cycle not checked");
                        continue;
                    }
                    let d = r.distance(ns[i], ns[j]);
                    match (d, wm.sp[i][j]) {
                        (None, None) => {}
                        (Some(d), None) => c.bad("floyd_warshall", "reach-set", pp.clone(), format!("distance {d} for unreachable pair")),
                        (None, Some(o)) => c.bad("floyd_warshall", "reach-set", pp.clone(), format!("no distance although a path of weight {o} exists")),
                        (Some(d), Some(o)) => {
                            if d > o + 1e-9 {
                                c.bad("floyd_warshall", "distance-not-minimal", pp.clone(), format!("dist({i}->{j})={d}, a path of weight {o} exists"));
                            } else if d < o - 1e-9 || d.is_nan() {
                                c.bad("floyd_warshall", "distance-unreal", pp.clone(), format!("dist({i}->{j})={d}, minimum over all paths is {o}"));
                            }
                        }
                    }
                    if !any_neg && !flag {
                        if let Some(p) = c.call("floyd_warshall", &pp, || r.path(ns[i], ns[j])) {
                            match (p, d) {
                                (Some(path), Some(d)) => check_path(c, "floyd_warshall", &pp, &path, i, j, d, wm, b),
                                (Some(path), None) => c.bad("floyd_warshall", "path-not-real", pp, format!("path {path:?} for a pair without distance")),
                                (None, Some(_)) => c.bad("floyd_warshall", "path-missing", pp, "no path although a distance was returned".into()),
                                (None, None) => {}
                            }
                        }
                    }
                }
            }
        }
    }
    if !neg {
        // documented: a source that does not exist yields an empty result
        let ghost = NodeId::new(999);
        let pg = "source=absent".to_string();
        if let Some(r) = c.call("dijkstra", &pg, || ga::dijkstra(store, ghost, Some("w"))) {
            if !r.distances.is_empty() {
                c.bad("dijkstra", "absent-source", pg.clone(), "non-empty distances for a missing source".into());
            }
        }
        if let Some(r) = c.call("bellman_ford", &pg, || ga::bellman_ford(store, ghost, Some("w"))) {
            if !r.distances.is_empty() || r.has_negative_cycle {
                c.bad("bellman_ford", "absent-source", pg.clone(), "non-empty result for a missing source".into());
            }
        }
        if n > 0 {
            if let Some(r) = c.call("dijkstra_path", &pg, || ga::dijkstra_path(store, ghost, ns[0], Some("w"))) {
                if r.is_some() {
                    c.bad("dijkstra_path", "absent-source", pg.clone(), "Some for a missing source".into());
                }
            }
            if let Some(r) = c.call("astar", &pg, || ga::astar(store, ns[0], ghost, Some("w"), |_| 0.0)) {
                if r.is_some() {
                    c.bad("astar", "absent-source", pg.clone(), "Some for a missing target".into());
                }
            }
        }
    }
}

// ---------------------------------------------------------------------------
// Traversals
// ---------------------------------------------------------------------------

fn edge_ev(g: &G, b: &Built, seen_e: &mut [bool], disc: &[bool], fin: &[bool], source: NodeId, target: NodeId, e: grafeo_common::types::EdgeId) -> Result<(usize, usize), String> {
    let u = b.ix(source).ok_or_else(|| format!("event names unknown node {source:?}"))?;
    let v = b.ix(target).ok_or_else(|| format!("event names unknown node {target:?}"))?;
    let ei = b.eix(e).ok_or_else(|| format!("event names unknown edge {e:?}"))?;
    if g.edges[ei].0 as usize != u || g.edges[ei].1 as usize != v {
        return Err(format!("edge event {u}->{v} carries edge id of {}->{}", g.edges[ei].0, g.edges[ei].1));
    }
    if seen_e[ei] {
        return Err(format!("edge #{ei} ({u}->{v}) reported twice"));
    }
    seen_e[ei] = true;
    if !disc[u] || fin[u] {
        return Err(format!("edge event from node {u} which is not being processed"));
    }
    Ok((u, v))
}

fn check_events(dfs: bool, g: &G, m: &Model, b: &Built, s: usize, events: &[ga::TraversalEvent]) -> Result<(), String> {
    use ga::TraversalEvent as E;
    let n = m.n;
    let mut disc = vec![false; n];
    let mut fin = vec![false; n];
    let mut seen_e = vec![false; m.ne];
    let mut stack: Vec<usize> = vec![];
    let mut disc_order: Vec<usize> = vec![];
    let mut fin_order: Vec<usize> = vec![];
    let ix = |id: NodeId| b.ix(id).ok_or_else(|| format!("event names unknown node {id:?}"));
    for (k, ev) in events.iter().enumerate() {
        match *ev {
            E::Discover(x) => {
                let x = ix(x)?;
                if disc[x] {
                    return Err(format!("node {x} discovered twice"));
                }
                if k == 0 {
                    if x != s {
                        return Err(format!("first discovered node is {x}, not the start {s}"));
                    }
                } else {
                    match events[k - 1] {
                        E::TreeEdge { target, .. } if ix(target)? == x => {}
                        _ => return Err(format!("Discover({x}) not preceded by a tree edge to it")),
                    }
                }
                disc[x] = true;
                stack.push(x);
                disc_order.push(x);
            }
            E::TreeEdge { source, target, edge: e } => {
                let (u, v) = edge_ev(g, b, &mut seen_e, &disc, &fin, source, target, e)?;
                if disc[v] {
                    return Err(format!("tree edge {u}->{v} to an already discovered node"));
                }
                if dfs && stack.last() != Some(&u) {
                    return Err(format!("tree edge from {u} which is not on top of the DFS stack"));
                }
            }
            E::NonTreeEdge { source, target, edge: e } => {
                let (u, v) = edge_ev(g, b, &mut seen_e, &disc, &fin, source, target, e)?;
                if !disc[v] {
                    return Err(format!("non-tree edge {u}->{v} to an undiscovered node"));
                }
            }
            E::BackEdge { source, target, edge: e } => {
                let (u, v) = edge_ev(g, b, &mut seen_e, &disc, &fin, source, target, e)?;
                if !dfs {
                    return Err("BackEdge event in BFS".into());
                }
                if !disc[v] || fin[v] {
                    return Err(format!("back edge {u}->{v} but {v} is not an ancestor on the stack"));
                }
            }
            E::Finish(x) => {
                let x = ix(x)?;
                if !disc[x] || fin[x] {
                    return Err(format!("Finish({x}) for a node that is not open"));
                }
                if m.out[x].iter().any(|&e| !seen_e[e]) {
                    return Err(format!("Finish({x}) before all its out-edges were reported"));
                }
                if dfs {
                    if stack.last() != Some(&x) {
                        return Err(format!("Finish({x}) but the DFS stack top is {:?}", stack.last()));
                    }
                    stack.pop();
                }
                fin[x] = true;
                fin_order.push(x);
            }
        }
    }
    for v in 0..n {
        if disc[v] != m.reach[s][v] {
            return Err(format!("node {v}: discovered={} but reachable={}", disc[v], m.reach[s][v]));
        }
        if disc[v] && !fin[v] {
            return Err(format!("node {v} discovered but never finished"));
        }
    }
    if !dfs && disc_order != fin_order {
        return Err(format!("BFS finish order {fin_order:?} differs from discovery order {disc_order:?}"));
    }
    Ok(())
}

fn node_list(c: &mut Out, alg: &'static str, params: &str, b: &Built, ids: &[NodeId]) -> Option<Vec<usize>> {
    let mut out = vec![];
    for id in ids {
        match b.ix(*id) {
            Some(i) => out.push(i),
            None => {
                c.bad(alg, "unknown-node", params.into(), format!("result names node {id:?} which is not in the graph"));
                return None;
            }
        }
    }
    Some(out)
}

fn check_visit_set(c: &mut Out, alg: &'static str, params: &str, m: &Model, s: usize, order: &[usize]) -> bool {
    let mut cnt = vec![0usize; m.n];
    for &v in order {
        cnt[v] += 1;
    }
    let mut ok = true;
    for v in 0..m.n {
        if cnt[v] > 1 {
            c.bad(alg, "duplicate-visit", params.into(), format!("node {v} visited {} times: {order:?}", cnt[v]));
            ok = false;
        } else if (cnt[v] == 1) != m.reach[s][v] {
            c.bad(alg, "reach-set", params.into(), format!("node {v}: visited={} reachable={} (order {order:?})", cnt[v] == 1, m.reach[s][v]));
            ok = false;
        }
    }
    ok
}

pub fn fam_trav(g: &G, m: &Model, b: &Built, c: &mut Out) {
    c.fam = F_TRAV;
    let n = m.n;
    let st = b.store.clone();
    let store: &LpgStore = &st;
    let ns = &b.nodes;
    for s in 0..n {
        let ps = format!("start={s}");
        if let Some(r) = c.call("bfs", &ps, || ga::bfs(store, ns[s])) {
            if let Some(order) = node_list(c, "bfs", &ps, b, &r) {
                if check_visit_set(c, "bfs", &ps, m, s, &order) {
                    if order.first() != Some(&s) {
                        c.bad("bfs", "order", ps.clone(), format!("start is not first: {order:?}"));
                    }
                    let hops: Vec<usize> = order.iter().map(|&v| m.hop[s][v].unwrap()).collect();
                    if hops.windows(2).any(|w| w[0] > w[1]) {
                        c.bad("bfs", "order", ps.clone(), format!("discovery order {order:?} is not by non-decreasing hop distance {hops:?}"));
                    }
                }
            }
        }
        if let Some(r) = c.call("bfs_layers", &ps, || ga::bfs_layers(store, ns[s])) {
            let flat: Vec<NodeId> = r.iter().flatten().copied().collect();
            if let Some(order) = node_list(c, "bfs_layers", &ps, b, &flat) {
                if check_visit_set(c, "bfs_layers", &ps, m, s, &order) {
                    for (d, layer) in r.iter().enumerate() {
                        let mut got: Vec<usize> = layer.iter().map(|x| b.ix(*x).unwrap()).collect();
                        got.sort();
                        let want: Vec<usize> = (0..n).filter(|&v| m.hop[s][v] == Some(d)).collect();
                        if got != want || got.is_empty() {
                            c.bad("bfs_layers", "layer-vs-distance", ps.clone(), format!("layer {d} = {got:?}, nodes at hop distance {d} = {want:?}"));
                        }
                    }
                }
            }
        }
        if let Some(r) = c.call("dfs", &ps, || ga::dfs(store, ns[s])) {
            if let Some(order) = node_list(c, "dfs", &ps, b, &r) {
                if check_visit_set(c, "dfs", &ps, m, s, &order) {
                    if order.last() != Some(&s) {
                        c.bad("dfs", "order", ps.clone(), format!("start is not finished last: {order:?}"));
                    }
                    // post-order: an edge u->v with v finishing after u makes v an ancestor of u, hence v reaches u
                    let mut pos = vec![usize::MAX; n];
                    for (i, &v) in order.iter().enumerate() {
                        pos[v] = i;
                    }
                    for e in 0..m.ne {
                        let (u, v) = (m.eu[e], m.ev[e]);
                        if pos[u] != usize::MAX && pos[v] != usize::MAX && pos[v] > pos[u] && !m.reach[v][u] {
                            c.bad("dfs", "order", ps.clone(), format!("finish order {order:?} is no DFS post-order: edge {u}->{v}, {v} finishes later but cannot reach {u}"));
                        }
                    }
                }
            }
        }
        for dfs in [false, true] {
            let alg: &'static str = if dfs { "dfs_with_visitor" } else { "bfs_with_visitor" };
            let mut events: Vec<ga::TraversalEvent> = vec![];
            let r = c.call(alg, &ps, || {
                if dfs {
                    ga::dfs_with_visitor(store, ns[s], |ev| -> ga::Control<()> {
                        events.push(ev);
                        ga::Control::Continue
                    })
                } else {
                    ga::bfs_with_visitor(store, ns[s], |ev| -> ga::Control<()> {
                        events.push(ev);
                        ga::Control::Continue
                    })
                }
            });
            if let Some(r) = r {
                if r.is_some() {
                    c.bad(alg, "visitor-events", ps.clone(), "Some(..) returned although the visitor never broke".into());
                }
                if let Err(e) = check_events(dfs, g, m, b, s, &events) {
                    c.bad(alg, "visitor-events", ps.clone(), e);
                }
            }
        }
    }
    let pa = "all".to_string();
    if let Some(r) = c.call("dfs_all", &pa, || ga::dfs_all(store)) {
        if let Some(order) = node_list(c, "dfs_all", &pa, b, &r) {
            let mut cnt = vec![0usize; n];
            for &v in &order {
                cnt[v] += 1;
            }
            if let Some(v) = (0..n).find(|&v| cnt[v] > 1) {
                c.bad("dfs_all", "duplicate-visit", pa.clone(), format!("node {v} finished {} times: {order:?}", cnt[v]));
            } else if let Some(v) = (0..n).find(|&v| cnt[v] == 0) {
                c.bad("dfs_all", "reach-set", pa.clone(), format!("node {v} never visited: {order:?}"));
            } else if !m.cyclic && m.ne > 0 {
                // doc says "reverse post-order (useful for topological sort)"; the statement does not fix the order
                let mut pos = vec![0usize; n];
                for (i, &v) in order.iter().enumerate() {
                    pos[v] = i;
                }
                if (0..m.ne).any(|e| pos[m.eu[e]] > pos[m.ev[e]]) {
                    c.tolerate("dfs_all: on a DAG the result is not a topological (reverse post-) order as its doc says (order not fixed by the statement)");
                }
            }
        }
    }
    let ghost = NodeId::new(999);
    let pg = "start=absent".to_string();
    if let Some(r) = c.call("bfs", &pg, || ga::bfs(store, ghost)) {
        if !r.is_empty() {
            c.bad("bfs", "absent-source", pg.clone(), "non-empty result for a missing start".into());
        }
    }
    if let Some(r) = c.call("dfs", &pg, || ga::dfs(store, ghost)) {
        if !r.is_empty() {
            c.bad("dfs", "absent-source", pg.clone(), "non-empty result for a missing start".into());
        }
    }
    if let Some(r) = c.call("bfs_layers", &pg, || ga::bfs_layers(store, ghost)) {
        if !r.is_empty() {
            c.bad("bfs_layers", "absent-source", pg, "non-empty result for a missing start".into());
        }
    }
}

// ---------------------------------------------------------------------------
// Components
// ---------------------------------------------------------------------------

fn check_partition(c: &mut Out, alg: &'static str, m: &Model, b: &Built, labels: &FxHashMap<NodeId, u64>, same: &dyn Fn(usize, usize) -> bool) {
    let mut lab: Vec<Option<u64>> = vec![None; m.n];
    for (id, l) in labels.iter() {
        match b.ix(*id) {
            Some(i) => lab[i] = Some(*l),
            None => c.bad(alg, "unknown-node", String::new(), format!("result names node {id:?} which is not in the graph")),
        }
    }
    if let Some(v) = (0..m.n).find(|&v| lab[v].is_none()) {
        c.bad(alg, "node-set", String::new(), format!("node {v} has no component"));
        return;
    }
    for i in 0..m.n {
        for j in (i + 1)..m.n {
            let got = lab[i] == lab[j];
            let want = same(i, j);
            if got && !want {
                c.bad(alg, "component-merge", format!("nodes={i},{j}"), format!("nodes {i} and {j} share component {:?} but are not connected", lab[i]));
            } else if !got && want {
                c.bad(alg, "component-split", format!("nodes={i},{j}"), format!("nodes {i} and {j} are connected but labelled {:?} / {:?}", lab[i], lab[j]));
            }
        }
    }
}

pub fn fam_comp(_g: &G, m: &Model, b: &Built, c: &mut Out) {
    c.fam = F_COMP;
    let n = m.n;
    let st = b.store.clone();
    let store: &LpgStore = &st;
    if let Some(r) = c.call("connected_components", "", || ga::connected_components(store)) {
        check_partition(c, "connected_components", m, b, &r, &|i, j| m.wcomp[i] == m.wcomp[j]);
    }
    if let Some(k) = c.call("connected_component_count", "", || ga::connected_component_count(store)) {
        if k != m.ncomp {
            c.bad("connected_component_count", "component-count", String::new(), format!("{k} reported, {} weakly connected components exist", m.ncomp));
        }
    }
    if let Some(r) = c.call("strongly_connected_components", "", || ga::strongly_connected_components(store)) {
        check_partition(c, "strongly_connected_components", m, b, &r, &|i, j| m.reach[i][j] && m.reach[j][i]);
    }
    let mut nscc = 0;
    for i in 0..n {
        if !(0..i).any(|j| m.reach[i][j] && m.reach[j][i]) {
            nscc += 1;
        }
    }
    if let Some(k) = c.call("strongly_connected_component_count", "", || ga::strongly_connected_component_count(store)) {
        if k != nscc {
            c.bad("strongly_connected_component_count", "component-count", String::new(), format!("{k} reported, {nscc} strongly connected components exist"));
        }
    }
    if let Some(r) = c.call("topological_sort", "", || ga::topological_sort(store)) {
        match r {
            None => {
                if !m.cyclic {
                    c.bad("topological_sort", "topo-none-on-dag", String::new(), "None returned for an acyclic graph".into());
                }
            }
            Some(order) => {
                if m.cyclic {
                    c.bad("topological_sort", "topo-some-on-cycle", String::new(), format!("order {order:?} returned for a graph with a cycle"));
                } else if let Some(ord) = node_list(c, "topological_sort", "", b, &order) {
                    let mut pos = vec![usize::MAX; n];
                    for (i, &v) in ord.iter().enumerate() {
                        pos[v] = i;
                    }
                    if ord.len() != n || pos.iter().any(|&p| p == usize::MAX) {
                        c.bad("topological_sort", "topo-not-permutation", String::new(), format!("order {ord:?} is not a permutation of the {n} nodes"));
                    } else if let Some(e) = (0..m.ne).find(|&e| pos[m.eu[e]] >= pos[m.ev[e]]) {
                        c.bad("topological_sort", "topo-edge-order", String::new(), format!("order {ord:?} puts {} after {} despite edge {}->{}", m.eu[e], m.ev[e], m.eu[e], m.ev[e]));
                    }
                }
            }
        }
    }
    if let Some(d) = c.call("is_dag", "", || ga::is_dag(store)) {
        if d == m.cyclic {
            c.bad("is_dag", "dag-flag", String::new(), format!("is_dag={d} but the graph is {}", if m.cyclic { "cyclic" } else { "acyclic" }));
        }
    }
}
