//! Families: minimum spanning trees, maximum flow, min-cost max-flow.
use grafeo_adapters::plugins::algorithms as ga;
use grafeo_common::types::NodeId;
use grafeo_core::graph::lpg::LpgStore;

use crate::model::*;

struct Uf(Vec<usize>);
impl Uf {
    fn new(n: usize) -> Uf {
        Uf((0..n).collect())
    }
    fn find(&mut self, x: usize) -> usize {
        let mut r = x;
        while self.0[r] != r {
            r = self.0[r];
        }
        self.0[x] = r;
        r
    }
    fn union(&mut self, a: usize, b: usize) -> bool {
        let (a, b) = (self.find(a), self.find(b));
        if a == b {
            return false;
        }
        self.0[a] = b;
        true
    }
}

/// Minimum weight over all edge subsets that are acyclic (undirected view) and
/// connect every pair of `scope` nodes that the graph connects.
fn brute_min_forest(m: &Model, w: &[f64], scope: &[bool]) -> f64 {
    let cand: Vec<usize> = (0..m.ne).filter(|&e| m.eu[e] != m.ev[e] && scope[m.eu[e]] && scope[m.ev[e]]).collect();
    let mut best = f64::INFINITY;
    for mask in 0u32..(1 << cand.len()) {
        let mut uf = Uf::new(m.n);
        let mut ok = true;
        let mut tot = 0.0;
        for (k, &e) in cand.iter().enumerate() {
            if mask & (1 << k) != 0 {
                if !uf.union(m.eu[e], m.ev[e]) {
                    ok = false;
                    break;
                }
                tot += w[e];
            }
        }
        if !ok {
            continue;
        }
        let mut spans = true;
        for i in 0..m.n {
            for j in 0..m.n {
                if scope[i] && scope[j] && m.wcomp[i] == m.wcomp[j] && uf.find(i) != uf.find(j) {
                    spans = false;
                }
            }
        }
        if spans && tot < best {
            best = tot;
        }
    }
    best
}

fn check_mst(c: &mut Out, alg: &'static str, params: &str, res: &ga::MstResult, m: &Model, b: &Built, w: &[f64], scope: &[bool], start: Option<usize>) {
    let mut uf = Uf::new(m.n);
    let mut used = vec![false; m.ne];
    let mut sum = 0.0;
    for &(src, dst, eid, wt) in &res.edges {
        let Some(e) = b.eix(eid) else {
            c.bad(alg, "edge-not-real", params.into(), format!("result edge id {eid:?} is not an edge of the graph"));
            return;
        };
        let (u, v) = (b.ix(src), b.ix(dst));
        let fwd = u == Some(m.eu[e]) && v == Some(m.ev[e]);
        let rev = u == Some(m.ev[e]) && v == Some(m.eu[e]);
        if !fwd && !rev {
            c.bad(alg, "edge-not-real", params.into(), format!("result edge ({src:?},{dst:?}) does not match edge #{e} {}->{}", m.eu[e], m.ev[e]));
            return;
        }
        if !feq(wt, w[e]) {
            c.bad(alg, "edge-weight", params.into(), format!("result gives weight {wt} to edge #{e} {}->{} whose weight is {}", m.eu[e], m.ev[e], w[e]));
        }
        if used[e] {
            c.bad(alg, "cyclic", params.into(), format!("edge #{e} appears twice in the result"));
            return;
        }
        used[e] = true;
        if !scope[m.eu[e]] || !scope[m.ev[e]] {
            c.bad(alg, "not-spanning", params.into(), format!("edge #{e} {}->{} lies outside the component of the start node", m.eu[e], m.ev[e]));
            return;
        }
        if !uf.union(m.eu[e], m.ev[e]) {
            c.bad(alg, "cyclic", params.into(), format!("result edges contain a cycle (closing edge #{e} {}->{})", m.eu[e], m.ev[e]));
            return;
        }
        sum += w[e];
    }
    for i in 0..m.n {
        for j in (i + 1)..m.n {
            if scope[i] && scope[j] && m.wcomp[i] == m.wcomp[j] && uf.find(i) != uf.find(j) {
                c.bad(alg, "not-spanning", params.into(), format!("nodes {i} and {j} are connected in the graph but not by the result ({} edges)", res.edges.len()));
                return;
            }
        }
    }
    let _ = start;
    if !feq(sum, res.total_weight) {
        c.bad(alg, "total-mismatch", params.into(), format!("total_weight={} but the listed edges weigh {sum}", res.total_weight));
    }
    let best = brute_min_forest(m, w, scope);
    if sum > best + 1e-9 {
        c.bad(alg, "mst-weight", params.into(), format!("spanning forest of weight {sum} returned, one of weight {best} exists"));
    } else if sum < best - 1e-9 {
        c.bad(alg, "mst-weight-unreal", params.into(), format!("weight {sum} is below the minimum {best} over all spanning forests"));
    }
    if res.edge_count() != res.edges.len() {
        c.bad(alg, "edge-count", params.into(), "edge_count() differs from edges.len()".into());
    }
}

pub fn fam_mst(_g: &G, m: &Model, b: &Built, c: &mut Out) {
    c.fam = F_MST;
    let n = m.n;
    let st = b.store.clone();
    let store: &LpgStore = &st;
    let ns = &b.nodes;
    let all = vec![true; n];
    for weighted in [true, false] {
        let wp: Option<&str> = if weighted { Some("w") } else { None };
        let w = if weighted { &m.wm.w } else { &m.um.w };
        let pk = format!("weight={}", if weighted { "w" } else { "none" });
        let mut kruskal_w = None;
        if let Some(r) = c.call("kruskal", &pk, || ga::kruskal(store, wp)) {
            let before = c.raws.len();
            check_mst(c, "kruskal", &pk, &r, m, b, w, &all, None);
            if c.raws.len() == before {
                kruskal_w = Some(r.total_weight);
            }
        }
        let mut starts: Vec<Option<usize>> = vec![None];
        starts.extend((0..n).map(Some));
        for start in starts {
            let pp = format!("{pk},start={}", start.map_or("default".to_string(), |s| s.to_string()));
            let sid = start.map(|s| ns[s]);
            if let Some(r) = c.call("prim", &pp, || ga::prim(store, wp, sid)) {
                if n == 0 {
                    if !r.edges.is_empty() {
                        c.bad("prim", "edge-not-real", pp.clone(), "edges on an empty graph".into());
                    }
                    continue;
                }
                let s = start.unwrap_or(0);
                let scope: Vec<bool> = (0..n).map(|v| m.wcomp[v] == m.wcomp[s]).collect();
                if m.ncomp > 1 {
                    c.tolerate("prim: on a disconnected graph only the start node's component is required to be spanned (doc: grows the tree from a start node)");
                }
                let before = c.raws.len();
                check_mst(c, "prim", &pp, &r, m, b, w, &scope, Some(s));
                if c.raws.len() == before && m.ncomp == 1 {
                    if let Some(kw) = kruskal_w {
                        if !feq(kw, r.total_weight) {
                            c.bad("prim", "kruskal-vs-prim", pp.clone(), format!("connected graph: kruskal weight {kw} != prim weight {}", r.total_weight));
                        }
                    }
                }
            }
        }
    }
    let pg = "start=absent".to_string();
    if let Some(r) = c.call("prim", &pg, || ga::prim(store, Some("w"), Some(NodeId::new(999)))) {
        if !r.edges.is_empty() {
            c.bad("prim", "absent-source", pg, "edges returned for a missing start node".into());
        }
    }
}

// ---------------------------------------------------------------------------
// Flow
// ---------------------------------------------------------------------------

fn min_cut(m: &Model, cap: &[f64], s: usize, t: usize) -> f64 {
    let mut best = f64::INFINITY;
    for mask in 0u32..(1 << m.n) {
        if mask & (1 << s) == 0 || mask & (1 << t) != 0 {
            continue;
        }
        let mut cut = 0.0;
        for e in 0..m.ne {
            if mask & (1 << m.eu[e]) != 0 && mask & (1 << m.ev[e]) == 0 {
                cut += cap[e];
            }
        }
        if cut < best {
            best = cut;
        }
    }
    best
}

/// Shared checks on a reported flow assignment (aggregated per ordered node pair).
fn check_flow_edges(c: &mut Out, alg: &'static str, params: &str, m: &Model, b: &Built, cap: &[f64], s: usize, t: usize, value: f64, flows: &[(NodeId, NodeId, f64)]) {
    let n = m.n;
    let mut f = vec![vec![0.0f64; n]; n];
    let mut seen = vec![vec![false; n]; n];
    for &(u, v, x) in flows {
        let (Some(u), Some(v)) = (b.ix(u), b.ix(v)) else {
            c.bad(alg, "unknown-node", params.into(), "flow edge names a node that is not in the graph".into());
            return;
        };
        if seen[u][v] {
            c.bad(alg, "flow-duplicate", params.into(), format!("pair {u}->{v} listed twice in flow_edges"));
            return;
        }
        seen[u][v] = true;
        let total: f64 = (0..m.ne).filter(|&e| m.eu[e] == u && m.ev[e] == v).map(|e| cap[e]).sum();
        if x < -1e-9 || x > total + 1e-9 || x.is_nan() {
            c.bad(alg, "capacity-exceeded", params.into(), format!("flow {x} on {u}->{v} whose total capacity is {total}"));
        }
        f[u][v] = x;
    }
    for v in 0..n {
        let outf: f64 = (0..n).map(|x| f[v][x]).sum();
        let inf: f64 = (0..n).map(|x| f[x][v]).sum();
        let net = outf - inf;
        let want = if v == s { value } else if v == t { -value } else { 0.0 };
        if !feq(net, want) {
            let kind = if v == s || v == t { "flow-value-mismatch" } else { "conservation" };
            c.bad(alg, kind, params.into(), format!("node {v}: out-in = {net}, expected {want} (max_flow={value}, flows={flows:?})"));
            return;
        }
    }
}

pub fn fam_flow(_g: &G, m: &Model, b: &Built, c: &mut Out) {
    c.fam = F_FLOW;
    let n = m.n;
    let st = b.store.clone();
    let store: &LpgStore = &st;
    let ns = &b.nodes;
    for weighted in [true, false] {
        let cp: Option<&str> = if weighted { Some("w") } else { None };
        let cap = if weighted { &m.wm.w } else { &m.um.w };
        for s in 0..n {
            for t in 0..n {
                let p = format!("source={s},sink={t},capacity={}", if weighted { "w" } else { "none" });
                let Some(r) = c.call("max_flow", &p, || ga::max_flow(store, ns[s], ns[t], cp)) else { continue };
                let Some(r) = r else {
                    c.bad("max_flow", "none-on-valid", p, "None returned for existing source and sink".into());
                    continue;
                };
                if s == t {
                    if r.max_flow != 0.0 || !r.flow_edges.is_empty() {
                        c.bad("max_flow", "source-eq-sink", p, format!("source == sink but flow {} reported", r.max_flow));
                    }
                    continue;
                }
                let cut = min_cut(m, cap, s, t);
                if !feq(r.max_flow, cut) {
                    c.bad("max_flow", "flow-vs-cut", p.clone(), format!("max_flow={} but the minimum s-t cut is {cut}", r.max_flow));
                }
                check_flow_edges(c, "max_flow", &p, m, b, cap, s, t, r.max_flow, &r.flow_edges);
            }
        }
    }
    if n > 0 {
        let p = "source=absent".to_string();
        if let Some(r) = c.call("max_flow", &p, || ga::max_flow(store, NodeId::new(999), ns[0], Some("w"))) {
            if r.is_some() {
                c.bad("max_flow", "absent-source", p, "Some returned for a missing source".into());
            }
        }
    }
}

/// Minimum cost over all integral flows of value `value` (capacities are integers).
fn brute_min_cost(m: &Model, cap: &[f64], cost: &[f64], s: usize, t: usize, value: f64) -> f64 {
    let caps: Vec<usize> = cap.iter().map(|&x| x as usize).collect();
    let mut f = vec![0usize; m.ne];
    let mut best = f64::INFINITY;
    loop {
        let mut ok = true;
        for v in 0..m.n {
            let mut net = 0i64;
            for e in 0..m.ne {
                if m.eu[e] == v {
                    net += f[e] as i64;
                }
                if m.ev[e] == v {
                    net -= f[e] as i64;
                }
            }
            let want = if v == s { value as i64 } else if v == t { -(value as i64) } else { 0 };
            if net != want {
                ok = false;
                break;
            }
        }
        if ok {
            let tot: f64 = (0..m.ne).map(|e| f[e] as f64 * cost[e]).sum();
            if tot < best {
                best = tot;
            }
        }
        let mut k = 0;
        loop {
            if k == m.ne {
                return best;
            }
            if f[k] < caps[k] {
                f[k] += 1;
                break;
            }
            f[k] = 0;
            k += 1;
        }
    }
}

pub fn fam_mincost(_g: &G, m: &Model, b: &Built, c: &mut Out) {
    c.fam = F_MINCOST;
    let n = m.n;
    let st = b.store.clone();
    let store: &LpgStore = &st;
    let ns = &b.nodes;
    let cap = &m.wm.w;
    for s in 0..n {
        for t in 0..n {
            let p = format!("source={s},sink={t}");
            let Some(r) = c.call("min_cost_max_flow", &p, || ga::min_cost_max_flow(store, ns[s], ns[t], Some("w"), Some("c"))) else { continue };
            let Some(r) = r else {
                c.bad("min_cost_max_flow", "none-on-valid", p, "None returned for existing source and sink".into());
                continue;
            };
            if s == t {
                if r.max_flow != 0.0 || r.total_cost != 0.0 || !r.flow_edges.is_empty() {
                    c.bad("min_cost_max_flow", "source-eq-sink", p, format!("source == sink but flow {} / cost {} reported", r.max_flow, r.total_cost));
                }
                continue;
            }
            let cut = min_cut(m, cap, s, t);
            if !feq(r.max_flow, cut) {
                c.bad("min_cost_max_flow", "flow-vs-cut", p.clone(), format!("max_flow={} but the minimum s-t cut is {cut}", r.max_flow));
                continue;
            }
            let flows: Vec<(NodeId, NodeId, f64)> = r.flow_edges.iter().map(|&(u, v, f, _)| (u, v, f)).collect();
            check_flow_edges(c, "min_cost_max_flow", &p, m, b, cap, s, t, r.max_flow, &flows);
            let best = brute_min_cost(m, cap, &m.cost, s, t, cut);
            if r.total_cost > best + 1e-9 {
                c.bad("min_cost_max_flow", "cost-not-minimal", p.clone(), format!("total_cost={} for flow {cut}, a flow of the same value costs {best}", r.total_cost));
            } else if r.total_cost < best - 1e-9 || r.total_cost.is_nan() {
                c.bad("min_cost_max_flow", "cost-unreal", p.clone(), format!("total_cost={} for flow {cut}, but no flow of that value costs less than {best}", r.total_cost));
            }
        }
    }
}
