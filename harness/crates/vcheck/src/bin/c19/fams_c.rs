//! Families: centrality, clustering, community detection, structure, ShortestPathOperator.
use std::collections::BTreeSet;

use grafeo_adapters::plugins::algorithms as ga;
use grafeo_common::types::{LogicalType, NodeId, Value};
use grafeo_common::utils::hash::FxHashMap;
use grafeo_core::execution::chunk::DataChunkBuilder;
use grafeo_core::execution::operators::{Operator, OperatorResult, ShortestPathOperator};
use grafeo_core::graph::Direction;
use grafeo_core::graph::lpg::LpgStore;

use crate::model::*;

/// Turn a node-keyed map into a dense vector; every node must be present exactly.
fn dense<T: Copy>(c: &mut Out, alg: &'static str, params: &str, m: &Model, b: &Built, map: &FxHashMap<NodeId, T>) -> Option<Vec<T>> {
    let mut v: Vec<Option<T>> = vec![None; m.n];
    for (id, x) in map.iter() {
        match b.ix(*id) {
            Some(i) => v[i] = Some(*x),
            None => {
                c.bad(alg, "unknown-node", params.into(), format!("result names node {id:?} which is not in the graph"));
                return None;
            }
        }
    }
    if let Some(i) = (0..m.n).find(|&i| v[i].is_none()) {
        c.bad(alg, "node-set", params.into(), format!("node {i} missing from the result"));
        return None;
    }
    Some(v.into_iter().map(|x| x.unwrap()).collect())
}

pub fn fam_cent(_g: &G, m: &Model, b: &Built, c: &mut Out) {
    c.fam = F_CENT;
    let n = m.n;
    let st = b.store.clone();
    let store: &LpgStore = &st;
    // degree
    let outd: Vec<usize> = (0..n).map(|v| (0..m.ne).filter(|&e| m.eu[e] == v).count()).collect();
    let ind: Vec<usize> = (0..n).map(|v| (0..m.ne).filter(|&e| m.ev[e] == v).count()).collect();
    if let Some(r) = c.call("degree_centrality", "", || ga::degree_centrality(store)) {
        if let (Some(i), Some(o), Some(t)) = (dense(c, "degree_centrality", "in", m, b, &r.in_degree), dense(c, "degree_centrality", "out", m, b, &r.out_degree), dense(c, "degree_centrality", "total", m, b, &r.total_degree)) {
            for v in 0..n {
                if i[v] != ind[v] || o[v] != outd[v] || t[v] != ind[v] + outd[v] {
                    c.bad("degree_centrality", "degree", format!("node={v}"), format!("in/out/total = {}/{}/{} but the edge list gives {}/{}/{}", i[v], o[v], t[v], ind[v], outd[v], ind[v] + outd[v]));
                }
            }
        }
    }
    if let Some(r) = c.call("degree_centrality_normalized", "", || ga::degree_centrality_normalized(store)) {
        if let Some(d) = dense(c, "degree_centrality_normalized", "", m, b, &r) {
            for v in 0..n {
                let want = if n <= 1 { 0.0 } else { (ind[v] + outd[v]) as f64 / (n - 1) as f64 };
                if !feq(d[v], want) {
                    c.bad("degree_centrality_normalized", "degree", format!("node={v}"), format!("{} reported, (in+out)/(n-1) = {want}", d[v]));
                }
            }
        }
    }
    // PageRank: probability distribution for every parameter choice
    for (damping, iters, tol) in [(0.85, 100usize, 1e-6), (0.85, 1, 1e-6), (0.85, 0, 1e-6), (0.5, 20, 1e-9), (1.0, 50, 1e-9), (0.0, 5, 1e-9), (0.85, 2000, 1e-13)] {
        let p = format!("damping={damping},max_iterations={iters},tolerance={tol:e}");
        if let Some(r) = c.call("pagerank", &p, || ga::pagerank(store, damping, iters, tol)) {
            if n == 0 {
                if !r.is_empty() {
                    c.bad("pagerank", "node-set", p, "scores on an empty graph".into());
                }
                continue;
            }
            let Some(pr) = dense(c, "pagerank", &p, m, b, &r) else { continue };
            if r.len() != n {
                c.bad("pagerank", "node-set", p.clone(), format!("{} scores for {n} nodes", r.len()));
            }
            if let Some(v) = (0..n).find(|&v| !(pr[v] >= 0.0)) {
                c.bad("pagerank", "pagerank-negative", p.clone(), format!("score of node {v} is {}", pr[v]));
            }
            let sum: f64 = pr.iter().sum();
            if !((sum - 1.0).abs() < 1e-6) {
                c.bad("pagerank", "pagerank-sum", p.clone(), format!("scores {pr:?} sum to {sum}"));
            }
            if iters == 2000 {
                if m.has_parallel {
                    c.tolerate("pagerank: stationarity not checked on graphs with parallel edges (multiplicity convention not fixed)");
                } else {
                    // r = (1-d)/n + d * ( sum_{j->i} r_j/out_j + sum_{dangling} r_j / n )
                    let dang: f64 = (0..n).filter(|&j| outd[j] == 0).map(|j| pr[j]).sum();
                    for i in 0..n {
                        let mut x = (1.0 - damping) / n as f64 + damping * dang / n as f64;
                        for e in 0..m.ne {
                            if m.ev[e] == i {
                                x += damping * pr[m.eu[e]] / outd[m.eu[e]] as f64;
                            }
                        }
                        if (x - pr[i]).abs() > 1e-7 {
                            c.bad("pagerank", "pagerank-not-stationary", p.clone(), format!("scores {pr:?}: node {i} should satisfy the PageRank equation with value {x}, has {}", pr[i]));
                            break;
                        }
                    }
                }
            }
        }
    }
    // betweenness (directed, ordered pairs, per the doc's normalisation 2/((n-1)(n-2)))
    let brute_bc = |by_nodes: bool| -> Vec<f64> {
        let mut bc = vec![0.0; n];
        for s in 0..n {
            for t in 0..n {
                if s == t || m.hop[s][t].is_none() {
                    continue;
                }
                let h = m.hop[s][t].unwrap();
                let mut sp: Vec<&PathRec> = m.paths_out[s].iter().filter(|p| p.t == t && p.hops == h).collect();
                if by_nodes {
                    let mut seen = BTreeSet::new();
                    sp.retain(|p| seen.insert(p.seq.clone()));
                }
                for v in 0..n {
                    if v != s && v != t {
                        let thr = sp.iter().filter(|p| p.mask & (1 << v) != 0).count();
                        bc[v] += thr as f64 / sp.len() as f64;
                    }
                }
            }
        }
        bc
    };
    let bc_e = brute_bc(false);
    let bc_n = brute_bc(true);
    for normalized in [false, true] {
        let p = format!("normalized={normalized}");
        if let Some(r) = c.call("betweenness_centrality", &p, || ga::betweenness_centrality(store, normalized)) {
            if let Some(d) = dense(c, "betweenness_centrality", &p, m, b, &r) {
                let norm = if normalized && n > 2 { 2.0 / ((n - 1) * (n - 2)) as f64 } else { 1.0 };
                let ok_e = (0..n).all(|v| feq(d[v], bc_e[v] * norm));
                let ok_n = (0..n).all(|v| feq(d[v], bc_n[v] * norm));
                if !ok_e && !ok_n {
                    c.bad("betweenness_centrality", "betweenness", p.clone(), format!("{d:?} reported; brute force over all shortest paths gives {:?}", bc_e.iter().map(|x| x * norm).collect::<Vec<_>>()));
                } else if ok_e != ok_n {
                    c.tolerate("betweenness: parallel edges counted as distinct shortest paths or not — both accepted");
                }
            }
        }
    }
    for wf in [false, true] {
        let p = format!("wf_improved={wf}");
        if let Some(r) = c.call("closeness_centrality", &p, || ga::closeness_centrality(store, wf)) {
            if let Some(d) = dense(c, "closeness_centrality", &p, m, b, &r) {
                for s in 0..n {
                    let reachable = (0..n).filter(|&t| t != s && m.reach[s][t]).count();
                    let total: usize = (0..n).filter_map(|t| m.hop[s][t]).sum();
                    let want = if n <= 1 || reachable == 0 || total == 0 {
                        0.0
                    } else if wf {
                        (reachable as f64 / (n - 1) as f64) * (reachable as f64 / total as f64)
                    } else {
                        reachable as f64 / total as f64
                    };
                    if !feq(d[s], want) {
                        c.bad("closeness_centrality", "closeness", format!("{p},node={s}"), format!("{} reported, definition gives {want} (reachable={reachable}, total distance={total})", d[s]));
                    }
                }
            }
        }
    }
}

// ---------------------------------------------------------------------------
// Clustering
// ---------------------------------------------------------------------------

pub fn fam_clust(_g: &G, m: &Model, b: &Built, c: &mut Out) {
    c.fam = F_CLUST;
    let n = m.n;
    let st = b.store.clone();
    let store: &LpgStore = &st;
    // brute force on the simple undirected view; a triangle is a set of three (distinct) nodes
    let mut tri = vec![0u64; n];
    let mut total = 0u64;
    for a in 0..n {
        for x in (a + 1)..n {
            for y in (x + 1)..n {
                if m.uadj[a][x] && m.uadj[x][y] && m.uadj[a][y] {
                    tri[a] += 1;
                    tri[x] += 1;
                    tri[y] += 1;
                    total += 1;
                }
            }
        }
    }
    let deg: Vec<usize> = (0..n).map(|v| (0..n).filter(|&u| m.uadj[v][u]).count()).collect();
    let coef: Vec<f64> = (0..n).map(|v| if deg[v] < 2 { 0.0 } else { tri[v] as f64 / ((deg[v] * (deg[v] - 1)) / 2) as f64 }).collect();
    let check_tri = |c: &mut Out, alg: &'static str, t: &[u64]| {
        for v in 0..n {
            if t[v] != tri[v] {
                c.bad(alg, "triangle-count", format!("node={v}"), format!("{} triangles reported through node {v}, {} sets of three mutually adjacent nodes contain it", t[v], tri[v]));
            }
        }
    };
    let check_coef = |c: &mut Out, alg: &'static str, k: &[f64]| {
        for v in 0..n {
            if m.selfloop[v] {
                c.tolerate("clustering coefficient of a node with a self-loop not checked (degree convention not fixed)");
            } else if !feq(k[v], coef[v]) {
                c.bad(alg, "clustering-coefficient", format!("node={v}"), format!("{} reported, 2T/(k(k-1)) = {} (T={}, k={})", k[v], coef[v], tri[v], deg[v]));
            }
        }
    };
    let check_global = |c: &mut Out, alg: &'static str, gc: f64| {
        if m.has_selfloop {
            c.tolerate("global clustering coefficient on a graph with self-loops not checked");
        } else {
            let want = if n == 0 { 0.0 } else { coef.iter().sum::<f64>() / n as f64 };
            if !feq(gc, want) {
                c.bad(alg, "clustering-coefficient", "global".into(), format!("global coefficient {gc} reported, average of local coefficients is {want}"));
            }
        }
    };
    if let Some(r) = c.call("triangle_count", "", || ga::triangle_count(store)) {
        if let Some(t) = dense(c, "triangle_count", "", m, b, &r) {
            check_tri(c, "triangle_count", &t);
        }
    }
    if let Some(r) = c.call("total_triangles", "", || ga::total_triangles(store)) {
        if r != total {
            c.bad("total_triangles", "triangle-count", "total".into(), format!("{r} reported, {total} triangles exist"));
        }
    }
    if let Some(r) = c.call("local_clustering_coefficient", "", || ga::local_clustering_coefficient(store)) {
        if let Some(k) = dense(c, "local_clustering_coefficient", "", m, b, &r) {
            check_coef(c, "local_clustering_coefficient", &k);
        }
    }
    if let Some(r) = c.call("global_clustering_coefficient", "", || ga::global_clustering_coefficient(store)) {
        check_global(c, "global_clustering_coefficient", r);
    }
    for par in [false, true] {
        let alg: &'static str = if par { "clustering_coefficient_parallel" } else { "clustering_coefficient" };
        let r = if par { c.call(alg, "threshold=0", || ga::clustering_coefficient_parallel(store, 0)) } else { c.call(alg, "", || ga::clustering_coefficient(store)) };
        if let Some(r) = r {
            if let Some(t) = dense(c, alg, "triangles", m, b, &r.triangle_counts) {
                check_tri(c, alg, &t);
            }
            if let Some(k) = dense(c, alg, "coefficients", m, b, &r.coefficients) {
                check_coef(c, alg, &k);
            }
            if r.total_triangles != total {
                c.bad(alg, "triangle-count", "total".into(), format!("total_triangles={} reported, {total} exist", r.total_triangles));
            }
            check_global(c, alg, r.global_coefficient);
        }
    }
}

// ---------------------------------------------------------------------------
// Community detection (heuristics: only structural sanity is determined)
// ---------------------------------------------------------------------------

fn check_communities(c: &mut Out, alg: &'static str, params: &str, m: &Model, lab: &[u64]) {
    for i in 0..m.n {
        for j in (i + 1)..m.n {
            if lab[i] == lab[j] && m.wcomp[i] != m.wcomp[j] {
                c.bad(alg, "community-spans-components", params.into(), format!("nodes {i} and {j} share community {} but lie in different connected components", lab[i]));
                return;
            }
        }
    }
}

pub fn fam_comm(_g: &G, m: &Model, b: &Built, c: &mut Out) {
    c.fam = F_COMM;
    let n = m.n;
    let st = b.store.clone();
    let store: &LpgStore = &st;
    for iters in [0usize, 1, 100] {
        let p = format!("max_iterations={iters}");
        if let Some(r) = c.call("label_propagation", &p, || ga::label_propagation(store, iters)) {
            if let Some(lab) = dense(c, "label_propagation", &p, m, b, &r) {
                check_communities(c, "label_propagation", &p, m, &lab);
                let distinct: BTreeSet<u64> = lab.iter().copied().collect();
                if ga::community_count(&r) != distinct.len() {
                    c.bad("community_count", "community-count", p.clone(), "community_count differs from the number of distinct labels".into());
                }
            }
        }
    }
    for res in [1.0f64, 0.5] {
        let p = format!("resolution={res}");
        if let Some(r) = c.call("louvain", &p, || ga::louvain(store, res)) {
            let Some(lab) = dense(c, "louvain", &p, m, b, &r.communities) else { continue };
            check_communities(c, "louvain", &p, m, &lab);
            let distinct: BTreeSet<u64> = lab.iter().copied().collect();
            if r.num_communities != distinct.len() {
                c.bad("louvain", "community-count", p.clone(), format!("num_communities={} but {} distinct labels", r.num_communities, distinct.len()));
            }
            if m.has_selfloop {
                c.tolerate("louvain: modularity value on graphs with self-loops not checked (self-loop convention not fixed)");
                continue;
            }
            // Q = 1/(2m) * sum_{i,j same community} (A_ij - res * k_i k_j / (2m)) on the undirected multigraph
            let mm = m.ne as f64;
            let q = |lab: &[u64]| -> f64 {
                if m.ne == 0 {
                    return 0.0;
                }
                let k: Vec<f64> = (0..n).map(|i| (0..n).map(|j| m.mult[i][j] as f64).sum()).collect();
                let mut s = 0.0;
                for i in 0..n {
                    for j in 0..n {
                        if lab[i] == lab[j] {
                            s += m.mult[i][j] as f64 - res * k[i] * k[j] / (2.0 * mm);
                        }
                    }
                }
                s / (2.0 * mm)
            };
            let want = q(&lab);
            if !feq(r.modularity, want) {
                c.bad("louvain", "modularity-value", p.clone(), format!("modularity={} reported for partition {lab:?}, definition gives {want}", r.modularity));
            } else {
                let single: Vec<u64> = (0..n as u64).collect();
                if want < q(&single) - 1e-9 {
                    c.tolerate("louvain: final partition has lower modularity than singletons (greedy quality not fixed by the statement)");
                }
            }
        }
    }
}

// ---------------------------------------------------------------------------
// Structure
// ---------------------------------------------------------------------------

fn brute_core(m: &Model, count_self: bool) -> Vec<usize> {
    let n = m.n;
    let mut core = vec![0usize; n];
    for k in 1..=n + 1 {
        let mut alive = vec![true; n];
        loop {
            let mut changed = false;
            for v in 0..n {
                if alive[v] {
                    let d = (0..n).filter(|&u| alive[u] && m.uadj[v][u]).count() + usize::from(count_self && m.selfloop[v]);
                    if d < k {
                        alive[v] = false;
                        changed = true;
                    }
                }
            }
            if !changed {
                break;
            }
        }
        for v in 0..n {
            if alive[v] {
                core[v] = k;
            }
        }
    }
    core
}

pub fn fam_struct(_g: &G, m: &Model, b: &Built, c: &mut Out) {
    c.fam = F_STRUCT;
    let n = m.n;
    let st = b.store.clone();
    let store: &LpgStore = &st;
    let all = vec![true; n];
    let base = ucomps(m, &all, None);
    if let Some(r) = c.call("articulation_points", "", || ga::articulation_points(store)) {
        let mut got = vec![false; n];
        let mut ok = true;
        for id in r.iter() {
            match b.ix(*id) {
                Some(i) => got[i] = true,
                None => {
                    c.bad("articulation_points", "unknown-node", String::new(), format!("result names node {id:?}"));
                    ok = false;
                }
            }
        }
        if ok {
            for v in 0..n {
                let mut alive = all.clone();
                alive[v] = false;
                let want = ucomps(m, &alive, None) > base;
                if got[v] && !want {
                    c.bad("articulation_points", "articulation-spurious", format!("node={v}"), format!("node {v} reported, but removing it leaves the number of connected components at most {base}"));
                } else if !got[v] && want {
                    c.bad("articulation_points", "articulation-missed", format!("node={v}"), format!("node {v} not reported, but removing it increases the number of connected components beyond {base}"));
                }
            }
        }
    }
    if let Some(r) = c.call("bridges", "", || ga::bridges(store)) {
        let mut got: Vec<(usize, usize)> = vec![];
        let mut ok = true;
        for (x, y) in r.iter() {
            match (b.ix(*x), b.ix(*y)) {
                (Some(u), Some(v)) => got.push((u.min(v), u.max(v))),
                _ => {
                    c.bad("bridges", "unknown-node", String::new(), "result names a node that is not in the graph".into());
                    ok = false;
                }
            }
        }
        if ok {
            let set: BTreeSet<(usize, usize)> = got.iter().copied().collect();
            if set.len() != got.len() {
                c.bad("bridges", "bridge-duplicate", String::new(), format!("a pair is listed twice: {got:?}"));
            }
            for u in 0..n {
                for v in (u + 1)..n {
                    let has = set.contains(&(u, v));
                    if !m.uadj[u][v] {
                        if has {
                            c.bad("bridges", "bridge-spurious", format!("pair={u},{v}"), format!("({u},{v}) reported but the nodes are not adjacent"));
                        }
                        continue;
                    }
                    let cuts = ucomps(m, &all, Some((u, v))) > base;
                    if m.mult[u][v] >= 2 && cuts {
                        c.tolerate("bridges: pair joined by several (parallel / antiparallel) edges — reported or not, both accepted");
                        continue;
                    }
                    if has && !cuts {
                        c.bad("bridges", "bridge-spurious", format!("pair={u},{v}"), format!("({u},{v}) reported but removing it does not disconnect anything"));
                    } else if !has && cuts {
                        c.bad("bridges", "bridge-missed", format!("pair={u},{v}"), format!("({u},{v}) not reported but removing it disconnects {u} from {v}"));
                    }
                }
            }
            for &(u, v) in &set {
                if u == v {
                    c.bad("bridges", "bridge-spurious", format!("pair={u},{v}"), "a self-loop reported as a bridge".into());
                }
            }
        }
    }
    let core_a = brute_core(m, false);
    let core_b = brute_core(m, true);
    if core_a != core_b {
        c.tolerate("k-core: self-loop counted towards the degree or not — both accepted");
    }
    if let Some(r) = c.call("kcore_decomposition", "", || ga::kcore_decomposition(store)) {
        if let Some(core) = dense(c, "kcore_decomposition", "", m, b, &r.core_numbers) {
            if core != core_a && core != core_b {
                c.bad("kcore_decomposition", "core-number", String::new(), format!("core numbers {core:?} reported; by definition (largest k such that the node lies in a subgraph of minimum degree k) they are {core_a:?}"));
            } else if r.max_core != core.iter().copied().max().unwrap_or(0) {
                c.bad("kcore_decomposition", "max-core", String::new(), format!("max_core={} but core numbers are {core:?}", r.max_core));
            }
        }
    }
    for k in 0..=3usize {
        let p = format!("k={k}");
        if let Some(r) = c.call("k_core", &p, || ga::k_core(store, k)) {
            let mut got: Vec<usize> = r.iter().filter_map(|id| b.ix(*id)).collect();
            got.sort();
            let wa: Vec<usize> = (0..n).filter(|&v| core_a[v] >= k).collect();
            let wb: Vec<usize> = (0..n).filter(|&v| core_b[v] >= k).collect();
            if got.len() != r.len() || (got != wa && got != wb) {
                c.bad("k_core", "k-core-set", p.clone(), format!("{k}-core reported as {got:?}; the maximal subgraph of minimum degree {k} has nodes {wa:?}"));
            }
        }
    }
}

// ---------------------------------------------------------------------------
// ShortestPathOperator (grafeo-core execution operator, BFS hop counts)
// ---------------------------------------------------------------------------

struct PairsOp {
    pairs: Vec<(NodeId, NodeId)>,
    done: bool,
}
impl Operator for PairsOp {
    fn next(&mut self) -> OperatorResult {
        if self.done || self.pairs.is_empty() {
            return Ok(None);
        }
        self.done = true;
        let schema = vec![LogicalType::Node, LogicalType::Node];
        let mut builder = DataChunkBuilder::with_capacity(&schema, self.pairs.len());
        for (s, t) in &self.pairs {
            builder.column_mut(0).unwrap().push_node_id(*s);
            builder.column_mut(1).unwrap().push_node_id(*t);
            builder.advance_row();
        }
        Ok(Some(builder.finish()))
    }
    fn reset(&mut self) {
        self.done = false;
    }
    fn name(&self) -> &'static str {
        "Pairs"
    }
}

pub fn fam_op(_g: &G, m: &Model, b: &Built, c: &mut Out) {
    c.fam = F_OP;
    let n = m.n;
    if n == 0 {
        return;
    }
    let ns = &b.nodes;
    let pairs: Vec<(NodeId, NodeId)> = (0..n).flat_map(|s| (0..n).map(move |t| (s, t))).map(|(s, t)| (ns[s], ns[t])).collect();
    for (dname, dir) in [("outgoing", Direction::Outgoing), ("incoming", Direction::Incoming), ("both", Direction::Both)] {
        let (hops, paths) = match dir {
            Direction::Outgoing => (&m.hop, &m.paths_out),
            Direction::Incoming => (&m.hop_in, &m.paths_in),
            Direction::Both => (&m.hop_both, &m.paths_both),
        };
        for all_paths in [false, true] {
            let p = format!("direction={dname},all_paths={all_paths}");
            let store = b.store.clone();
            let input = Box::new(PairsOp { pairs: pairs.clone(), done: false });
            let rows = c.call("ShortestPathOperator", &p, move || {
                let mut op = ShortestPathOperator::new(store, input, 0, 1, None, dir).with_all_paths(all_paths);
                let mut rows: Vec<(Option<NodeId>, Option<NodeId>, Option<Value>)> = vec![];
                loop {
                    match op.next() {
                        Ok(Some(chunk)) => {
                            for r in 0..chunk.row_count() {
                                rows.push((chunk.column(0).and_then(|x| x.get_node_id(r)), chunk.column(1).and_then(|x| x.get_node_id(r)), chunk.column(2).and_then(|x| x.get_value(r))));
                            }
                        }
                        Ok(None) => return Ok(rows),
                        Err(e) => return Err(format!("{e:?}")),
                    }
                }
            });
            let rows = match rows {
                None => continue,
                Some(Err(_)) => {
                    c.tolerate("ShortestPathOperator returned Err (not a wrong answer)");
                    continue;
                }
                Some(Ok(r)) => r,
            };
            let mut per: Vec<Vec<Vec<Option<i64>>>> = vec![vec![vec![]; n]; n];
            let mut bad_row = false;
            for (s, t, v) in rows {
                let (Some(s), Some(t)) = (s.and_then(|x| b.ix(x)), t.and_then(|x| b.ix(x))) else {
                    bad_row = true;
                    continue;
                };
                match v {
                    Some(Value::Int64(k)) => per[s][t].push(Some(k)),
                    Some(Value::Null) | None => per[s][t].push(None),
                    Some(_) => bad_row = true,
                }
            }
            if bad_row {
                c.bad("ShortestPathOperator", "row-shape", p.clone(), "an output row does not carry (source, target, Int64|Null)".into());
                continue;
            }
            for s in 0..n {
                for t in 0..n {
                    let pp = format!("{p},source={s},target={t}");
                    let got = &per[s][t];
                    match hops[s][t] {
                        None => {
                            if got != &vec![None] {
                                c.bad("ShortestPathOperator", "reach-set", pp, format!("rows {got:?} for an unreachable pair (expected one Null row)"));
                            }
                        }
                        Some(h) => {
                            if got.is_empty() || got.iter().any(|x| x.is_none()) {
                                c.bad("ShortestPathOperator", "reach-set", pp, format!("rows {got:?} although the pair is connected in {h} hops"));
                                continue;
                            }
                            if let Some(x) = got.iter().flatten().find(|&&x| x != h as i64) {
                                let kind = if *x > h as i64 { "distance-not-minimal" } else { "distance-unreal" };
                                c.bad("ShortestPathOperator", kind, pp, format!("path length {x} reported, the shortest path has {h} hops"));
                                continue;
                            }
                            if !all_paths {
                                if got.len() != 1 {
                                    c.bad("ShortestPathOperator", "row-count", pp, format!("{} rows for one pair without all_paths", got.len()));
                                }
                            } else {
                                let sp: Vec<&PathRec> = paths[s].iter().filter(|q| q.t == t && q.hops == h).collect();
                                let by_edges = sp.len();
                                let by_nodes = sp.iter().map(|q| q.seq.clone()).collect::<BTreeSet<_>>().len();
                                if got.len() != by_edges && got.len() != by_nodes {
                                    c.bad("ShortestPathOperator", "path-count", pp, format!("{} rows reported; there are {by_edges} shortest paths ({by_nodes} distinct node sequences)", got.len()));
                                } else if by_edges != by_nodes {
                                    c.tolerate("ShortestPathOperator(all_paths): parallel edges counted as distinct paths or not — both accepted");
                                }
                            }
                        }
                    }
                }
            }
        }
    }
}
