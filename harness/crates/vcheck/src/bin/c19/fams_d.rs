//! Family "union_find_large": the algorithms sitting on union-find / component
//! logic, over EVERY labelled simple undirected graph on 6 (quick) and 7
//! (thorough) nodes, three insertion/orientation/weight variants each, with
//! cheap oracles (bitmask BFS, reference Kruskal on distinct weights).
//! Union-by-rank only reaches rank 2 with >= 4 nodes in one set, and a rank-2
//! set meeting a rank-1 set needs >= 6 nodes — out of reach of the small spaces.
use grafeo_adapters::plugins::algorithms as ga;
use grafeo_common::types::NodeId;
use grafeo_common::utils::hash::FxHashMap;
use grafeo_core::graph::lpg::LpgStore;

use crate::model::*;

pub const BIG_VARIANTS: u8 = 3;

pub fn pairs(n: usize) -> Vec<(u8, u8)> {
    let mut p = vec![];
    for i in 0..n {
        for j in (i + 1)..n {
            p.push((i as u8, j as u8));
        }
    }
    p
}

/// The graph with undirected edge set `mask` over `pairs(n)`.
/// variant 0: edges inserted in ascending pair order as i->j, pair k weighs k+1;
/// variant 1: same, every second inserted edge stored reversed (j->i);
/// variant 2: inserted in descending pair order as i->j, weights reversed (pair k weighs P-k).
pub fn big_graph(n: usize, mask: u32, variant: u8) -> G {
    let ps = pairs(n);
    let np = ps.len();
    let mut edges = vec![];
    let present: Vec<usize> = (0..np).filter(|k| mask & (1 << k) != 0).collect();
    let order: Vec<usize> = if variant == 2 { present.iter().rev().copied().collect() } else { present };
    for (pos, &k) in order.iter().enumerate() {
        let (i, j) = ps[k];
        let w = if variant == 2 { np - k } else { k + 1 };
        let code = wcode_num(w);
        if variant == 1 && pos % 2 == 1 {
            edges.push((j, i, code, WM));
        } else {
            edges.push((i, j, code, WM));
        }
    }
    G { n: n as u8, edges, ints: false, mincost: false }
}

struct Uf(Vec<usize>);
impl Uf {
    fn find(&mut self, x: usize) -> usize {
        let mut r = x;
        while self.0[r] != r {
            r = self.0[r];
        }
        r
    }
    fn union(&mut self, a: usize, b: usize) -> bool {
        let (a, b) = (self.find(a), self.find(b));
        if a == b {
            return false;
        }
        self.0[a] = b;
        true
    }
}

fn comps(n: usize, adj: &[u32], alive: u32) -> (Vec<usize>, usize) {
    let mut lab = vec![usize::MAX; n];
    let mut c = 0;
    for s in 0..n {
        if alive & (1 << s) == 0 || lab[s] != usize::MAX {
            continue;
        }
        let mut seen = 1u32 << s;
        let mut frontier = seen;
        while frontier != 0 {
            let u = frontier.trailing_zeros() as usize;
            frontier &= frontier - 1;
            let new = adj[u] & alive & !seen;
            seen |= new;
            frontier |= new;
        }
        for v in 0..n {
            if seen & (1 << v) != 0 {
                lab[v] = c;
            }
        }
        c += 1;
    }
    (lab, c)
}

fn labels(c: &mut Out, alg: &'static str, n: usize, b: &Built, map: &FxHashMap<NodeId, u64>) -> Option<Vec<u64>> {
    let mut v: Vec<Option<u64>> = vec![None; n];
    for (id, l) in map.iter() {
        match b.ix(*id) {
            Some(i) => v[i] = Some(*l),
            None => {
                c.bad(alg, "unknown-node", String::new(), format!("result names node {id:?} which is not in the graph"));
                return None;
            }
        }
    }
    if let Some(i) = (0..n).find(|&i| v[i].is_none()) {
        c.bad(alg, "node-set", String::new(), format!("node {i} has no component"));
        return None;
    }
    Some(v.into_iter().map(|x| x.unwrap()).collect())
}

fn check_partition(c: &mut Out, alg: &'static str, n: usize, got: &[u64], same: &dyn Fn(usize, usize) -> bool) {
    for i in 0..n {
        for j in (i + 1)..n {
            let g = got[i] == got[j];
            let w = same(i, j);
            if g && !w {
                c.bad(alg, "component-merge", format!("nodes={i},{j}"), format!("nodes {i} and {j} share component {} but are not connected", got[i]));
                return;
            } else if !g && w {
                c.bad(alg, "component-split", format!("nodes={i},{j}"), format!("nodes {i} and {j} are connected but labelled {} / {} (labels {got:?})", got[i], got[j]));
                return;
            }
        }
    }
}

pub fn fam_big(g: &G, b: &Built, c: &mut Out) {
    c.fam = F_BIG;
    let n = g.n as usize;
    let full = n <= 6;
    let st = b.store.clone();
    let store: &LpgStore = &st;
    let ne = g.edges.len();
    let eu: Vec<usize> = g.edges.iter().map(|e| e.0 as usize).collect();
    let ev: Vec<usize> = g.edges.iter().map(|e| e.1 as usize).collect();
    let w: Vec<f64> = g.edges.iter().map(|e| wval(e.2).unwrap_or(1.0)).collect();
    let mut adj = vec![0u32; n];
    let mut dadj = vec![0u32; n];
    for e in 0..ne {
        adj[eu[e]] |= 1 << ev[e];
        adj[ev[e]] |= 1 << eu[e];
        dadj[eu[e]] |= 1 << ev[e];
    }
    let all = (1u32 << n) - 1;
    let (wcomp, ncomp) = comps(n, &adj, all);

    // weakly connected components
    if let Some(r) = c.call("connected_components", "", || ga::connected_components(store)) {
        if let Some(lab) = labels(c, "connected_components", n, b, &r) {
            check_partition(c, "connected_components", n, &lab, &|i, j| wcomp[i] == wcomp[j]);
        }
    }
    if let Some(k) = c.call("connected_component_count", "", || ga::connected_component_count(store)) {
        if k != ncomp {
            c.bad("connected_component_count", "component-count", String::new(), format!("{k} reported, {ncomp} connected components exist"));
        }
    }
    // strongly connected components (directed reachability closure)
    let mut reach: Vec<u32> = (0..n).map(|u| dadj[u] | (1 << u)).collect();
    for k in 0..n {
        for i in 0..n {
            if reach[i] & (1 << k) != 0 {
                reach[i] |= reach[k];
            }
        }
    }
    let strong = |i: usize, j: usize| reach[i] & (1 << j) != 0 && reach[j] & (1 << i) != 0;
    if let Some(r) = c.call("strongly_connected_components", "", || ga::strongly_connected_components(store)) {
        if let Some(lab) = labels(c, "strongly_connected_components", n, b, &r) {
            check_partition(c, "strongly_connected_components", n, &lab, &strong);
        }
    }
    let nscc = (0..n).filter(|&i| !(0..i).any(|j| strong(i, j))).count();
    if let Some(k) = c.call("strongly_connected_component_count", "", || ga::strongly_connected_component_count(store)) {
        if k != nscc {
            c.bad("strongly_connected_component_count", "component-count", String::new(), format!("{k} reported, {nscc} strongly connected components exist"));
        }
    }

    // Kruskal: weights are pairwise distinct, so the minimum spanning forest is unique
    let mut order: Vec<usize> = (0..ne).collect();
    order.sort_by(|&a, &b| w[a].partial_cmp(&w[b]).unwrap());
    let mut uf = Uf((0..n).collect());
    let mut ref_w = 0.0;
    let mut ref_edges = vec![false; ne];
    for &e in &order {
        if uf.union(eu[e], ev[e]) {
            ref_w += w[e];
            ref_edges[e] = true;
        }
    }
    if let Some(r) = c.call("kruskal", "weight=w", || ga::kruskal(store, Some("w"))) {
        let p = "weight=w".to_string();
        let mut uf = Uf((0..n).collect());
        let mut sum = 0.0;
        let mut used = vec![false; ne];
        let mut ok = true;
        for &(src, dst, eid, wt) in &r.edges {
            let Some(e) = b.eix(eid) else {
                c.bad("kruskal", "edge-not-real", p.clone(), format!("result edge id {eid:?} is not an edge of the graph"));
                ok = false;
                break;
            };
            let (u, v) = (b.ix(src), b.ix(dst));
            if !((u == Some(eu[e]) && v == Some(ev[e])) || (u == Some(ev[e]) && v == Some(eu[e]))) {
                c.bad("kruskal", "edge-not-real", p.clone(), format!("result edge ({src:?},{dst:?}) does not match edge #{e} {}->{}", eu[e], ev[e]));
                ok = false;
                break;
            }
            if !feq(wt, w[e]) {
                c.bad("kruskal", "edge-weight", p.clone(), format!("result gives weight {wt} to edge {}->{} whose weight is {}", eu[e], ev[e], w[e]));
            }
            if used[e] || !uf.union(eu[e], ev[e]) {
                c.bad("kruskal", "cyclic", p.clone(), format!("result edges contain a cycle (closing edge {}->{}); {} edges returned for {n} nodes in {ncomp} components", eu[e], ev[e], r.edges.len()));
                ok = false;
                break;
            }
            used[e] = true;
            sum += w[e];
        }
        if ok {
            let split = (0..n).flat_map(|i| (0..n).map(move |j| (i, j))).find(|&(i, j)| wcomp[i] == wcomp[j] && uf.find(i) != uf.find(j));
            if let Some((i, j)) = split {
                c.bad("kruskal", "not-spanning", p.clone(), format!("nodes {i} and {j} are connected in the graph but not by the result ({} edges)", r.edges.len()));
            } else {
                if !feq(sum, r.total_weight) {
                    c.bad("kruskal", "total-mismatch", p.clone(), format!("total_weight={} but the listed edges weigh {sum}", r.total_weight));
                }
                if sum > ref_w + 1e-9 {
                    c.bad("kruskal", "mst-weight", p.clone(), format!("spanning forest of weight {sum} returned, the (unique) minimum weighs {ref_w}"));
                } else if sum < ref_w - 1e-9 {
                    c.bad("kruskal", "mst-weight-unreal", p.clone(), format!("weight {sum} is below the minimum {ref_w}"));
                } else if used != ref_edges {
                    c.bad("kruskal", "mst-edges", p, "distinct weights: the minimum spanning forest is unique, but a different edge set of the same weight was returned".into());
                }
            }
        }
    }
    if !full {
        return;
    }
    // articulation points and bridges by removal and recount (graphs here are simple)
    if let Some(r) = c.call("articulation_points", "", || ga::articulation_points(store)) {
        let mut got = 0u32;
        for id in r.iter() {
            if let Some(i) = b.ix(*id) {
                got |= 1 << i;
            }
        }
        for v in 0..n {
            let want = comps(n, &adj, all & !(1 << v)).1 > ncomp;
            let has = got & (1 << v) != 0;
            if has && !want {
                c.bad("articulation_points", "articulation-spurious", format!("node={v}"), format!("node {v} reported, but removing it does not increase the number of connected components ({ncomp})"));
            } else if !has && want {
                c.bad("articulation_points", "articulation-missed", format!("node={v}"), format!("node {v} not reported, but removing it increases the number of connected components beyond {ncomp}"));
            }
        }
    }
    if let Some(r) = c.call("bridges", "", || ga::bridges(store)) {
        let mut got: Vec<(usize, usize)> = r.iter().filter_map(|(x, y)| Some((b.ix(*x)?, b.ix(*y)?))).map(|(u, v)| (u.min(v), u.max(v))).collect();
        got.sort();
        if got.len() != r.len() || got.windows(2).any(|x| x[0] == x[1]) {
            c.bad("bridges", "bridge-duplicate", String::new(), format!("unknown node or duplicate pair in {got:?}"));
        }
        for e in 0..ne {
            let (u, v) = (eu[e].min(ev[e]), eu[e].max(ev[e]));
            let mut a2 = adj.clone();
            a2[u] &= !(1 << v);
            a2[v] &= !(1 << u);
            let want = comps(n, &a2, all).1 > ncomp;
            let has = got.contains(&(u, v));
            if has && !want {
                c.bad("bridges", "bridge-spurious", format!("pair={u},{v}"), format!("({u},{v}) reported but removing it does not disconnect anything"));
            } else if !has && want {
                c.bad("bridges", "bridge-missed", format!("pair={u},{v}"), format!("({u},{v}) not reported but removing it disconnects {u} from {v}"));
            }
        }
        if let Some(&(u, v)) = got.iter().find(|&&(u, v)| adj[u] & (1 << v) == 0) {
            c.bad("bridges", "bridge-spurious", format!("pair={u},{v}"), format!("({u},{v}) reported but the nodes are not adjacent"));
        }
    }
}
