//! Graph cases, the real store built from them, and the brute-force model
//! (exhaustive simple-path / cycle enumeration) every oracle is derived from.
use std::collections::BTreeMap;
use std::sync::atomic::{AtomicU64, Ordering};
use std::sync::{Arc, Mutex, OnceLock};
use std::time::Instant;

use grafeo_common::types::{EdgeId, NodeId, Value};
use grafeo_core::graph::lpg::LpgStore;
use serde_json::{Value as J, json};

pub const W1: u8 = 0;
pub const W2: u8 = 1;
pub const W0: u8 = 2;
pub const WM: u8 = 3;
pub const WN: u8 = 4;

pub fn wval(code: u8) -> Option<f64> {
    match code {
        W1 => Some(1.0),
        W2 => Some(2.0),
        W0 => Some(0.0),
        WM => None,
        WN => Some(-1.0),
        c if c >= WNUM => Some((c - WNUM + 1) as f64),
        _ => unreachable!(),
    }
}
/// codes >= WNUM carry the plain integer weight (code - WNUM + 1), used by the large-graph family
pub const WNUM: u8 = 16;
pub fn wcode_num(w: usize) -> u8 {
    WNUM + (w as u8) - 1
}
pub fn wname(code: u8) -> String {
    if code >= WNUM {
        return format!("{}", code - WNUM + 1);
    }
    ["1", "2", "0", "missing", "-1"][code as usize].to_string()
}
pub fn wcode(name: &str) -> u8 {
    match name {
        "1" => W1,
        "2" => W2,
        "0" => W0,
        "missing" => WM,
        "-1" => WN,
        o => match o.parse::<usize>() {
            Ok(w) if (3..=200).contains(&w) => wcode_num(w),
            _ => vcore::machinery_failure(&format!("bad weight name {o}")),
        },
    }
}

/// One enumerated case: a labelled directed multigraph in insertion order.
/// Edge = (from, to, weight code, cost code); the cost code is only material
/// when `mincost` is set (then a second edge property "c" is written).
#[derive(Clone, PartialEq, Eq, Hash, Debug)]
pub struct G {
    pub n: u8,
    pub edges: Vec<(u8, u8, u8, u8)>,
    pub ints: bool,
    pub mincost: bool,
}

impl G {
    pub fn to_json(&self) -> J {
        json!({
            "n": self.n,
            "edges": self.edges.iter().map(|&(u, v, w, c)| if self.mincost { json!([u, v, wname(w), wname(c)]) } else { json!([u, v, wname(w)]) }).collect::<Vec<_>>(),
            "ints": self.ints,
            "mincost": self.mincost,
        })
    }
    pub fn from_json(j: &J) -> G {
        let n = j["n"].as_u64().unwrap_or_else(|| vcore::machinery_failure("replay graph: n")) as u8;
        let mincost = j["mincost"].as_bool().unwrap_or(false);
        let ints = j["ints"].as_bool().unwrap_or(false);
        let mut edges = vec![];
        for e in j["edges"].as_array().cloned().unwrap_or_default() {
            let u = e[0].as_u64().unwrap() as u8;
            let v = e[1].as_u64().unwrap() as u8;
            let w = wcode(e[2].as_str().unwrap());
            let c = e.get(3).and_then(|x| x.as_str()).map(wcode).unwrap_or(WM);
            edges.push((u, v, w, c));
        }
        G { n, edges, ints, mincost }
    }
    pub fn short(&self) -> String {
        let es: Vec<String> = self
            .edges
            .iter()
            .map(|&(u, v, w, c)| if self.mincost { format!("{u}->{v}[cap={},cost={}]", wname(w), wname(c)) } else { format!("{u}->{v}[{}]", wname(w)) })
            .collect();
        format!("n={} {}{}", self.n, es.join(" "), if self.ints { " (Int64)" } else { "" })
    }
}

pub struct Built {
    pub store: Arc<LpgStore>,
    pub nodes: Vec<NodeId>,
    pub eids: Vec<EdgeId>,
}
impl Built {
    pub fn ix(&self, id: NodeId) -> Option<usize> {
        self.nodes.iter().position(|x| *x == id)
    }
    pub fn eix(&self, id: EdgeId) -> Option<usize> {
        self.eids.iter().position(|x| *x == id)
    }
}

pub fn build(g: &G) -> Built {
    let store = Arc::new(LpgStore::new());
    let nodes: Vec<NodeId> = (0..g.n).map(|_| store.create_node(&["N"])).collect();
    let mut eids = vec![];
    let val = |x: f64| if g.ints { Value::Int64(x as i64) } else { Value::Float64(x) };
    for &(u, v, w, c) in &g.edges {
        let e = store.create_edge(nodes[u as usize], nodes[v as usize], "E");
        if let Some(x) = wval(w) {
            store.set_edge_property(e, "w", val(x));
        }
        if g.mincost {
            if let Some(x) = wval(c) {
                store.set_edge_property(e, "c", val(x));
            }
        }
        eids.push(e);
    }
    Built { store, nodes, eids }
}

pub struct PathRec {
    pub t: usize,
    pub hops: usize,
    pub wt: f64,
    pub mask: u32,
    pub seq: Vec<u8>,
}

/// Every simple path (as an edge sequence) from `s`, plus every simple cycle through `s`.
fn enum_paths(adj: &[Vec<(usize, usize)>], w: &[f64], s: usize) -> (Vec<PathRec>, Vec<(f64, u32)>) {
    fn rec(adj: &[Vec<(usize, usize)>], w: &[f64], start: usize, cur: usize, mask: u32, hops: usize, wt: f64, seq: &mut Vec<u8>, paths: &mut Vec<PathRec>, cycles: &mut Vec<(f64, u32)>) {
        paths.push(PathRec { t: cur, hops, wt, mask, seq: seq.clone() });
        for &(v, e) in &adj[cur] {
            if v == start {
                cycles.push((wt + w[e], mask));
            }
            if mask & (1 << v) == 0 {
                seq.push(v as u8);
                rec(adj, w, start, v, mask | (1 << v), hops + 1, wt + w[e], seq, paths, cycles);
                seq.pop();
            }
        }
    }
    let mut paths = vec![];
    let mut cycles = vec![];
    let mut seq = vec![s as u8];
    rec(adj, w, s, s, 1 << s, 0, 0.0, &mut seq, &mut paths, &mut cycles);
    (paths, cycles)
}

/// Weighted view used by the shortest-path / MST oracles (real weights or all 1).
pub struct Wm {
    pub w: Vec<f64>,
    pub minw: Vec<Vec<Option<f64>>>,
    pub sp: Vec<Vec<Option<f64>>>,
}

pub struct Model {
    pub n: usize,
    pub ne: usize,
    pub eu: Vec<usize>,
    pub ev: Vec<usize>,
    pub cost: Vec<f64>,
    pub out: Vec<Vec<usize>>,
    pub paths_out: Vec<Vec<PathRec>>,
    pub paths_in: Vec<Vec<PathRec>>,
    pub paths_both: Vec<Vec<PathRec>>,
    pub reach: Vec<Vec<bool>>,
    pub hop: Vec<Vec<Option<usize>>>,
    pub hop_in: Vec<Vec<Option<usize>>>,
    pub hop_both: Vec<Vec<Option<usize>>>,
    pub wm: Wm,
    pub um: Wm,
    pub on_neg: Vec<bool>,
    pub neg_from: Vec<bool>,
    pub cyclic: bool,
    pub wcomp: Vec<usize>,
    pub ncomp: usize,
    pub uadj: Vec<Vec<bool>>,
    pub selfloop: Vec<bool>,
    pub mult: Vec<Vec<usize>>,
    pub has_neg: bool,
    pub has_parallel: bool,
    pub has_antiparallel: bool,
    pub has_selfloop: bool,
}

fn hops_of(n: usize, paths: &[Vec<PathRec>]) -> Vec<Vec<Option<usize>>> {
    let mut h = vec![vec![None; n]; n];
    for s in 0..n {
        for p in &paths[s] {
            let e = &mut h[s][p.t];
            if e.map_or(true, |x| p.hops < x) {
                *e = Some(p.hops);
            }
        }
    }
    h
}

pub fn model(g: &G) -> Model {
    let n = g.n as usize;
    let ne = g.edges.len();
    let eu: Vec<usize> = g.edges.iter().map(|e| e.0 as usize).collect();
    let ev: Vec<usize> = g.edges.iter().map(|e| e.1 as usize).collect();
    let w: Vec<f64> = g.edges.iter().map(|e| wval(e.2).unwrap_or(1.0)).collect();
    let cost: Vec<f64> = g.edges.iter().map(|e| wval(e.3).unwrap_or(0.0)).collect();
    let unit = vec![1.0; ne];
    let mut out = vec![vec![]; n];
    let mut adj_out = vec![vec![]; n];
    let mut adj_in = vec![vec![]; n];
    let mut adj_both = vec![vec![]; n];
    for e in 0..ne {
        out[eu[e]].push(e);
        adj_out[eu[e]].push((ev[e], e));
        adj_in[ev[e]].push((eu[e], e));
    }
    for u in 0..n {
        adj_both[u] = adj_out[u].iter().chain(adj_in[u].iter()).copied().collect();
    }
    let mut paths_out = vec![];
    let mut paths_in = vec![];
    let mut paths_both = vec![];
    let mut on_neg = vec![false; n];
    let mut cyclic = false;
    for s in 0..n {
        let (p, cyc) = enum_paths(&adj_out, &w, s);
        for (cw, mask) in cyc {
            cyclic = true;
            if cw < 0.0 {
                for v in 0..n {
                    if mask & (1 << v) != 0 {
                        on_neg[v] = true;
                    }
                }
            }
        }
        paths_out.push(p);
        paths_in.push(enum_paths(&adj_in, &unit, s).0);
        paths_both.push(enum_paths(&adj_both, &unit, s).0);
    }
    let hop = hops_of(n, &paths_out);
    let hop_in = hops_of(n, &paths_in);
    let hop_both = hops_of(n, &paths_both);
    let reach: Vec<Vec<bool>> = hop.iter().map(|r| r.iter().map(|x| x.is_some()).collect()).collect();
    let mk = |wts: &Vec<f64>, unitw: bool| {
        let mut minw = vec![vec![None::<f64>; n]; n];
        for e in 0..ne {
            let x = &mut minw[eu[e]][ev[e]];
            if x.map_or(true, |c| wts[e] < c) {
                *x = Some(wts[e]);
            }
        }
        let mut sp = vec![vec![None::<f64>; n]; n];
        for s in 0..n {
            for p in &paths_out[s] {
                let wt = if unitw { p.hops as f64 } else { p.wt };
                let x = &mut sp[s][p.t];
                if x.map_or(true, |c| wt < c) {
                    *x = Some(wt);
                }
            }
        }
        Wm { w: wts.clone(), minw, sp }
    };
    let wm = mk(&w, false);
    let um = mk(&unit, true);
    let neg_from: Vec<bool> = (0..n).map(|s| (0..n).any(|c| reach[s][c] && on_neg[c])).collect();
    let mut wcomp = vec![usize::MAX; n];
    let mut ncomp = 0;
    for s in 0..n {
        if wcomp[s] == usize::MAX {
            for t in 0..n {
                if hop_both[s][t].is_some() {
                    wcomp[t] = ncomp;
                }
            }
            ncomp += 1;
        }
    }
    let mut uadj = vec![vec![false; n]; n];
    let mut selfloop = vec![false; n];
    let mut mult = vec![vec![0usize; n]; n];
    let mut dirmult: BTreeMap<(usize, usize), usize> = BTreeMap::new();
    for e in 0..ne {
        let (u, v) = (eu[e], ev[e]);
        *dirmult.entry((u, v)).or_default() += 1;
        if u == v {
            selfloop[u] = true;
            mult[u][u] += 1;
        } else {
            uadj[u][v] = true;
            uadj[v][u] = true;
            mult[u][v] += 1;
            mult[v][u] += 1;
        }
    }
    let has_parallel = dirmult.values().any(|&c| c > 1);
    let has_antiparallel = dirmult.keys().any(|&(u, v)| u != v && dirmult.contains_key(&(v, u)));
    Model {
        n,
        ne,
        eu,
        ev,
        cost,
        out,
        paths_out,
        paths_in,
        paths_both,
        reach,
        hop,
        hop_in,
        hop_both,
        wm,
        um,
        on_neg,
        neg_from,
        cyclic,
        wcomp,
        ncomp,
        uadj,
        has_selfloop: selfloop.iter().any(|&b| b),
        selfloop,
        mult,
        has_neg: g.edges.iter().any(|e| e.2 == WN),
        has_parallel,
        has_antiparallel,
    }
}

/// Number of connected components of the simple undirected view restricted to
/// `alive` nodes and with the unordered pair `skip` removed.
pub fn ucomps(m: &Model, alive: &[bool], skip: Option<(usize, usize)>) -> usize {
    let n = m.n;
    let mut seen = vec![false; n];
    let mut c = 0;
    for s in 0..n {
        if !alive[s] || seen[s] {
            continue;
        }
        c += 1;
        let mut st = vec![s];
        seen[s] = true;
        while let Some(u) = st.pop() {
            for v in 0..n {
                if alive[v] && !seen[v] && m.uadj[u][v] && skip != Some((u.min(v), u.max(v))) {
                    seen[v] = true;
                    st.push(v);
                }
            }
        }
    }
    c
}

pub fn feq(a: f64, b: f64) -> bool {
    (a - b).abs() < 1e-9
}

// ---------------------------------------------------------------------------
// Output collector + watchdog
// ---------------------------------------------------------------------------

pub const F_SP: u8 = 0;
pub const F_TRAV: u8 = 1;
pub const F_COMP: u8 = 2;
pub const F_MST: u8 = 3;
pub const F_FLOW: u8 = 4;
pub const F_CENT: u8 = 5;
pub const F_CLUST: u8 = 6;
pub const F_COMM: u8 = 7;
pub const F_STRUCT: u8 = 8;
pub const F_OP: u8 = 9;
pub const F_MINCOST: u8 = 10;
pub const F_BIG: u8 = 11;
pub const FAM_NAMES: [&str; 12] = ["shortest_path", "traversal", "components", "mst", "flow", "centrality", "clustering", "community", "structure", "operator_shortest_path", "min_cost_flow", "union_find_large"];

pub struct Raw {
    pub fam: u8,
    pub alg: &'static str,
    pub kind: &'static str,
    pub params: String,
    pub detail: String,
}

pub struct Slot {
    since_ms: AtomicU64,
    what: Mutex<String>,
    alg: Mutex<&'static str>,
}
static SLOTS: OnceLock<Mutex<Vec<Arc<Slot>>>> = OnceLock::new();
static EPOCH: OnceLock<Instant> = OnceLock::new();
thread_local! {
    static SLOT: Arc<Slot> = {
        let s = Arc::new(Slot { since_ms: AtomicU64::new(0), what: Mutex::new(String::new()), alg: Mutex::new("") });
        SLOTS.get_or_init(|| Mutex::new(vec![])).lock().unwrap().push(s.clone());
        s
    };
}
fn now_ms() -> u64 {
    EPOCH.get_or_init(Instant::now).elapsed().as_millis() as u64 + 1
}
pub fn wd_begin(what: String) {
    SLOT.with(|s| {
        *s.what.lock().unwrap() = what;
        s.since_ms.store(now_ms(), Ordering::SeqCst);
    });
}
pub fn wd_alg(a: &'static str) {
    SLOT.with(|s| *s.alg.lock().unwrap() = a);
}
pub fn wd_end() {
    SLOT.with(|s| s.since_ms.store(0, Ordering::SeqCst));
}
/// A call into the real code that does not return is a machinery failure
/// (exit 2, naming the case) — wall-clock never decides a verdict.
pub fn start_watchdog(limit_s: u64) {
    let _ = now_ms();
    std::thread::spawn(move || {
        loop {
            std::thread::sleep(std::time::Duration::from_millis(1000));
            let slots = SLOTS.get_or_init(|| Mutex::new(vec![])).lock().unwrap().clone();
            for s in slots {
                let since = s.since_ms.load(Ordering::SeqCst);
                if since != 0 && now_ms().saturating_sub(since) > limit_s * 1000 {
                    let what = s.what.lock().unwrap().clone();
                    let alg = *s.alg.lock().unwrap();
                    vcore::machinery_failure(&format!("call into the real code did not return within {limit_s}s: algorithm={alg} graph={what}"));
                }
            }
        }
    });
}

pub struct Out {
    pub fam: u8,
    pub raws: Vec<Raw>,
    pub evals: u64,
    pub tol: BTreeMap<&'static str, u64>,
}
impl Out {
    pub fn new() -> Out {
        Out { fam: 0, raws: vec![], evals: 0, tol: BTreeMap::new() }
    }
    pub fn bad(&mut self, alg: &'static str, kind: &'static str, params: String, detail: String) {
        self.raws.push(Raw { fam: self.fam, alg, kind, params, detail });
    }
    pub fn tolerate(&mut self, what: &'static str) {
        *self.tol.entry(what).or_default() += 1;
    }
    /// Run one call into the real code under catch_unwind; a panic is a violation of kind "panic".
    pub fn call<T>(&mut self, alg: &'static str, params: &str, f: impl FnOnce() -> T) -> Option<T> {
        wd_alg(alg);
        self.evals += 1;
        match vcore::catch(f) {
            Ok(v) => Some(v),
            Err(msg) => {
                self.bad(alg, "panic", params.to_string(), format!("panicked: {}", vcore::truncate(&msg, 200)));
                None
            }
        }
    }
}
