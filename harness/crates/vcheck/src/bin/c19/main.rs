//! C19 — graph algorithms compute what their definitions say (DESIGN.md §3/C19, engine E3/ENUM).
//!
//! Bounded-exhaustive enumeration of small labelled directed multigraphs
//! (self-loops, parallel edges, isolated nodes, every weight assignment from a
//! small alphabet, two insertion orders) executed against the real algorithm
//! functions of grafeo-adapters and the ShortestPathOperator of grafeo-core,
//! compared with brute-force oracles (exhaustive path / subset / cut enumeration).
mod fams_a;
mod fams_b;
mod fams_c;
mod fams_d;
mod model;

use std::collections::BTreeMap;

use model::*;
use serde_json::{Value as J, json};
use vcore::{Report, Tier, Violation};

// ---------------------------------------------------------------------------
// Running one graph
// ---------------------------------------------------------------------------

fn families_of(g: &G) -> Vec<u8> {
    if g.n >= 6 {
        vec![F_BIG] // large simple graphs: union-find / component algorithms only, cheap oracles
    } else if g.n == 5 {
        vec![F_SP] // the source-star family (star_graphs): shortest paths only
    } else if g.mincost {
        vec![F_MINCOST]
    } else if g.edges.iter().any(|e| e.2 == WN) {
        vec![F_SP] // negative weights: only Bellman-Ford / Floyd-Warshall admit them
    } else {
        vec![F_SP, F_TRAV, F_COMP, F_MST, F_FLOW, F_CENT, F_CLUST, F_COMM, F_STRUCT, F_OP]
    }
}

fn run_families(g: &G, fams: &[u8]) -> Out {
    wd_begin(g.short());
    if g.n >= 6 {
        // no exhaustive path model for large graphs
        let b = build(g);
        let mut out = Out::new();
        if fams.contains(&F_BIG) {
            fams_d::fam_big(g, &b, &mut out);
        }
        wd_end();
        return out;
    }
    let m = model(g);
    let b = build(g);
    let mut out = Out::new();
    for &f in fams {
        match f {
            F_SP => fams_a::fam_sp(g, &m, &b, &mut out),
            F_TRAV => fams_a::fam_trav(g, &m, &b, &mut out),
            F_COMP => fams_a::fam_comp(g, &m, &b, &mut out),
            F_MST => fams_b::fam_mst(g, &m, &b, &mut out),
            F_FLOW => fams_b::fam_flow(g, &m, &b, &mut out),
            F_MINCOST => fams_b::fam_mincost(g, &m, &b, &mut out),
            F_CENT => fams_c::fam_cent(g, &m, &b, &mut out),
            F_CLUST => fams_c::fam_clust(g, &m, &b, &mut out),
            F_COMM => fams_c::fam_comm(g, &m, &b, &mut out),
            F_STRUCT => fams_c::fam_struct(g, &m, &b, &mut out),
            F_OP => fams_c::fam_op(g, &m, &b, &mut out),
            _ => unreachable!(),
        }
    }
    wd_end();
    out
}

// ---------------------------------------------------------------------------
// Attribution: reduce the violating graph to a 1-minimal witness for the same
// (algorithm, kind) — delete edges, restrict to one connected component,
// simplify weights towards 1 — and name the features the witness still has.
// Different root causes end in different witnesses, hence different signatures.
// ---------------------------------------------------------------------------

thread_local! {
    static FAIL_CACHE: std::cell::RefCell<std::collections::HashMap<(G, u8, &'static str, &'static str), bool>> = std::cell::RefCell::new(std::collections::HashMap::new());
}

fn still_fails(g: &G, fam: u8, alg: &'static str, kind: &'static str) -> bool {
    if !families_of(g).contains(&fam) {
        return false;
    }
    let key = (g.clone(), fam, alg, kind);
    if let Some(v) = FAIL_CACHE.with(|c| c.borrow().get(&key).copied()) {
        return v;
    }
    let v = run_families(g, &[fam]).raws.iter().any(|r| r.alg == alg && r.kind == kind);
    FAIL_CACHE.with(|c| {
        let mut c = c.borrow_mut();
        if c.len() > 200_000 {
            c.clear();
        }
        c.insert(key, v);
    });
    v
}

fn t_components(g: &G) -> Vec<G> {
    let m = model(g);
    if m.ncomp < 2 {
        return vec![];
    }
    let mut out = vec![];
    for comp in 0..m.ncomp {
        let nodes: Vec<usize> = (0..m.n).filter(|&v| m.wcomp[v] == comp).collect();
        let relabel = |v: u8| nodes.iter().position(|&x| x == v as usize).map(|p| p as u8);
        let mut h = G { n: nodes.len() as u8, edges: vec![], ints: g.ints, mincost: g.mincost };
        for e in &g.edges {
            if let (Some(u), Some(v)) = (relabel(e.0), relabel(e.1)) {
                h.edges.push((u, v, e.2, e.3));
            }
        }
        out.push(h);
    }
    out
}

/// simplicity rank of a weight code: 1 < 2 < 0 < missing < -1
fn rank(w: u8) -> usize {
    match w {
        W1 => 0,
        W2 => 1,
        W0 => 2,
        WM => 3,
        _ => 4,
    }
}

thread_local! {
    static BIG_REDUCTIONS: std::cell::Cell<u32> = const { std::cell::Cell::new(0) };
}

fn attribute(g: &G, fam: u8, alg: &'static str, kind: &'static str) -> (String, G) {
    if fam == F_BIG {
        // feature is fixed; only the first few witnesses per worker are shrunk (edge deletion), to keep mutant runs fast
        let mut cur = g.clone();
        if BIG_REDUCTIONS.with(|c| { let v = c.get(); c.set(v + 1); v }) < 8 {
            let mut i = 0;
            while i < cur.edges.len() {
                let mut h = cur.clone();
                h.edges.remove(i);
                if still_fails(&h, fam, alg, kind) {
                    cur = h;
                } else {
                    i += 1;
                }
            }
        }
        return ("six-plus-nodes".to_string(), cur);
    }
    let mut cur = g.clone();
    loop {
        let mut changed = false;
        // 1. delete edges
        let mut i = 0;
        while i < cur.edges.len() {
            let mut h = cur.clone();
            h.edges.remove(i);
            if still_fails(&h, fam, alg, kind) {
                cur = h;
                changed = true;
            } else {
                i += 1;
            }
        }
        // 2. restrict to one connected component (drops isolated nodes too)
        if let Some(h) = t_components(&cur).into_iter().find(|h| still_fails(h, fam, alg, kind)) {
            cur = h;
            changed = true;
        }
        // 3. simplify weights (and costs) towards 1
        for i in 0..cur.edges.len() {
            for cand in [W1, W2, W0, WM] {
                if rank(cand) < rank(cur.edges[i].2) {
                    let mut h = cur.clone();
                    h.edges[i].2 = cand;
                    if still_fails(&h, fam, alg, kind) {
                        cur = h;
                        changed = true;
                    }
                }
                if cur.mincost && rank(cand) < rank(cur.edges[i].3) {
                    let mut h = cur.clone();
                    h.edges[i].3 = cand;
                    if still_fails(&h, fam, alg, kind) {
                        cur = h;
                        changed = true;
                    }
                }
            }
        }
        // 4. order-preserving shift away from zero: 0 -> 1, 1 -> 2 (only when no 2 is present)
        for cost_side in [false, true] {
            if cost_side && !cur.mincost {
                continue;
            }
            let get = |e: &(u8, u8, u8, u8)| if cost_side { e.3 } else { e.2 };
            if cur.edges.iter().any(|e| get(e) == W0) && !cur.edges.iter().any(|e| get(e) == W2) {
                let mut h = cur.clone();
                for e in &mut h.edges {
                    let x = if cost_side { &mut e.3 } else { &mut e.2 };
                    *x = match *x {
                        W0 => W1,
                        W1 => W2,
                        o => o,
                    };
                }
                if still_fails(&h, fam, alg, kind) {
                    cur = h;
                    changed = true;
                }
            }
        }
        if !changed {
            break;
        }
    }
    let m = model(&cur);
    let mut f: Vec<&str> = vec![];
    if m.has_selfloop {
        f.push("self-loop");
    }
    if m.has_parallel {
        f.push("parallel");
    }
    if m.has_antiparallel {
        f.push("antiparallel");
    }
    let has = |code: u8| cur.edges.iter().any(|e| e.2 == code || (cur.mincost && e.3 == code));
    if has(W0) {
        f.push("zero-weight");
    }
    if has(WM) {
        f.push("missing-weight");
    }
    if has(WN) {
        f.push("negative");
    }
    if m.ncomp > 1 {
        f.push("disconnected");
    }
    (if f.is_empty() { "generic".to_string() } else { f.join("+") }, cur)
}

/// All violations of one graph, one per (algorithm, kind), with attributed feature.
fn violations_of(g: &G, out: &Out) -> Vec<Violation> {
    let mut groups: BTreeMap<(&'static str, &'static str), &Raw> = BTreeMap::new();
    for r in &out.raws {
        groups.entry((r.alg, r.kind)).or_insert(r);
    }
    let mut v = vec![];
    for ((alg, kind), r) in groups {
        let (feature, minimal) = attribute(g, r.fam, alg, kind);
        v.push(Violation::new(
            &[("family", FAM_NAMES[r.fam as usize]), ("algorithm", alg), ("kind", kind), ("feature", &feature)],
            json!({"graph": g.to_json(), "params": r.params, "reduced_graph": minimal.to_json()}),
            format!("{} [{}] on graph {{{}}}: {} (reduced witness: {{{}}})", alg, r.params, g.short(), r.detail, minimal.short()),
        ));
    }
    v
}

// ---------------------------------------------------------------------------
// Enumeration
// ---------------------------------------------------------------------------

#[derive(Clone, Copy, PartialEq, Debug)]
enum Alph {
    Base,    // weights {1,2,0,missing}, every algorithm
    NegOnly, // weights {1,2,0,missing,-1} with at least one -1, Bellman-Ford / Floyd-Warshall
    MinCost, // (capacity, cost) in {1,2,0,missing}^2, min_cost_max_flow
    Small,   // weights {1,2} only, every algorithm (structural variety on larger shapes)
    Unit,    // weight 1 only, every algorithm
}

#[derive(Clone, Copy, Debug)]
struct Space {
    n: u8,
    k: usize,
    alph: Alph,
    ints: bool,
}

/// All non-decreasing index sequences of length k over 0..t (multisets).
fn multisets(t: usize, k: usize) -> Vec<Vec<usize>> {
    let mut out = vec![];
    fn rec(t: usize, k: usize, from: usize, cur: &mut Vec<usize>, out: &mut Vec<Vec<usize>>) {
        if cur.len() == k {
            out.push(cur.clone());
            return;
        }
        for x in from..t {
            cur.push(x);
            rec(t, k, x, cur, out);
            cur.pop();
        }
    }
    rec(t, k, 0, &mut vec![], &mut out);
    out
}

fn graphs_of(sp: &Space) -> Vec<G> {
    let n = sp.n as usize;
    let mut types: Vec<(u8, u8, u8, u8)> = vec![];
    for u in 0..n {
        for v in 0..n {
            match sp.alph {
                Alph::Base => {
                    for w in [W1, W2, W0, WM] {
                        types.push((u as u8, v as u8, w, WM));
                    }
                }
                Alph::Unit => types.push((u as u8, v as u8, W1, WM)),
                Alph::Small => {
                    for w in [W1, W2] {
                        types.push((u as u8, v as u8, w, WM));
                    }
                }
                Alph::NegOnly => {
                    for w in [W1, W2, W0, WM, WN] {
                        types.push((u as u8, v as u8, w, WM));
                    }
                }
                Alph::MinCost => {
                    for w in [W1, W2, W0, WM] {
                        for c in [W1, W2, W0, WM] {
                            types.push((u as u8, v as u8, w, c));
                        }
                    }
                }
            }
        }
    }
    let mut out = vec![];
    if types.is_empty() {
        if sp.k == 0 {
            out.push(G { n: sp.n, edges: vec![], ints: sp.ints, mincost: sp.alph == Alph::MinCost });
        }
        return out;
    }
    for ms in multisets(types.len(), sp.k) {
        let edges: Vec<(u8, u8, u8, u8)> = ms.iter().map(|&i| types[i]).collect();
        if sp.alph == Alph::NegOnly && !edges.iter().any(|e| e.2 == WN) {
            continue;
        }
        let g = G { n: sp.n, edges, ints: sp.ints, mincost: sp.alph == Alph::MinCost };
        let mut rev = g.clone();
        rev.edges.reverse();
        let differs = rev != g;
        out.push(g);
        if differs {
            out.push(rev); // second insertion order (adjacency lists are insertion ordered)
        }
    }
    out
}

/// Source-star family on 5 nodes for the shortest-path algorithms: node 0 reaches each of 1..4 directly (edge absent /
/// weight 1 / weight 2) and every subset of the 12 zero-weight edges among 1..4 is added (quick: the subsets whose edges
/// all run with, or all against, the node order; thorough: all 4096, in two insertion orders).  Label-correcting algorithms must keep relaxing while distances still shrink although every node has been
/// reached: chains of cheap edges that run against the edge enumeration order need one round per link, which the
/// <= 4-node spaces cannot express (three links against the order need five nodes).
fn star_graphs(tier: Tier) -> Vec<G> {
    let star_w: Vec<u8> = vec![WM + 100, W1, W2]; // WM+100 = absent; two distinct weights, so that a detour can be cheaper
    let inner: Vec<(u8, u8)> = (1..5u8).flat_map(|u| (1..5u8).filter(move |v| *v != u).map(move |v| (u, v))).collect();
    let mut out = vec![];
    let combos = star_w.len().pow(4);
    for sc in 0..combos {
        let mut star = vec![];
        let mut x = sc;
        for t in 1..5u8 {
            let w = star_w[x % star_w.len()];
            x /= star_w.len();
            if w != WM + 100 {
                star.push((0u8, t, w, WM));
            }
        }
        if star.is_empty() {
            continue;
        }
        for mask in 0u32..(1 << inner.len()) {
            // quick: only masks whose inner edges all run with the node order or all against it (2 x 2^6 - 1 masks)
            if tier == Tier::Quick {
                let up = inner.iter().enumerate().any(|(k, &(u, v))| mask & (1 << k) != 0 && u < v);
                let down = inner.iter().enumerate().any(|(k, &(u, v))| mask & (1 << k) != 0 && u > v);
                if up && down {
                    continue;
                }
            }
            let mut edges = star.clone();
            for (k, &(u, v)) in inner.iter().enumerate() {
                if mask & (1 << k) != 0 {
                    edges.push((u, v, W0, WM));
                }
            }
            let g = G { n: 5, edges, ints: false, mincost: false };
            let mut rev = g.clone();
            rev.edges.reverse();
            out.push(g);
            if tier == Tier::Thorough {
                out.push(rev); // second insertion order
            }
        }
    }
    out
}

fn spaces(tier: Tier) -> Vec<Space> {
    let mut v = vec![];
    let mut add = |n: u8, ks: std::ops::RangeInclusive<usize>, alph: Alph, ints: bool| {
        for k in ks {
            v.push(Space { n, k, alph, ints });
        }
    };
    // quick: everything on <= 3 nodes with <= 3 edges
    add(0, 0..=0, Alph::Base, false);
    for n in 1..=3u8 {
        add(n, 0..=3, Alph::Base, false);
        add(n, 1..=3, Alph::NegOnly, false);
    }
    add(2, 0..=2, Alph::MinCost, false);
    add(3, 0..=2, Alph::MinCost, false);
    if tier == Tier::Quick {
        add(4, 4..=4, Alph::Unit, false); // diamonds, 4-cycles, cycle-with-tail: shapes 3 nodes cannot express
    }
    if tier == Tier::Thorough {
        add(3, 4..=4, Alph::Base, false);
        add(3, 4..=4, Alph::NegOnly, false);
        add(4, 0..=3, Alph::Base, false);
        add(4, 1..=3, Alph::NegOnly, false);
        add(3, 3..=3, Alph::MinCost, false);
        add(4, 4..=4, Alph::Small, false);
        // the same weights stored as Int64 properties
        for n in 1..=3u8 {
            add(n, 1..=3, Alph::Base, true);
            add(n, 1..=3, Alph::NegOnly, true);
        }
        add(3, 1..=2, Alph::MinCost, true);
    }
    v
}

// ---------------------------------------------------------------------------
// Driver
// ---------------------------------------------------------------------------

const BLOCK: usize = 128;
const CAP_PER_SIG: u64 = 25;

struct Shard {
    evals: u64,
    graphs: u64,
    nontrivial: Vec<u64>,
    tol: BTreeMap<&'static str, u64>,
    viols: Vec<Violation>,
    sample: Option<J>,
}

fn run_block(block: &[G], want_sample: bool) -> Shard {
    let mut sh = Shard { evals: 0, graphs: 0, nontrivial: vec![], tol: BTreeMap::new(), viols: vec![], sample: None };
    for (i, g) in block.iter().enumerate() {
        let out = run_families(g, &families_of(g));
        sh.evals += out.evals;
        sh.graphs += 1;
        if !g.edges.is_empty() {
            sh.nontrivial.push(vcore::hash_of(g));
        }
        for (k, v) in &out.tol {
            *sh.tol.entry(k).or_default() += v;
        }
        if !out.raws.is_empty() {
            sh.viols.extend(violations_of(g, &out));
        }
        if want_sample && i == block.len() / 2 {
            let m = model(g);
            let kinds: std::collections::BTreeSet<String> = out.raws.iter().map(|r| format!("{}:{}", r.alg, r.kind)).collect();
            sh.sample = Some(json!({
                "graph": g.short(),
                "real_calls_checked": out.evals,
                "oracle": {"weak_components": m.ncomp, "cyclic": m.cyclic, "min_weight_from_0": m.wm.sp.first(), "hops_from_0": m.hop.first(), "negative_cycle_reachable_from": (0..m.n).filter(|&s| m.neg_from[s]).collect::<Vec<_>>()},
                "violating_checks": kinds,
            }));
        }
    }
    sh
}

fn run(args: vcore::Args) -> i32 {
    start_watchdog(300);
    if let Some(p) = args.replay.as_deref() {
        let case = vcore::read_replay_case(p);
        let g = G::from_json(&case["graph"]);
        // the real code iterates hash sets in per-instance random order, so a case is run
        // several times and the union of reproduced signatures is reported
        let mut seen = std::collections::BTreeSet::new();
        let mut v1 = vec![];
        for _ in 0..5 {
            for v in violations_of(&g, &run_families(&g, &families_of(&g))) {
                if seen.insert(v.sig_string()) {
                    v1.push(v);
                }
            }
        }
        return vcheck::replay_report("C19", v1);
    }
    let tier = args.tier;
    let mut rep = Report::new("C19", tier, "exploration");
    rep.max_samples = 12;
    rep.rule = "ENUM: every labelled directed multigraph (self-loops, parallel and antiparallel edges, isolated nodes) of the listed (nodes, edges) shapes x every weight assignment from {1,2,0,missing} (plus -1 for Bellman-Ford/Floyd-Warshall; (capacity,cost) pairs for min-cost flow), each in two insertion orders, plus the source-star family on 5 nodes for the shortest-path algorithms (0 -> i absent or weighted, every subset of the 12 zero-weight edges among 1..4, two insertion orders), plus every labelled simple undirected graph on 6 (thorough: and 7) nodes with pairwise distinct weights in three insertion/orientation variants for the union-find / component algorithms, x every source/target/start choice and parameter variant; each real call is compared with a brute-force oracle (exhaustive simple-path, cycle, edge-subset, cut and integral-flow enumeration). evaluations = calls into the real code whose result was checked; a case is distinct by (graph, insertion order, property type) and non-trivial when it has at least one edge".into();
    let sps = spaces(tier);
    let mut space_rows = vec![];
    let mut sig_counts: BTreeMap<String, u64> = BTreeMap::new();
    let mut tol: BTreeMap<&'static str, u64> = BTreeMap::new();
    let mut total_graphs = 0u64;
    for sp in &sps {
        let graphs = graphs_of(sp);
        let blocks: Vec<&[G]> = graphs.chunks(BLOCK).collect();
        let shards = vcore::par_map(&blocks, vcore::cores(), |i, blk| run_block(blk, i % 53 == 1 || blocks.len() < 3));
        let mut evals = 0;
        let mut per_space_samples = 0;
        for sh in shards {
            evals += sh.evals;
            rep.evaluations += sh.evals;
            total_graphs += sh.graphs;
            for h in sh.nontrivial {
                rep.nontrivial_hash(h);
            }
            for (k, v) in sh.tol {
                *tol.entry(k).or_default() += v;
            }
            if let Some(s) = sh.sample {
                if sp.k >= 2 && sp.n >= 3 && per_space_samples < 2 {
                    per_space_samples += 1;
                    rep.sample(s);
                }
            }
            for v in sh.viols {
                let n = sig_counts.entry(v.sig_string()).or_default();
                *n += 1;
                if *n <= CAP_PER_SIG {
                    rep.violation(v);
                }
            }
        }
        space_rows.push(json!({"nodes": sp.n, "edges": sp.k, "alphabet": format!("{:?}", sp.alph), "int64_properties": sp.ints, "graphs_incl_insertion_orders": graphs.len(), "real_calls_checked": evals}));
    }
    // source-star family (shortest paths on 5 nodes)
    {
        let graphs = star_graphs(tier);
        let blocks: Vec<&[G]> = graphs.chunks(BLOCK).collect();
        let shards = vcore::par_map(&blocks, vcore::cores(), |i, blk| run_block(blk, i % 257 == 1));
        let mut evals = 0;
        let mut samples = 0;
        for sh in shards {
            evals += sh.evals;
            rep.evaluations += sh.evals;
            total_graphs += sh.graphs;
            for h in sh.nontrivial {
                rep.nontrivial_hash(h);
            }
            for (k, v) in sh.tol {
                *tol.entry(k).or_default() += v;
            }
            if let Some(s) = sh.sample {
                if samples < 1 {
                    samples += 1;
                    rep.max_samples += 1;
                    rep.sample(s);
                }
            }
            for v in sh.viols {
                let n = sig_counts.entry(v.sig_string()).or_default();
                *n += 1;
                if *n <= CAP_PER_SIG {
                    rep.violation(v);
                }
            }
        }
        space_rows.push(json!({"nodes": 5, "edges": "1..=16", "alphabet": "source-star: 0->i absent / 1 / 2, subsets of the 12 zero-weight edges among 1..4 (quick: all-ascending or all-descending subsets; thorough: every subset, two insertion orders)", "int64_properties": false, "graphs_incl_insertion_orders": graphs.len(), "real_calls_checked": evals}));
    }
    // large simple graphs for the union-find / component algorithms (family union_find_large)
    let big_ns: Vec<usize> = if tier == Tier::Thorough { vec![6, 7] } else { vec![6] };
    rep.max_samples += 2 * big_ns.len();
    for &n in &big_ns {
        let np = n * (n - 1) / 2;
        let total_masks: u32 = 1 << np;
        let step: u32 = 512;
        let ranges: Vec<(u32, u32)> = (0..total_masks).step_by(step as usize).map(|a| (a, (a + step).min(total_masks))).collect();
        let shards = vcore::par_map(&ranges, vcore::cores(), |bi, &(a, b)| {
            let mut sh = Shard { evals: 0, graphs: 0, nontrivial: vec![], tol: BTreeMap::new(), viols: vec![], sample: None };
            for mask in a..b {
                for variant in 0..fams_d::BIG_VARIANTS {
                    if mask == 0 && variant > 0 {
                        continue;
                    }
                    let g = fams_d::big_graph(n, mask, variant);
                    let out = run_families(&g, &[F_BIG]);
                    sh.evals += out.evals;
                    sh.graphs += 1;
                    if mask != 0 {
                        sh.nontrivial.push(vcore::hash_of(&(n, mask, variant)));
                    }
                    if !out.raws.is_empty() {
                        sh.viols.extend(violations_of(&g, &out));
                    }
                    if bi % 1000 == 7 && mask == a + 300 && variant == 1 {
                        sh.sample = Some(json!({"graph": g.short(), "real_calls_checked": out.evals, "violating_checks": out.raws.iter().map(|r| format!("{}:{}", r.alg, r.kind)).collect::<Vec<_>>()}));
                    }
                }
            }
            sh
        });
        let mut evals = 0;
        let mut graphs = 0;
        for sh in shards {
            evals += sh.evals;
            graphs += sh.graphs;
            rep.evaluations += sh.evals;
            total_graphs += sh.graphs;
            for h in sh.nontrivial {
                rep.nontrivial_hash(h);
            }
            if let Some(s) = sh.sample {
                rep.sample(s);
            }
            for v in sh.viols {
                let c = sig_counts.entry(v.sig_string()).or_default();
                *c += 1;
                if *c <= CAP_PER_SIG {
                    rep.violation(v);
                }
            }
        }
        space_rows.push(json!({"nodes": n, "edges": format!("every subset of the {np} node pairs (simple undirected graphs)"), "alphabet": "distinct weights; 3 variants: ascending i->j / every second edge reversed / descending with reversed weights", "family": "union_find_large", "algorithms": if n <= 6 { "connected_components(+count), strongly_connected_components(+count), kruskal, articulation_points, bridges" } else { "connected_components(+count), strongly_connected_components(+count), kruskal" }, "graphs_incl_insertion_orders": graphs, "real_calls_checked": evals}));
    }
    if rep.samples.is_empty() {
        rep.sample(json!({"graph": "n=0", "note": "only trivial spaces"}));
    }
    rep.set("bounds", json!({
        "tier": tier.as_str(),
        "spaces": space_rows,
        "graphs_total": total_graphs,
        "weights": ["1", "2", "0", "missing", "-1 (Bellman-Ford / Floyd-Warshall only)"],
        "insertion_orders_per_multiset": 2,
        "violations_stored_per_signature_cap": CAP_PER_SIG,
    }));
    rep.set("violating_graphs_per_signature", json!(sig_counts));
    rep.set("tolerated_underdetermined", json!(tol.iter().map(|(k, v)| (k.to_string(), json!(v))).collect::<serde_json::Map<String, J>>()));
    rep.assumptions = vec![
        "a missing weight/capacity property means 1.0, a missing cost 0.0 (documented defaults)".into(),
        "MST, components, clustering, k-core, bridges, articulation points are judged on the undirected view, as their docs say".into(),
        "signature field `feature` = features still present in the 1-minimal witness obtained by greedy reduction (edge deletion, component restriction, weight simplification towards 1) preserving the same (algorithm, kind); 'generic' = plain simple connected graph with unit weights".into(),
    ];
    rep.finish()
}

fn main() {
    std::process::exit(run(vcheck::entry()));
}
