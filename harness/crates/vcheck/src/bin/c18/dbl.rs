//! Database layer: GrafeoDB::create_vector_index / vector_search /
//! batch_vector_search against the same oracle as the index level, agreement
//! with the index object the store holds, and currency after delete_node /
//! set_node_property.

use crate::refs::{self, Sink, check_val, feature, feature_set, metric_from, truth, vjson, vsjson};
use grafeo_common::types::{NodeId, Value as GValue};
use grafeo_engine::GrafeoDB;
use serde_json::{Value, json};
use std::collections::BTreeMap;
use vcore::Violation;

fn kv(fields: &[(&str, &str)], case: &Value, detail: String) -> Violation {
    Violation::new(fields, case.clone(), detail)
}

/// `mutation`: "none" | "delete:<i>" | "update:<i>:<alphabet index>" | "create:<alphabet index>"
pub fn eval_db(vectors: &[Vec<f32>], metric: &str, m: Option<usize>, mutation: &str, alpha: &[Vec<f32>], batch_all: bool, sink: &mut Sink) -> (u64, bool, BTreeMap<String, u64>) {
    let case = json!({"engine": "ENUM/db", "vectors": vsjson(vectors), "metric": metric, "m": m, "mutation": mutation, "alphabet": vsjson(alpha)});
    let n = vectors.len();
    let mut stats = BTreeMap::new();
    let dm = metric_from(metric);
    let phase = mutation.split(':').next().unwrap_or("none").to_string();
    let r = vcore::catch(|| {
        let mut local = Sink::default();
        let mut evals = 0u64;
        let db = GrafeoDB::new_in_memory();
        let mut ids: Vec<NodeId> = vec![];
        // a node of another label and a node without the property must never show up
        let other = db.create_node_with_props(&["Other"], [("emb", GValue::Vector(vectors[0].clone().into()))]);
        let bare = db.create_node(&["Doc"]);
        for v in vectors {
            ids.push(db.create_node_with_props(&["Doc"], [("emb", GValue::Vector(v.clone().into()))]));
        }
        if let Err(e) = db.create_vector_index("Doc", "emb", if m.is_some() { Some(vectors[0].len()) } else { None }, Some(metric), m, None) {
            local.push(kv(&[("layer", "database"), ("kind", "create-index-error"), ("metric", metric)], &case, format!("create_vector_index failed: {e}")), n);
            return (local, evals, 0u64);
        }
        // reference: node id -> current vector
        let mut cur: BTreeMap<u64, Vec<f32>> = ids.iter().zip(vectors).map(|(i, v)| (i.as_u64(), v.clone())).collect();
        let mut late = 0u64;
        let parts: Vec<&str> = mutation.split(':').collect();
        match parts[0] {
            "delete" => {
                let i: usize = parts[1].parse().unwrap_or(0);
                if db.delete_node(ids[i]) {
                    cur.remove(&ids[i].as_u64());
                }
            }
            "update" => {
                let i: usize = parts[1].parse().unwrap_or(0);
                let a: usize = parts[2].parse().unwrap_or(0);
                db.set_node_property(ids[i], "emb", GValue::Vector(alpha[a].clone().into()));
                cur.insert(ids[i].as_u64(), alpha[a].clone());
            }
            "create" => {
                let a: usize = parts[1].parse().unwrap_or(0);
                let id = db.create_node_with_props(&["Doc"], [("emb", GValue::Vector(alpha[a].clone().into()))]);
                late = id.as_u64();
                // not added to `cur`: the statement speaks about what the index holds; counted, not judged
            }
            _ => {}
        }
        let index = db.store().get_vector_index("Doc", "emb");
        let size = cur.len();
        let mut ks = vec![0usize, 1, 2, size, size + 1];
        ks.sort();
        ks.dedup();
        let queries: Vec<Vec<f32>> = alpha.to_vec();
        let mut found_late = 0u64;
        for &k in &ks {
            for ef in [None, Some(0usize), Some(1), Some(size + 1)] {
                let mut one = vec![];
                for q in &queries {
                    evals += 1;
                    let res = match db.vector_search("Doc", "emb", q, k, ef) {
                        Ok(r) => r,
                        Err(e) => {
                            local.push(kv(&[("layer", "database"), ("kind", "search-error"), ("metric", metric), ("phase", &phase)], &case, format!("vector_search failed: {e}")), n);
                            one.push(vec![]);
                            continue;
                        }
                    };
                    let all: Vec<&[f32]> = cur.values().map(|v| v.as_slice()).chain([q.as_slice()]).collect();
                    let fset = feature_set(&all);
                    let ctx = format!("vector_search(q={q:?}, k={k}, ef={ef:?}, {metric}) after {mutation} = {:?}; live :Doc(emb) nodes {:?}", res.iter().map(|(i, d)| (i.as_u64(), *d)).collect::<Vec<_>>(), cur);
                    if res.len() > k {
                        local.push(kv(&[("layer", "database"), ("kind", "too-many"), ("metric", metric), ("feature", fset), ("phase", &phase)], &case, ctx.clone()), n);
                    }
                    let mut seen = std::collections::BTreeSet::new();
                    if res.iter().any(|(i, _)| !seen.insert(i.as_u64())) {
                        local.push(kv(&[("layer", "database"), ("kind", "duplicate-id"), ("metric", metric), ("feature", fset), ("phase", &phase)], &case, ctx.clone()), n);
                    }
                    for (id, d) in &res {
                        if late != 0 && id.as_u64() == late {
                            found_late += 1;
                            continue;
                        }
                        if id.as_u64() == other.as_u64() || id.as_u64() == bare.as_u64() {
                            local.push(kv(&[("layer", "database"), ("kind", "foreign-node-returned"), ("metric", metric), ("feature", fset), ("phase", &phase)], &case, ctx.clone()), n);
                            continue;
                        }
                        match cur.get(&id.as_u64()) {
                            None => local.push(kv(&[("layer", "database"), ("kind", "removed-id-returned"), ("metric", "-"), ("feature", "after-delete_node"), ("phase", &phase)], &case, format!("{ctx}: node {} was deleted", id.as_u64())), n),
                            Some(v) => {
                                let t = truth(dm, q, v);
                                if t.defined {
                                    if let Err(class) = check_val(*d, &t) {
                                        if phase == "update" && id.as_u64() == ids[parts[1].parse::<usize>().unwrap_or(0)].as_u64() {
                                            local.push(kv(&[("layer", "database"), ("kind", "stale-distance"), ("metric", "-"), ("feature", "after-set_node_property"), ("phase", &phase)], &case, format!("{ctx}: node {} now holds {v:?}, true distance {}", id.as_u64(), t.val)), n);
                                        } else {
                                            local.push(kv(&[("layer", "database"), ("kind", "wrong-distance"), ("metric", metric), ("feature", feature(q, v)), ("class", class)], &case, format!("{ctx}: node {} holds {v:?}, true distance {}", id.as_u64(), t.val)), n);
                                        }
                                    }
                                }
                            }
                        }
                    }
                    let rank = |x: f32| if x.is_nan() { f64::INFINITY } else { x as f64 };
                    if res.windows(2).any(|w| rank(w[0].1) > rank(w[1].1)) {
                        local.push(kv(&[("layer", "database"), ("kind", "unsorted"), ("metric", metric), ("feature", fset), ("phase", &phase)], &case, ctx.clone()), n);
                    }
                    if phase == "none" && size >= 1 && k >= 1 && res.is_empty() {
                        local.push(kv(&[("layer", "database"), ("kind", "empty-result"), ("metric", metric), ("feature", fset), ("phase", &phase)], &case, ctx.clone()), n);
                    }
                    // agreement with the index object held by the store
                    if let Some(ix) = &index {
                        let direct = match ef {
                            Some(e) => ix.search_with_ef(q, k, e),
                            None => ix.search(q, k),
                        };
                        if direct.len() != res.len() || direct.iter().zip(&res).any(|(a, b)| a.0 != b.0 || a.1.to_bits() != b.1.to_bits()) {
                            local.push(kv(&[("layer", "database"), ("kind", "index-level-mismatch"), ("metric", metric), ("feature", fset), ("phase", &phase)], &case, format!("{ctx}; the index itself answers {direct:?}")), n);
                        }
                    }
                    one.push(res);
                }
                // (rayon hand-offs dominate the cost: the batch entry point is compared on k = size+1 with every ef, and on k = 1 with the default ef)
                if !(k == size + 1 || (k == 1 && ef.is_none())) {
                    continue;
                }
                if !batch_all && !(k == size + 1 && matches!(ef, None | Some(1))) {
                    continue; // quick tier: two batch calls per script
                }
                match db.batch_vector_search("Doc", "emb", &queries, k, ef) {
                    Ok(b) => {
                        if b.len() != one.len() || b.iter().zip(&one).any(|(x, y)| x.len() != y.len() || x.iter().zip(y).any(|(p, q)| p.0 != q.0 || p.1.to_bits() != q.1.to_bits())) {
                            local.push(kv(&[("layer", "database"), ("kind", "batch-mismatch"), ("metric", metric), ("phase", &phase)], &case, format!("batch_vector_search(k={k}, ef={ef:?}) = {b:?}, one-by-one {one:?}")), n);
                        }
                    }
                    Err(e) => local.push(kv(&[("layer", "database"), ("kind", "search-error"), ("metric", metric), ("phase", &phase)], &case, format!("batch_vector_search failed: {e}")), n),
                }
            }
        }
        if index.is_none() {
            local.push(kv(&[("layer", "database"), ("kind", "no-index-object"), ("metric", metric)], &case, "store().get_vector_index returned None after create_vector_index".into()), n);
        }
        (local, evals, if late != 0 && found_late == 0 { 1 } else { 0 })
    });
    match r {
        Ok((local, evals, late_missing)) => {
            sink.merge(local);
            stats.insert("db.nodes_created_after_index_never_returned".to_string(), late_missing);
            (evals, n >= 2, stats)
        }
        Err(msg) => {
            sink.push(kv(&[("layer", "database"), ("kind", "panic"), ("metric", metric), ("phase", &phase)], &case, format!("panicked: {msg}")), n);
            (1, false, stats)
        }
    }
}

pub fn replay(case: &Value) -> Vec<Violation> {
    let mut sink = Sink::default();
    let vectors = refs::vsfrom(&case["vectors"]);
    let alpha = refs::vsfrom(&case["alphabet"]);
    eval_db(&vectors, case["metric"].as_str().unwrap_or("cosine"), case["m"].as_u64().map(|x| x as usize), case["mutation"].as_str().unwrap_or("none"), &alpha, true, &mut sink);
    let _ = vjson;
    sink.map.into_values().map(|x| x.1).collect()
}
