//! Part 1 — engine SEQ on the real `HnswIndex` / `QuantizedHnswIndex`.
//!
//! State = event history (the proximity graph is private, so two histories are
//! never merged: the key is the full history).  Every state is built twice
//! (std `HashMap` order decides the new entry point in `remove`) and both
//! builds are judged.  Search-result violations do not invalidate the
//! reference map, so they go to a side channel and exploration continues
//! below them; accessor mismatches go through `out` and stop the branch.

use crate::refs::{self, METRICS, Sink, Truth, check_val, feature, feature_set, mname, truth};
use grafeo_common::types::NodeId;
use grafeo_core::index::vector::{DistanceMetric, HnswConfig, HnswIndex, QuantizationType, QuantizedHnswIndex};
use serde_json::{Value, json};
use std::collections::{BTreeMap, BTreeSet};
use std::sync::Mutex;
use vcore::{SeqModel, Violation, sigv};

#[derive(Clone, Copy, Debug, PartialEq, Eq, Hash)]
pub enum Ev {
    Insert(u8, u8),
    Remove(u8),
}

#[derive(Clone, Copy, Debug, PartialEq, Eq)]
pub enum QMode {
    Plain,
    QNone,
    QScalar,
    QBinary,
    QBinaryNoRescore,
    QProduct,
}
impl QMode {
    pub fn name(self) -> &'static str {
        match self {
            QMode::Plain => "hnsw",
            QMode::QNone => "q-none",
            QMode::QScalar => "q-scalar",
            QMode::QBinary => "q-binary",
            QMode::QBinaryNoRescore => "q-binary-norescore",
            QMode::QProduct => "q-product",
        }
    }
    pub fn from(s: &str) -> QMode {
        match s {
            "q-none" => QMode::QNone,
            "q-scalar" => QMode::QScalar,
            "q-binary" => QMode::QBinary,
            "q-binary-norescore" => QMode::QBinaryNoRescore,
            "q-product" => QMode::QProduct,
            _ => QMode::Plain,
        }
    }
}

pub enum Ix {
    H(HnswIndex),
    Q(QuantizedHnswIndex),
}
impl Ix {
    fn insert(&self, id: NodeId, v: &[f32]) {
        match self {
            Ix::H(i) => i.insert(id, v),
            Ix::Q(i) => i.insert(id, v),
        }
    }
    fn remove(&self, id: NodeId) -> bool {
        match self {
            Ix::H(i) => i.remove(id),
            Ix::Q(i) => i.remove(id),
        }
    }
    fn len(&self) -> usize {
        match self {
            Ix::H(i) => i.len(),
            Ix::Q(i) => i.len(),
        }
    }
    fn is_empty(&self) -> bool {
        match self {
            Ix::H(i) => i.is_empty(),
            Ix::Q(i) => i.is_empty(),
        }
    }
    fn contains(&self, id: NodeId) -> bool {
        match self {
            Ix::H(i) => i.contains(id),
            Ix::Q(i) => i.contains(id),
        }
    }
    fn get(&self, id: NodeId) -> Option<std::sync::Arc<[f32]>> {
        match self {
            Ix::H(i) => i.get(id),
            Ix::Q(i) => i.get(id),
        }
    }
    fn search(&self, q: &[f32], k: usize) -> Vec<(NodeId, f32)> {
        match self {
            Ix::H(i) => i.search(q, k),
            Ix::Q(i) => i.search(q, k),
        }
    }
    fn search_with_ef(&self, q: &[f32], k: usize, ef: usize) -> Vec<(NodeId, f32)> {
        match self {
            Ix::H(i) => i.search_with_ef(q, k, ef),
            Ix::Q(i) => i.search_with_ef(q, k, ef),
        }
    }
    fn batch_search(&self, qs: &[Vec<f32>], k: usize) -> Vec<Vec<(NodeId, f32)>> {
        match self {
            Ix::H(i) => i.batch_search(qs, k),
            Ix::Q(i) => i.batch_search(qs, k),
        }
    }
}

pub type VKey = [&'static str; 6]; // kind, metric, feature, hist, param, class

#[derive(Default)]
pub struct VLocal(pub BTreeMap<VKey, (u64, String)>);
impl VLocal {
    fn add(&mut self, k: VKey, detail: impl FnOnce() -> String) {
        match self.0.get_mut(&k) {
            Some(e) => e.0 += 1,
            None => {
                self.0.insert(k, (1, detail()));
            }
        }
    }
}

pub struct VEntry {
    pub count: u64,
    pub hist: Vec<String>,
    pub detail: String,
}

pub struct Model {
    pub seed: u64,
    pub m: usize,
    pub dim: usize,
    pub nids: u8,
    pub alpha: Vec<Vec<f32>>,
    pub mode: QMode,
    /// number of pre-inserted vectors (ids 100.., alphabet cycled) before the explored history
    pub prefill: u8,
    /// compare the batch entry points on every n-th state only (1 = every state)
    pub batch_every: usize,
    pub sink: Mutex<BTreeMap<VKey, VEntry>>,
    pub stats: Mutex<BTreeMap<String, u64>>,
    pub witness: Mutex<BTreeMap<String, (usize, String)>>,
    pub witness_len: Mutex<BTreeMap<String, usize>>,
}

pub struct Sys {
    twins: Vec<Ix>, // rescoring quantised modes only: an unquantised index per metric, same configuration, seed and history (same graph until the first remove)
    builds: [Vec<Ix>; 2], // per build: one index per metric; build 1 is created at the first remove (before it both builds are replicas: no hash-order dependence)
    evs: Vec<Ev>,
    refmap: BTreeMap<u8, u8>,
    used: u8,
    hist: Vec<String>,
    had_remove: bool,
    had_reinsert: bool,
}

pub fn alphabet(dim: usize, reduced: bool) -> Vec<Vec<f32>> {
    let h = 1e30f32;
    let full: Vec<Vec<f32>> = match dim {
        1 => vec![vec![0.0], vec![1.0], vec![-1.0], vec![h], vec![-h]],
        2 => vec![vec![0.0, 0.0], vec![1.0, 0.0], vec![0.0, 1.0], vec![-h, h], vec![1e-20, 1e-20]],
        _ => vec![vec![0.0, 0.0, 0.0], vec![1.0, 0.0, 0.0], vec![0.0, 1.0, 0.0], vec![h, 0.0, 1.0], vec![-1.0, -h, 0.0]],
    };
    if reduced { full[..3].to_vec() } else { full }
}

impl Model {
    pub fn new(seed: u64, m: usize, dim: usize, nids: u8, reduced: bool, mode: QMode, prefill: u8) -> Model {
        Model { seed, m, dim, nids, alpha: alphabet(dim, reduced), mode, prefill, batch_every: 1, sink: Mutex::new(BTreeMap::new()), stats: Mutex::new(BTreeMap::new()), witness: Mutex::new(BTreeMap::new()), witness_len: Mutex::new(BTreeMap::new()) }
    }
    pub fn from_config(c: &Value) -> Model {
        let mut m = Model::new(
            c["seed"].as_u64().unwrap_or(0),
            c["m"].as_u64().unwrap_or(16) as usize,
            c["dim"].as_u64().unwrap_or(2) as usize,
            c["nids"].as_u64().unwrap_or(4) as u8,
            false,
            QMode::from(c["mode"].as_str().unwrap_or("hnsw")),
            c["prefill"].as_u64().unwrap_or(0) as u8,
        );
        let a = refs::vsfrom(&c["alphabet"]);
        if !a.is_empty() {
            m.alpha = a;
        }
        m
    }
    fn mk(&self, metric: DistanceMetric) -> Ix {
        let cfg = HnswConfig::new(self.dim, metric).with_m(self.m);
        match self.mode {
            QMode::Plain => Ix::H(HnswIndex::with_seed(cfg, self.seed)),
            QMode::QNone => Ix::Q(QuantizedHnswIndex::with_seed(cfg, QuantizationType::None, self.seed)),
            QMode::QScalar => Ix::Q(QuantizedHnswIndex::with_seed(cfg, QuantizationType::Scalar, self.seed).with_training_threshold(10)),
            QMode::QBinary => Ix::Q(QuantizedHnswIndex::with_seed(cfg, QuantizationType::Binary, self.seed)),
            QMode::QBinaryNoRescore => Ix::Q(QuantizedHnswIndex::with_seed(cfg, QuantizationType::Binary, self.seed).without_rescore()),
            QMode::QProduct => Ix::Q(QuantizedHnswIndex::with_seed(cfg, QuantizationType::Product { num_subvectors: 1 }, self.seed).with_training_threshold(10)),
        }
    }
    fn vec_of(&self, key: u8, vi: u8) -> &[f32] {
        let _ = key;
        &self.alpha[vi as usize % self.alpha.len()]
    }
    fn bump(local: &mut BTreeMap<String, u64>, k: &str, n: u64) {
        *local.entry(k.to_string()).or_insert(0) += n;
    }

    fn vkey(&self, kind: &'static str, metric: DistanceMetric, feat: &'static str, sys: &Sys, param: &'static str, class: &'static str) -> VKey {
        let hist = if sys.had_remove {
            "after-remove"
        } else if sys.had_reinsert {
            "after-reinsert"
        } else {
            "insert-only"
        };
        // a wrong distance is a property of the (metric, value class) pair alone: history and k/ef say nothing about its cause
        if kind == "wrong-distance" || kind == "wrong-approx-distance" { [kind, mname(metric), feat, "-", "-", class] } else { [kind, mname(metric), feat, hist, param, class] }
    }
    pub fn sig_of(&self, k: &VKey) -> Vec<(String, String)> {
        // distances come from two code paths only: the index's own (normalise + dot) and the rescoring one (compute_distance)
        let index = if k[0] == "wrong-distance" && self.mode != QMode::Plain && self.mode != QMode::QNone { "quantized-rescore" } else if k[0] == "wrong-distance" { "hnsw" } else { self.mode.name() };
        let mut s = sigv(&[("layer", "hnsw"), ("index", index), ("kind", k[0]), ("metric", k[1]), ("feature", k[2]), ("hist", k[3]), ("param", k[4])]);
        if !k[5].is_empty() {
            s.push(("class".into(), k[5].into()));
        }
        s
    }
    /// Drain the side channel into a `Sink` (one Violation per signature, smallest history).
    pub fn drain(&self, sink: &mut Sink) {
        let m = std::mem::take(&mut *self.sink.lock().unwrap());
        for (k, e) in m {
            let sig = self.sig_of(&k);
            let fields: Vec<(&str, &str)> = sig.iter().map(|(a, b)| (a.as_str(), b.as_str())).collect();
            let case = json!({"engine": self.engine_name(), "config": self.config_json(), "history": e.hist});
            let v = Violation::new(&fields, case, e.detail);
            let key = v.sig_string();
            let cs = v.case.to_string();
            let ord = (e.hist.len() * 100_000 + cs.len(), cs);
            sink.map.insert(key, (e.count, v, ord));
        }
    }

    /// Judge one search result.  Returns a digest of the observation.
    #[allow(clippy::too_many_arguments)]
    fn judge(
        &self,
        sys: &Sys,
        metric: DistanceMetric,
        q: &[f32],
        k: usize,
        ef: Option<usize>,
        res: &[(NodeId, f32)],
        api: &str,
        viols: &mut VLocal,
        local: &mut BTreeMap<String, u64>,
    ) {
        let size = sys.refmap.len();
        let param = if k == 0 {
            "k0"
        } else if ef == Some(0) {
            "ef0"
        } else if k > size {
            "k>size"
        } else {
            "other"
        };
        let stored: Vec<&[f32]> = sys.refmap.iter().map(|(id, vi)| self.vec_of(*id, *vi)).collect();
        let mut all = stored.clone();
        all.push(q);
        let fset = feature_set(&all);
        let ctx = |extra: &str| format!("{api}(q={q:?}, k={k}, ef={ef:?}) on {} = {:?}; index holds {:?}. {extra}", mname(metric), res.iter().map(|(i, d)| (i.as_u64(), *d)).collect::<Vec<_>>(), sys.refmap.iter().map(|(i, vi)| (*i, self.vec_of(*i, *vi).to_vec())).collect::<Vec<_>>());
        if res.len() > k {
            viols.add(self.vkey("too-many", metric, fset, sys, param, ""), || ctx("more than k results"));
        }
        let mut seen = BTreeSet::new();
        for (id, _) in res {
            if !seen.insert(id.as_u64()) {
                viols.add(self.vkey("duplicate-id", metric, fset, sys, param, ""), || ctx("an id is returned twice"));
                break;
            }
        }
        for (id, d) in res {
            let key = id.as_u64();
            let present = key < 256 && sys.refmap.contains_key(&(key as u8));
            if !present {
                viols.add(self.vkey("removed-id-returned", metric, fset, sys, param, ""), || ctx(&format!("id {key} is not in the index")));
                continue;
            }
            let v = self.vec_of(key as u8, sys.refmap[&(key as u8)]);
            if self.mode == QMode::QBinaryNoRescore && Self::binary_active(sys) {
                // documented approximate score: sqrt(2 * hamming / dim)
                let h: u32 = (0..q.len()).filter(|i| (q[*i] >= 0.0) != (v[*i] >= 0.0)).count() as u32;
                let want = (2.0 * h as f32 / q.len() as f32).sqrt();
                if (want - *d).abs() > 1e-6 {
                    viols.add(self.vkey("wrong-approx-distance", metric, feature(q, v), sys, param, ""), || ctx(&format!("id {key}: hamming-based score should be {want}")));
                }
                continue;
            }
            let t: Truth = truth(metric, q, v);
            if !t.defined {
                Self::bump(local, "cosine_with_zero_vector_undetermined", 1);
                continue;
            }
            if let Err(class) = check_val(*d, &t) {
                viols.add(self.vkey("wrong-distance", metric, feature(q, v), sys, param, class), || ctx(&format!("id {key} (vector {v:?}): true distance {} (tolerance {:e}), returned {d}", t.val, t.tol)));
            }
        }
        // non-decreasing (NaN ranks last, as the index's own OrderedFloat order does)
        let rank = |x: f32| if x.is_nan() { f64::INFINITY } else { x as f64 };
        if res.windows(2).any(|w| rank(w[0].1) > rank(w[1].1)) {
            viols.add(self.vkey("unsorted", metric, fset, sys, param, ""), || ctx("distances decrease"));
        }
        // a non-empty index always answers k >= 1 with at least its entry point
        if size >= 1 && k >= 1 && res.is_empty() {
            viols.add(self.vkey("empty-result", metric, fset, sys, param, ""), || ctx("no result although the index is not empty"));
        }
        // completeness of the layer-0 graph is NOT guaranteed by the code (diversity heuristic,
        // re-insert resets links) -> short results are counted, not flagged
        let want = k.min(size);
        if res.len() < want && ef.map_or(true, |e| e >= size) {
            let cls = if sys.had_remove {
                "after-remove"
            } else if sys.had_reinsert {
                "after-reinsert"
            } else {
                "insert-only"
            };
            Self::bump(local, &format!("short_results.{cls}"), 1);
            // remember the smallest witness (cheap test first; the lock is taken only on improvement)
            let key = format!("short_result.{cls}");
            let best = self.witness_len.lock().unwrap().get(&key).copied().unwrap_or(usize::MAX);
            if sys.hist.len() < best {
                let h = sys.hist.join(" ; ");
                let cand = (sys.hist.len(), format!("seed={} m={} dim={} {} {} :: {h} :: {api} k={k} ef={ef:?} q={q:?} returned {} of {}", self.seed, self.m, self.dim, self.mode.name(), mname(metric), res.len(), want));
                let mut w = self.witness.lock().unwrap();
                match w.get(&key) {
                    Some(old) if *old <= cand => {}
                    _ => {
                        self.witness_len.lock().unwrap().insert(key.clone(), cand.0);
                        w.insert(key, cand);
                    }
                }
            }
        }
    }

    fn binary_active(sys: &Sys) -> bool {
        !sys.refmap.is_empty()
    }

    fn observe(&self, sys: &Sys, out: &mut Vec<(Vec<(String, String)>, String)>) {
        let mut viols = VLocal::default();
        let mut local: BTreeMap<String, u64> = BTreeMap::new();
        let size = sys.refmap.len();
        let mut ks = vec![0usize, 1, 2, size, size + 1];
        ks.sort();
        ks.dedup();
        let mut efs = vec![0usize, 1, size + 1];
        efs.dedup();
        let queries: Vec<Vec<f32>> = self.alpha.clone();
        let mut digests: [u64; 2] = [0, 0];
        for b in 0..2 {
            if sys.builds[b].is_empty() {
                digests[b] = digests[0];
                continue;
            }
            let mut dig: Vec<(u64, u32)> = vec![];
            for (mi, metric) in METRICS.iter().enumerate() {
                let ix = &sys.builds[b][mi];
                // accessors against the reference map
                let acc = |kind: &str, detail: String, out: &mut Vec<(Vec<(String, String)>, String)>| {
                    out.push((sigv(&[("layer", "hnsw"), ("index", self.mode.name()), ("kind", kind), ("metric", mname(*metric))]), detail));
                };
                if ix.len() != size {
                    acc("len", format!("len() = {}, reference holds {size}", ix.len()), out);
                }
                if ix.is_empty() != (size == 0) {
                    acc("is_empty", format!("is_empty() = {}", ix.is_empty()), out);
                }
                for id in (0..self.nids).chain(100..100 + self.prefill).chain([250u8]) {
                    let c = ix.contains(NodeId::new(id as u64));
                    if c != sys.refmap.contains_key(&id) {
                        acc("contains", format!("contains({id}) = {c}"), out);
                    }
                    let g = ix.get(NodeId::new(id as u64));
                    match (g, sys.refmap.get(&id)) {
                        (None, None) => {}
                        (Some(g), Some(vi)) => {
                            let v = self.vec_of(id, *vi);
                            if *metric != DistanceMetric::Cosine {
                                if &*g != v {
                                    acc("get", format!("get({id}) = {g:?}, inserted {v:?}"), out);
                                }
                            } else {
                                // documented: normalised before storage; judge only where normalisation is well defined in f32
                                let n2: f64 = v.iter().map(|x| (*x as f64) * (*x as f64)).sum();
                                let n = n2.sqrt();
                                if n > 1e-3 && n < 1e15 && (0..v.len()).any(|i| ((g[i] as f64) - (v[i] as f64) / n).abs() > 1e-5) {
                                    acc("get-not-normalised", format!("get({id}) = {g:?}, inserted {v:?}"), out);
                                }
                            }
                        }
                        (g, r) => acc("get", format!("get({id}) = {g:?}, reference {r:?}"), out),
                    }
                }
                if let Ix::H(h) = ix {
                    let mut ids: Vec<u64> = h.iter().map(|(i, _)| i.as_u64()).collect();
                    ids.sort();
                    let want: Vec<u64> = sys.refmap.keys().map(|i| *i as u64).collect();
                    if ids != want {
                        acc("iter", format!("iter() ids = {ids:?}, reference {want:?}"), out);
                    }
                }
                // searches
                for q in &queries {
                    for &k in &ks {
                        let r = ix.search(q, k);
                        Self::bump(&mut local, "searches", 1);
                        self.judge(sys, *metric, q, k, None, &r, "search", &mut viols, &mut local);
                        // quantisation with rescoring ranks the candidates of the same graph: it may reorder them, it cannot lose
                        // one (the twin is the same graph until a remove makes the two instances hash-order dependent)
                        if b == 0 && !sys.had_remove {
                            if let Some(tw) = sys.twins.get(mi) {
                                let rt = tw.search(q, k);
                                Self::bump(&mut local, "twin_searches", 1);
                                if r.len() < rt.len() {
                                    let all: Vec<&[f32]> = sys.refmap.iter().map(|(id, vi)| self.vec_of(*id, *vi)).collect();
                                    let param = if k > size { "k>size" } else { "other" };
                                    viols.add(self.vkey("fewer-than-unquantised", *metric, feature_set(&all), sys, param, ""), || format!("search(q={q:?}, k={k}) on {} returned {} results {:?}; the unquantised index over the same graph returns {} {:?}", mname(*metric), r.len(), r.iter().map(|(i, _)| i.as_u64()).collect::<Vec<_>>(), rt.len(), rt.iter().map(|(i, _)| i.as_u64()).collect::<Vec<_>>()));
                                }
                            }
                        }
                        for (i, d) in &r {
                            dig.push((i.as_u64(), d.to_bits()));
                        }
                        dig.push((u64::MAX, k as u32));
                        for &ef in &efs {
                            let r = ix.search_with_ef(q, k, ef);
                            Self::bump(&mut local, "searches", 1);
                            self.judge(sys, *metric, q, k, Some(ef), &r, "search_with_ef", &mut viols, &mut local);
                            for (i, d) in &r {
                                dig.push((i.as_u64(), d.to_bits()));
                            }
                            dig.push((u64::MAX - 1, ef as u32));
                        }
                    }
                }
                // batch == one-by-one (same instance, deterministic search): exact equality
                // The batch entry points are stateless wrappers (`par_iter().map(search)`), and a rayon hand-off costs
                // more than all other observations of a state together: one metric per state (rotating with the
                // history), the plain form always, one of the three variants rotating with the reference content.
                let rot = (vcore::hash_of(&sys.hist) >> 8) as usize; // deterministic selector derived from the history
                if b == 0 && mi == rot % METRICS.len() && (rot / METRICS.len()) % self.batch_every == 0 {
                    let eq = |x: &Vec<Vec<(NodeId, f32)>>, y: &Vec<Vec<(NodeId, f32)>>| x.len() == y.len() && x.iter().zip(y).all(|(a, b)| a.len() == b.len() && a.iter().zip(b).all(|(p, q)| p.0 == q.0 && p.1.to_bits() == q.1.to_bits()));
                    let all: Vec<&[f32]> = sys.refmap.iter().map(|(id, vi)| self.vec_of(*id, *vi)).collect();
                    let k = size + 1;
                    let one: Vec<Vec<(NodeId, f32)>> = queries.iter().map(|q| ix.search(q, k)).collect();
                    let bat = ix.batch_search(&queries, k);
                    Self::bump(&mut local, "batch_calls", 2);
                    if !eq(&bat, &one) {
                        viols.add(self.vkey("batch-mismatch", *metric, feature_set(&all), sys, "k>size", ""), || format!("batch_search(k={k}) = {bat:?} but one-by-one = {one:?}"));
                    }
                    match (ix, (rot / (METRICS.len() * 16)) % 3) {
                        (Ix::H(h), 0) => {
                            let sl: Vec<&[f32]> = queries.iter().map(|q| q.as_slice()).collect();
                            let b2 = h.batch_search_slices(&sl, k);
                            if !eq(&b2, &one) {
                                viols.add(self.vkey("batch-mismatch", *metric, feature_set(&all), sys, "slices", ""), || format!("batch_search_slices(k={k}) = {b2:?} but one-by-one = {one:?}"));
                            }
                        }
                        (Ix::H(h), 1) => {
                            let b3 = h.batch_search_with_ef(&queries, k, 1);
                            let one3: Vec<Vec<(NodeId, f32)>> = queries.iter().map(|q| h.search_with_ef(q, k, 1)).collect();
                            if !eq(&b3, &one3) {
                                viols.add(self.vkey("batch-mismatch", *metric, feature_set(&all), sys, "with-ef", ""), || format!("batch_search_with_ef(k={k}, ef=1) = {b3:?} but one-by-one = {one3:?}"));
                            }
                        }
                        _ => {
                            let one1: Vec<Vec<(NodeId, f32)>> = queries.iter().map(|q| ix.search(q, 1)).collect();
                            let b1 = ix.batch_search(&queries, 1);
                            if !eq(&b1, &one1) {
                                viols.add(self.vkey("batch-mismatch", *metric, feature_set(&all), sys, "other", ""), || format!("batch_search(k=1) = {b1:?} but one-by-one = {one1:?}"));
                            }
                        }
                    }
                }
            }
            digests[b] = vcore::hash_of(&dig);
        }
        if digests[0] != digests[1] {
            Self::bump(&mut local, "states_where_two_builds_answer_differently", 1);
        }
        Self::bump(&mut local, "observed_states", 1);
        {
            let mut st = self.stats.lock().unwrap();
            for (k, n) in local {
                *st.entry(k).or_insert(0) += n;
            }
        }
        if !viols.0.is_empty() {
            let mut sink = self.sink.lock().unwrap();
            for (k, (n, detail)) in viols.0 {
                match sink.get_mut(&k) {
                    Some(e) => {
                        e.count += n;
                        if (sys.hist.len(), &sys.hist) < (e.hist.len(), &e.hist) {
                            e.hist = sys.hist.clone();
                            e.detail = detail;
                        }
                    }
                    None => {
                        sink.insert(k, VEntry { count: n, hist: sys.hist.clone(), detail });
                    }
                }
            }
        }
    }

    fn apply_raw(&self, sys: &mut Sys, ev: &Ev, check: bool, out: &mut Vec<(Vec<(String, String)>, String)>) {
        match *ev {
            Ev::Insert(id, vi) => {
                let v = self.vec_of(id, vi).to_vec();
                for b in 0..2 {
                    for ix in &sys.builds[b] {
                        ix.insert(NodeId::new(id as u64), &v);
                    }
                }
                for ix in &sys.twins {
                    ix.insert(NodeId::new(id as u64), &v);
                }
                if sys.refmap.insert(id, vi).is_some() {
                    sys.had_reinsert = true;
                }
                if id < 100 && id >= sys.used {
                    sys.used = id + 1;
                }
            }
            Ev::Remove(id) => {
                if sys.builds[1].is_empty() {
                    // second, independent build of the same history: from here on hash order matters
                    let b1: Vec<Ix> = METRICS.iter().map(|m| self.mk(*m)).collect();
                    for e in &sys.evs {
                        if let Ev::Insert(i, vi) = *e {
                            let v = self.vec_of(i, vi).to_vec();
                            for ix in &b1 {
                                ix.insert(NodeId::new(i as u64), &v);
                            }
                        }
                    }
                    sys.builds[1] = b1;
                }
                let want = sys.refmap.remove(&id).is_some();
                for ix in &sys.twins {
                    ix.remove(NodeId::new(id as u64));
                }
                for b in 0..2 {
                    for (mi, ix) in sys.builds[b].iter().enumerate() {
                        let r = ix.remove(NodeId::new(id as u64));
                        if check && r != want {
                            out.push((sigv(&[("layer", "hnsw"), ("index", self.mode.name()), ("kind", "remove-return"), ("metric", mname(METRICS[mi]))]), format!("remove({id}) returned {r}, expected {want}")));
                        }
                    }
                }
                sys.had_remove = true;
            }
        }
        sys.hist.push(self.ev_str(ev));
        sys.evs.push(*ev);
    }
}

impl SeqModel for Model {
    type Ev = Ev;
    type Sys = Sys;
    fn init(&self) -> Sys {
        let mk = || METRICS.iter().map(|m| self.mk(*m)).collect::<Vec<_>>();
        let twins = if matches!(self.mode, QMode::QScalar | QMode::QBinary | QMode::QProduct) { METRICS.iter().map(|m| Ix::Q(QuantizedHnswIndex::with_seed(HnswConfig::new(self.dim, *m).with_m(self.m), QuantizationType::None, self.seed))).collect() } else { vec![] };
        let mut sys = Sys { twins, builds: [mk(), vec![]], evs: vec![], refmap: BTreeMap::new(), used: 0, hist: vec![], had_remove: false, had_reinsert: false };
        let mut sink = vec![];
        for i in 0..self.prefill {
            self.apply_raw(&mut sys, &Ev::Insert(100 + i, i % self.alpha.len() as u8), false, &mut sink);
        }
        sys.had_reinsert = false;
        sys
    }
    fn enabled(&self, sys: &Sys, _h: &[Ev]) -> Vec<Ev> {
        // ids are introduced in increasing order (the index treats ids symmetrically);
        // every used id can be (re-)inserted with every vector, every present id removed
        let mut v = vec![];
        let top = (sys.used + 1).min(self.nids);
        for id in 0..top {
            for vi in 0..self.alpha.len() as u8 {
                v.push(Ev::Insert(id, vi));
            }
        }
        for id in sys.refmap.keys() {
            if *id < 100 || *id == 100 {
                v.push(Ev::Remove(*id));
            }
        }
        v
    }
    fn apply(&self, sys: &mut Sys, ev: &Ev, check: bool, out: &mut Vec<(Vec<(String, String)>, String)>) {
        let mut panicked = None;
        {
            let r = vcore::catch(|| self.apply_raw(sys, ev, check, out));
            if let Err(msg) = r {
                panicked = Some(msg);
            }
        }
        if let Some(msg) = panicked {
            out.push((sigv(&[("layer", "hnsw"), ("index", self.mode.name()), ("kind", "panic"), ("op", "mutate")]), format!("{} panicked: {msg}", self.ev_str(ev))));
            return;
        }
        if check {
            let mut o2 = vec![];
            if let Err(msg) = vcore::catch(|| self.observe(sys, &mut o2)) {
                out.push((sigv(&[("layer", "hnsw"), ("index", self.mode.name()), ("kind", "panic"), ("op", "search")]), format!("search/accessor panicked: {msg}")));
            }
            out.extend(o2);
            // remove of an absent id is a no-op returning false
            for b in 0..2 {
                for ix in &sys.builds[b] {
                    if ix.remove(NodeId::new(251)) {
                        out.push((sigv(&[("layer", "hnsw"), ("index", self.mode.name()), ("kind", "remove-return")]), "remove(absent id) returned true".into()));
                    }
                }
            }
        }
    }
    fn key(&self, sys: &Sys) -> String {
        // full history (no merging) qualified by the configuration, so that evidence counts states per configuration
        format!("{}/{}/{}/{}/{}/{}|{}", self.seed, self.m, self.dim, self.mode.name(), self.prefill, self.alpha.len(), sys.hist.join(";"))
    }
    fn ev_str(&self, ev: &Ev) -> String {
        match *ev {
            Ev::Insert(i, v) => format!("insert({i},{v})"),
            Ev::Remove(i) => format!("remove({i})"),
        }
    }
    fn engine_name(&self) -> String {
        "SEQ/hnsw".into()
    }
    fn config_json(&self) -> Value {
        json!({"seed": self.seed, "m": self.m, "dim": self.dim, "nids": self.nids, "mode": self.mode.name(), "prefill": self.prefill, "alphabet": refs::vsjson(&self.alpha)})
    }
    fn nontrivial(&self, sys: &Sys) -> bool {
        !sys.refmap.is_empty()
    }
}

pub fn parse_ev(s: &str) -> Option<Ev> {
    let (name, rest) = s.split_once('(')?;
    let args: Vec<u8> = rest.trim_end_matches(')').split(',').filter_map(|x| x.trim().parse().ok()).collect();
    Some(match name {
        "insert" => Ev::Insert(*args.first()?, *args.get(1)?),
        "remove" => Ev::Remove(*args.first()?),
        _ => return None,
    })
}

/// Replay one recorded history; because `remove` of the entry point takes a
/// hash-order dependent branch, repeat until a violation shows (max `tries`).
pub fn replay(case: &Value, tries: usize) -> Vec<Violation> {
    let m = Model::from_config(&case["config"]);
    let full: Vec<String> = case["history"].as_array().map(|a| a.iter().filter_map(|s| s.as_str().map(|x| x.to_string())).collect()).unwrap_or_default();
    // the recorded history includes the prefill events; skip them (init() replays them)
    let hist: Vec<Ev> = full.iter().skip(m.prefill as usize).filter_map(|s| parse_ev(s)).collect();
    for t in 0..tries {
        let (_, mut v) = vcore::seq_replay(&m, &hist, true);
        let mut sink = Sink::default();
        m.drain(&mut sink);
        for (_, (_, viol, _)) in sink.map {
            v.push(viol);
        }
        if !v.is_empty() {
            if t > 0 {
                println!("REPLAY: reproduced on attempt {} of at most {tries} (remove() picks the new entry point in std-HashMap order, so a history with a remove need not show the violation on every build)", t + 1);
            }
            return v;
        }
    }
    vec![]
}
