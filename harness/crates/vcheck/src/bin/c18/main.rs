//! C18 — vector search returns real, correctly scored, correctly ordered
//! neighbours (DESIGN.md §3/C18): engine SEQ on HnswIndex / QuantizedHnswIndex,
//! engine ENUM on kernels, exact search, zone map, quantisers and GrafeoDB.
mod dbl;
mod kern;
mod quant;
mod refs;
mod seqm;
mod stor;

use refs::Sink;
use serde_json::{Value, json};
use std::collections::BTreeMap;
use vcore::{Report, Tier};

fn main() {
    // batch_search goes through rayon's global pool; idle rayon workers spin, so keep that pool small
    // (the exploration itself is parallelised by vcore::par_map, not by rayon)
    if std::env::var_os("RAYON_NUM_THREADS").is_none() {
        // SAFETY: single-threaded at this point
        unsafe { std::env::set_var("RAYON_NUM_THREADS", "4") };
    }
    std::process::exit(run(vcheck::entry()));
}

fn quant_probes(dim: usize) -> Vec<Vec<f32>> {
    let mut p = refs::all_vectors(&kern::ALPHA, dim);
    p.push(vec![0.5; dim]);
    p.push(vec![-2.0; dim]);
    p
}

/// multisets (non-decreasing index sequences) of size 1..=max over `n` items
fn multisets(n: usize, max: usize) -> Vec<Vec<usize>> {
    let mut out = vec![];
    for len in 1..=max {
        for s in vcore::sequences(n, len) {
            if s.windows(2).all(|w| w[0] <= w[1]) {
                out.push(s);
            }
        }
    }
    out
}
fn sequences_upto(n: usize, min: usize, max: usize) -> Vec<Vec<usize>> {
    (min..=max).flat_map(|l| vcore::sequences(n, l)).collect()
}

/// Run an ENUM family in parallel; `f` evaluates one item into a sink and returns (evaluations, nontrivial).
fn run_family<I: Sync + std::hash::Hash>(name: &str, items: &[I], rep: &mut Report, sink: &mut Sink, sizes: &mut serde_json::Map<String, Value>, f: impl Fn(&I, &mut Sink) -> (u64, bool) + Sync) {
    let chunk = (items.len() / (vcore::cores() * 8)).max(1);
    let chunks: Vec<&[I]> = items.chunks(chunk).collect();
    let res = vcore::par_map(&chunks, vcore::cores(), |_, c| {
        let mut s = Sink::default();
        let mut ev = 0u64;
        let mut nt = vec![];
        for it in c.iter() {
            let (e, n) = f(it, &mut s);
            ev += e;
            if n {
                nt.push(vcore::hash_of(&(name, it)));
            }
        }
        (s, ev, nt)
    });
    let mut evals = 0;
    for (s, ev, nt) in res {
        sink.merge(s);
        evals += ev;
        for h in nt {
            rep.nontrivial_hash(h);
        }
    }
    rep.evaluations += evals;
    sizes.insert(name.to_string(), json!({"cases": items.len(), "evaluations": evals}));
}

#[derive(Hash)]
struct VPair(Vec<u32>, Vec<u32>);
fn bits(v: &[f32]) -> Vec<u32> {
    v.iter().map(|x| x.to_bits()).collect()
}
fn unbits(v: &[u32]) -> Vec<f32> {
    v.iter().map(|x| f32::from_bits(*x)).collect()
}

fn run(args: vcore::Args) -> i32 {
    let tier = args.tier;
    if let Some(p) = args.replay.as_deref() {
        let case = vcore::read_replay_case(p);
        let eng = case["engine"].as_str().unwrap_or("").to_string();
        let v = match eng.as_str() {
            "SEQ/hnsw" => seqm::replay(&case, 200),
            "ENUM/kernel" | "ENUM/exact" | "ENUM/zonemap" => kern::replay(&case),
            "ENUM/scalar" | "ENUM/binary" | "ENUM/product" => quant::replay(&case, quant_probes),
            "ENUM/db" => dbl::replay(&case),
            "ENUM/storage" => stor::replay(&case),
            _ => vcore::machinery_failure("unknown engine in replay case"),
        };
        return vcheck::replay_report("C18", v);
    }
    let mut rep = Report::new("C18", tier, "model_checking");
    rep.max_samples = 6; // histories first; raised below for the ENUM families
    rep.rule = "SEQ: every history (no merging: the key is the full history, the graph is private) of insert/re-insert/remove over ids 0..3 (introduced in order) and a 5-vector alphabet, on one real index per metric, each state built twice; after every transition every alphabet query x k in {0,1,2,size,size+1} x ef in {default,0,1,size+1} is judged (<=k, distinct, present, true distance, sorted, non-empty, batch = one-by-one, accessors = reference map); a state is non-trivial when the index is non-empty. ENUM: explicit finite products of vectors over {0,+-1,1e-20,1e20(,1e-3)} through every public kernel / exact search / zone map / quantiser / GrafeoDB entry point; a case is non-trivial when the expected distance is non-zero (kernels), the answer is a strict subset (exact), a quantisation step is non-zero, or the database holds >= 2 vectors".into();
    let mut sink = Sink::default();
    let mut sizes = serde_json::Map::new();

    // ---------------------------------------------------------------- Part 1: SEQ
    struct Cfg {
        seed: u64,
        m: usize,
        dim: usize,
        nids: u8,
        reduced: bool,
        mode: seqm::QMode,
        prefill: u8,
        depth: usize,
    }
    let mut cfgs: Vec<Cfg> = vec![];
    let d_all = tier.pick(4, 5);
    for seed in [0u64, 1, 2] {
        for m in [2usize, 16] {
            for dim in [1usize, 2, 3] {
                // quick: depth 4 on (seed 0, dim 2), depth 3 on the other seed/dim configurations
                let depth = if tier == Tier::Quick && !(seed == 0 && dim == 2) { 3 } else { d_all };
                cfgs.push(Cfg { seed, m, dim, nids: 4, reduced: false, mode: seqm::QMode::Plain, prefill: 0, depth });
            }
        }
    }
    match tier {
        Tier::Quick => {}
        Tier::Thorough => {
            for m in [2usize, 16] {
                cfgs.push(Cfg { seed: 0, m, dim: 2, nids: 3, reduced: false, mode: seqm::QMode::Plain, prefill: 0, depth: 6 });
            }
            for seed in [0u64, 1, 2] {
                cfgs.push(Cfg { seed, m: 2, dim: 2, nids: 3, reduced: true, mode: seqm::QMode::Plain, prefill: 0, depth: 7 });
            }
        }
    }
    for (mode, quick_prefill) in [(seqm::QMode::QNone, 0u8), (seqm::QMode::QScalar, 10), (seqm::QMode::QBinary, 0), (seqm::QMode::QBinaryNoRescore, 10), (seqm::QMode::QProduct, 10)] {
        for prefill in [0u8, 10] {
            // quick: one start per mode (trained quantiser for the modes that train)
            if tier == Tier::Quick && prefill != quick_prefill {
                continue;
            }
            cfgs.push(Cfg { seed: 0, m: 16, dim: 2, nids: 3, reduced: false, mode, prefill, depth: tier.pick(3, 4) });
        }
    }
    let only = std::env::var("C18_ONLY").unwrap_or_default();
    let want = |part: &str| only.is_empty() || only.split(',').any(|x| x == part);
    if !want("seq") {
        cfgs.clear();
    }
    if let Ok(n) = std::env::var("C18_SEQ_LIMIT") {
        cfgs.truncate(n.parse().unwrap_or(1));
    }
    let mut layers = vec![];
    let mut stats_all: BTreeMap<String, u64> = BTreeMap::new();
    let mut witness_all: BTreeMap<String, (usize, String)> = BTreeMap::new();
    for c in &cfgs {
        let mut model = seqm::Model::new(c.seed, c.m, c.dim, c.nids, c.reduced, c.mode, c.prefill);
        // a rayon hand-off per state dominates the system time: quick compares the batch entry points on every 16th state
        model.batch_every = tier.pick(16, 1);
        let before = (rep.states, rep.transitions);
        let t0 = rep.elapsed_s();
        let st = vcore::seq_bfs(&model, c.depth, 200_000_000, &mut rep);
        layers.push(json!({"seed": c.seed, "m": c.m, "dim": c.dim, "ids": c.nids, "alphabet": model.alpha.len(), "index": c.mode.name(), "prefill": c.prefill, "depth": c.depth, "depth_completed": st.depth_completed, "states": rep.states - before.0, "transitions": rep.transitions - before.1, "wall_s": ((rep.elapsed_s() - t0) * 10.0).round() / 10.0}));
        {
            let mut s2 = Sink::default();
            model.drain(&mut s2);
            sink.merge(s2);
        }
        for (k, n) in std::mem::take(&mut *model.stats.lock().unwrap()) {
            *stats_all.entry(k).or_insert(0) += n;
        }
        for (k, w) in std::mem::take(&mut *model.witness.lock().unwrap()) {
            match witness_all.get(&k) {
                Some(old) if *old <= w => {}
                _ => {
                    witness_all.insert(k, w);
                }
            }
        }
    }
    rep.traces_validated = rep.transitions;
    rep.max_samples = 12;
    rep.set("hnsw_layers", json!(layers));
    rep.set("hnsw_counters", json!(stats_all));
    rep.set("hnsw_short_result_witnesses", json!(witness_all.iter().map(|(k, v)| (k.clone(), v.1.clone())).collect::<BTreeMap<_, _>>()));
    rep.assumptions.push("k results are demanded only in the sound form 'non-empty index and k>=1 => non-empty answer': the layer-0 adjacency is private and the code does not keep it complete (diversity heuristic skips covered candidates, re-insert resets the node's links, remove only unlinks); answers shorter than min(k,size) with ef>=size are counted in hnsw_counters.short_results.* with a smallest witness, not flagged".into());
    rep.assumptions.push("cosine distance to/from a zero vector is not fixed by the definition: any returned value is accepted (counted)".into());
    rep.assumptions.push(format!("simd.rs is a private module: its kernels are reached only through the runtime dispatcher; on this machine that is the '{}' path (the SSE and scalar fallbacks are unreachable without a hook)", grafeo_core::index::vector::simd_support()));

    // ---------------------------------------------------------------- Part 2: ENUM kernels
    if want("kernel") {
        let mut pairs: Vec<VPair> = vec![];
        for dim in 1..=3usize {
            let vs = refs::all_vectors(&kern::ALPHA_SMALL_DIM, dim);
            for a in &vs {
                for b in &vs {
                    pairs.push(VPair(bits(a), bits(b)));
                }
            }
        }
        let n_all = pairs.len();
        for n in (1..=33usize).chain([64, 65]) {
            for (a, b) in kern::families(n) {
                pairs.push(VPair(bits(&a), bits(&b)));
            }
        }
        if tier == Tier::Thorough {
            for n in [66usize, 127, 128, 129, 384] {
                for (a, b) in kern::families(n) {
                    pairs.push(VPair(bits(&a), bits(&b)));
                }
            }
        }
        rep.sample(json!({"kernel_pair": [unbits(&pairs[7].0), unbits(&pairs[7].1)]}));
        run_family("kernel_pairs", &pairs, &mut rep, &mut sink, &mut sizes, |p, s| kern::eval_pair(&unbits(&p.0), &unbits(&p.1), s));
        sizes.insert("kernel_all_pairs_dim_le_3".into(), json!(n_all));
    }
    // exact search
    if want("exact") {
        #[derive(Hash)]
        struct Ex(Vec<Vec<u32>>, Vec<u32>);
        let mut items: Vec<Ex> = vec![];
        let a1 = refs::all_vectors(&kern::ALPHA_SMALL_DIM, 1);
        for s in sequences_upto(a1.len(), 0, 3) {
            for q in &a1 {
                items.push(Ex(s.iter().map(|i| bits(&a1[*i])).collect(), bits(q)));
            }
        }
        let mut a2 = seqm::alphabet(2, false);
        a2.push(vec![1e-20, 1.0]);
        a2.push(vec![1.0, 1.0]);
        for s in sequences_upto(a2.len(), 1, tier.pick(3, 4)) {
            for q in &a2 {
                items.push(Ex(s.iter().map(|i| bits(&a2[*i])).collect(), bits(q)));
            }
        }
        // long inputs (sort paths beyond insertion sort), NaN-producing values included
        for n in [21usize, 33, 64, 100] {
            for rot in 0..6 {
                let vs: Vec<Vec<u32>> = (0..n).map(|i| bits(&a1[(i * 5 + rot + i / 7) % a1.len()])).collect();
                for q in &a1 {
                    items.push(Ex(vs.clone(), bits(q)));
                }
                let vs2: Vec<Vec<u32>> = (0..n).map(|i| bits(&a2[(i * 3 + rot + i / 5) % a2.len()])).collect();
                for q in &a2 {
                    items.push(Ex(vs2.clone(), bits(q)));
                }
            }
        }
        run_family("exact_search", &items, &mut rep, &mut sink, &mut sizes, |e, s| kern::eval_exact(&e.0.iter().map(|v| unbits(v)).collect::<Vec<_>>(), &unbits(&e.1), s));
    }
    // zone map
    if want("zone") {
        #[derive(Hash)]
        struct Z(Vec<Vec<u32>>, Vec<u32>);
        let mut items = vec![];
        let z1: Vec<Vec<f32>> = [0.0f32, 1.0, -1.0, 1e-20, 1e20, 0.125].iter().map(|x| vec![*x]).collect();
        let z2: Vec<Vec<f32>> = vec![vec![0.0, 0.0], vec![1.0, 0.0], vec![0.0, 1.0], vec![-1.0, 0.0], vec![0.125, 0.0], vec![0.0, 0.125], vec![1e-20, 0.0], vec![1e20, 0.0], vec![1e20, 1e20]];
        for z in [&z1, &z2] {
            for s in multisets(z.len(), 3) {
                for q in z.iter() {
                    items.push(Z(s.iter().map(|i| bits(&z[*i])).collect(), bits(q)));
                }
            }
        }
        run_family("zone_map", &items, &mut rep, &mut sink, &mut sizes, |e, s| kern::eval_zone(&e.0.iter().map(|v| unbits(v)).collect::<Vec<_>>(), &unbits(&e.1), s));
    }
    // ---------------------------------------------------------------- Part 2: quantisers
    if want("scalar") {
        #[derive(Hash)]
        struct T(Vec<Vec<u32>>);
        let mut items = vec![];
        for (dim, max) in [(1usize, 3usize), (2, tier.pick(2, 3)), (3, tier.pick(0, 2))] {
            let a = refs::all_vectors(&kern::ALPHA, dim);
            for s in multisets(a.len(), max) {
                items.push(T(s.iter().map(|i| bits(&a[*i])).collect()));
            }
        }
        rep.sample(json!({"scalar_training_set": items[40.min(items.len() - 1)].0.iter().map(|v| unbits(v)).collect::<Vec<_>>()}));
        run_family("scalar_quantizer_training_sets", &items, &mut rep, &mut sink, &mut sizes, |t, s| {
            let tr: Vec<Vec<f32>> = t.0.iter().map(|v| unbits(v)).collect();
            quant::eval_scalar(&tr, &quant_probes(tr[0].len()), s)
        });
    }
    if want("binary") {
        let signs: [f32; 7] = [0.0, -0.0, 1.0, -1.0, 1e-20, -1e-20, 1e20];
        let mut pairs: Vec<VPair> = vec![];
        for dim in 1..=3 {
            let vs = refs::all_vectors(&signs, dim);
            for a in &vs {
                for b in &vs {
                    pairs.push(VPair(bits(a), bits(b)));
                }
            }
        }
        for n in (4..=33usize).chain([63, 64, 65, 127, 128, 129]) {
            let pos = vec![1.0f32; n];
            let neg = vec![-1.0f32; n];
            let alt: Vec<f32> = (0..n).map(|i| if i % 2 == 0 { 0.5 } else { -0.5 }).collect();
            pairs.push(VPair(bits(&pos), bits(&neg)));
            pairs.push(VPair(bits(&pos), bits(&alt)));
            pairs.push(VPair(bits(&alt), bits(&neg)));
            for p in 0..n {
                let mut a = pos.clone();
                a[p] = -1e-20;
                pairs.push(VPair(bits(&a), bits(&pos)));
                let mut b = neg.clone();
                b[p] = 0.0;
                pairs.push(VPair(bits(&a), bits(&b)));
            }
        }
        run_family("binary_quantizer_pairs", &pairs, &mut rep, &mut sink, &mut sizes, |p, s| quant::eval_binary(&unbits(&p.0), &unbits(&p.1), s));
    }
    if want("product") {
        #[derive(Hash)]
        struct P(Vec<Vec<u32>>, usize, usize, usize);
        let mut items = vec![];
        let a1 = refs::all_vectors(&kern::ALPHA, 1);
        let a2 = refs::all_vectors(&kern::ALPHA, 2);
        let mut a2r = seqm::alphabet(2, false);
        a2r.push(vec![1e-20, 1.0]);
        a2r.push(vec![1.0, 1.0]);
        let mut sets: Vec<(Vec<Vec<f32>>, Vec<usize>)> = vec![];
        for s in sequences_upto(a1.len(), 1, 3) {
            sets.push((s.iter().map(|i| a1[*i].clone()).collect(), vec![1]));
        }
        for s in sequences_upto(a2.len(), 1, tier.pick(1, 2)) {
            sets.push((s.iter().map(|i| a2[*i].clone()).collect(), vec![1, 2]));
        }
        // ordered triples (k-means initialisation depends on the order): dimension 2 over the 7-vector alphabet in the
        // thorough tier, over its first 2 vectors in the quick tier
        let tri = tier.pick(2, a2r.len());
        for s in sequences_upto(tri, 3, 3) {
            sets.push((s.iter().map(|i| a2r[*i].clone()).collect(), vec![1, 2]));
        }
        for (tr, ms) in &sets {
            for m in ms {
                for (k, its) in [(0usize, vec![1usize]), (1, vec![0, 1, 3]), (2, vec![0, 1, 3]), (3, vec![0, 1, 3]), (4, vec![1]), (256, vec![1])] {
                    if tier == Tier::Quick && ((k == 256 && !(tr.len() == 2 && tr[0].len() == 1)) || k == 4) {
                        continue;
                    }
                    for it in its {
                        items.push(P(tr.iter().map(|v| bits(v)).collect(), *m, k, it));
                    }
                }
            }
        }
        run_family("product_quantizer_trainings", &items, &mut rep, &mut sink, &mut sizes, |p, s| {
            let tr: Vec<Vec<f32>> = p.0.iter().map(|v| unbits(v)).collect();
            let dim = tr[0].len();
            quant::eval_product(&tr, p.1, p.2, p.3, &refs::all_vectors(&kern::ALPHA, dim), s)
        });
    }
    // ---------------------------------------------------------------- database layer
    if want("db") {
        #[derive(Hash)]
        struct D(Vec<Vec<u32>>, &'static str, Option<usize>, String);
        let alpha = seqm::alphabet(2, false);
        let mut items = vec![];
        let batch_all = tier == Tier::Thorough;
        for s in sequences_upto(alpha.len(), 1, tier.pick(2, 3)) {
            let vs: Vec<Vec<u32>> = s.iter().map(|i| bits(&alpha[*i])).collect();
            for metric in ["cosine", "euclidean", "dot_product", "manhattan"] {
                for m in [None, Some(2usize)] {
                    if tier == Tier::Quick && m.is_some() != (s.len() == 1) {
                        continue; // quick: explicit m on the single-node scripts, default m on the pairs
                    }
                    let mut muts = vec!["none".to_string(), "create:1".to_string()];
                    for i in 0..s.len() {
                        muts.push(format!("delete:{i}"));
                        muts.push(format!("update:{i}:1"));
                        muts.push(format!("update:{i}:0"));
                    }
                    for mu in muts {
                        items.push(D(vs.clone(), metric, m, mu));
                    }
                }
            }
        }
        let stats = std::sync::Mutex::new(BTreeMap::<String, u64>::new());
        {
            let it = &items[100.min(items.len() - 1)];
            rep.sample(json!({"db_case": {"vectors": it.0.iter().map(|v| unbits(v)).collect::<Vec<_>>(), "metric": it.1, "m": it.2, "mutation": it.3}}));
        }
        run_family("database_scripts", &items, &mut rep, &mut sink, &mut sizes, |d, s| {
            let vs: Vec<Vec<f32>> = d.0.iter().map(|v| unbits(v)).collect();
            let (e, n, st) = dbl::eval_db(&vs, d.1, d.2, &d.3, &alpha, batch_all, s);
            let mut g = stats.lock().unwrap();
            for (k, v) in st {
                *g.entry(k).or_insert(0) += v;
            }
            (e, n)
        });
        rep.set("database_counters", json!(*stats.lock().unwrap()));
    }
    // ---------------------------------------------------------------- vector storage backends
    if want("storage") {
        let dir = vcore::scratch_dir("c18");
        let items: Vec<Vec<usize>> = sequences_upto(stor::NEV, 1, tier.pick(3, 5));
        run_family("storage_sequences", &items, &mut rep, &mut sink, &mut sizes, |q, s| stor::eval_seq(q, &dir, vcore::hash_of(q) as usize, s));
        let _ = std::fs::remove_dir_all(&dir);
    }
    rep.set("enum_families", Value::Object(sizes));
    rep.set("bounds", json!({"hnsw_depth_all_configs": d_all, "ids": 4, "alphabet_per_dim": 5, "seeds": [0, 1, 2], "m": [2, 16], "dims": [1, 2, 3], "kernel_dims": "1..=33,64,65 (+66,127,128,129,384 thorough)", "value_alphabet": [0.0, 1.0, -1.0, 1e-20, 1e20, 1e-3]}));
    let counts = sink.flush(&mut rep);
    rep.set("violation_signature_counts", counts);
    rep.finish()
}
