//! storage.rs (anchored file): RamStorage and MmapStorage as id -> vector maps.
//! Every event sequence up to a small length over insert/re-insert/remove;
//! after every step all accessors are compared with a BTreeMap, and for the
//! file-backed store additionally after clear_cache() and after flush + open().

use crate::refs::Sink;
use grafeo_common::types::NodeId;
use grafeo_core::index::vector::{MmapStorage, RamStorage, VectorStorage};
use serde_json::{Value, json};
use std::collections::BTreeMap;
use vcore::Violation;

const VECS: [[f32; 2]; 2] = [[1.0, 0.0], [0.0, 2.0]];
pub const NEV: usize = 6; // insert(id in 0..2, vec in 0..2) = 4, remove(id) = 2

fn kv(fields: &[(&str, &str)], case: &Value, detail: String) -> Violation {
    Violation::new(fields, case.clone(), detail)
}

fn compare(st: &dyn VectorStorage, model: &BTreeMap<u64, usize>, backend: &str, phase: &str, hist: &str, case: &Value, seq_len: usize, sink: &mut Sink) {
    let mut bad = vec![];
    if st.len() != model.len() || st.is_empty() != model.is_empty() {
        bad.push(format!("len() = {}, expected {}", st.len(), model.len()));
    }
    for id in 0..3u64 {
        let c = st.contains(NodeId::new(id));
        if c != model.contains_key(&id) {
            bad.push(format!("contains({id}) = {c}"));
        }
        let g = st.get(NodeId::new(id));
        let want = model.get(&id).map(|vi| VECS[*vi].to_vec());
        if g.as_ref().map(|x| x.to_vec()) != want {
            bad.push(format!("get({id}) = {g:?}, expected {want:?}"));
        }
    }
    if st.dimensions() != 2 {
        bad.push(format!("dimensions() = {}", st.dimensions()));
    }
    if !bad.is_empty() {
        sink.push(kv(&[("layer", "storage"), ("backend", backend), ("kind", "accessor-mismatch"), ("phase", phase), ("feature", hist)], case, bad.join("; ")), seq_len);
    }
}

pub fn eval_seq(seq: &[usize], dir: &std::path::Path, tag: usize, sink: &mut Sink) -> (u64, bool) {
    let case = json!({"engine": "ENUM/storage", "events": seq});
    let path = dir.join(format!("s{tag}.vec"));
    let r = vcore::catch(|| {
        let mut local = Sink::default();
        let ram = RamStorage::new(2);
        let mm = match MmapStorage::create(&path, 2) {
            Ok(m) => m,
            Err(e) => vcore::machinery_failure(&format!("cannot create scratch file: {e}")),
        };
        let mut model: BTreeMap<u64, usize> = BTreeMap::new();
        let mut reins = false;
        let mut rem = false;
        let mut evals = 0u64;
        for (step, ev) in seq.iter().enumerate() {
            if *ev < 4 {
                let (id, vi) = ((*ev / 2) as u64, *ev % 2);
                let _ = ram.insert(NodeId::new(id), &VECS[vi]);
                if let Err(e) = mm.insert(NodeId::new(id), &VECS[vi]) {
                    local.push(kv(&[("layer", "storage"), ("backend", "mmap"), ("kind", "io-error")], &case, format!("insert: {e}")), seq.len());
                }
                if model.insert(id, vi).is_some() {
                    reins = true;
                }
            } else {
                let id = (*ev - 4) as u64;
                let want = model.remove(&id).is_some();
                let (a, b) = (ram.remove(NodeId::new(id)), mm.remove(NodeId::new(id)));
                if a != want || b != want {
                    local.push(kv(&[("layer", "storage"), ("backend", if a != want { "ram" } else { "mmap" }), ("kind", "remove-return")], &case, format!("remove({id}) returned {a}/{b}, expected {want}")), seq.len());
                }
                rem = true;
            }
            if step + 1 != seq.len() {
                continue; // every prefix is its own enumerated sequence
            }
            let hist = if rem {
                "after-remove"
            } else if reins {
                "after-reinsert"
            } else {
                "insert-only"
            };
            evals += 4;
            compare(&ram, &model, "ram", "live", hist, &case, seq.len(), &mut local);
            let ids: Vec<u64> = {
                let mut v: Vec<u64> = ram.iter().map(|(i, _)| i.as_u64()).collect();
                v.sort();
                v
            };
            if ids != model.keys().copied().collect::<Vec<_>>() {
                local.push(kv(&[("layer", "storage"), ("backend", "ram"), ("kind", "accessor-mismatch"), ("phase", "iter"), ("feature", hist)], &case, format!("iter() ids {ids:?}")), seq.len());
            }
            compare(&mm, &model, "mmap", "live", hist, &case, seq.len(), &mut local);
            mm.clear_cache();
            compare(&mm, &model, "mmap", "after-clear_cache", hist, &case, seq.len(), &mut local);
            if let Err(e) = mm.flush() {
                local.push(kv(&[("layer", "storage"), ("backend", "mmap"), ("kind", "io-error")], &case, format!("flush: {e}")), seq.len());
            }
            match MmapStorage::open(&path) {
                Ok(re) => compare(&re, &model, "mmap", "after-reopen", hist, &case, seq.len(), &mut local),
                Err(e) => local.push(kv(&[("layer", "storage"), ("backend", "mmap"), ("kind", "reopen-error"), ("feature", hist)], &case, format!("open: {e}")), seq.len()),
            }
        }
        (local, evals, !model.is_empty())
    });
    let _ = std::fs::remove_file(&path);
    match r {
        Ok((local, evals, nt)) => {
            sink.merge(local);
            (evals, nt)
        }
        Err(msg) => {
            sink.push(kv(&[("layer", "storage"), ("kind", "panic")], &case, format!("panicked: {msg}")), seq.len());
            (1, false)
        }
    }
}

pub fn replay(case: &Value) -> Vec<Violation> {
    let mut sink = Sink::default();
    let seq: Vec<usize> = case["events"].as_array().map(|a| a.iter().map(|x| x.as_u64().unwrap_or(0) as usize).collect()).unwrap_or_default();
    let dir = vcore::scratch_dir("c18-replay");
    eval_seq(&seq, &dir, 0, &mut sink);
    let _ = std::fs::remove_dir_all(&dir);
    sink.map.into_values().map(|x| x.1).collect()
}
