//! Plain reference definitions of the four metrics, evaluated in f64 on the
//! f32 inputs ("true distance"), together with a sound floating-point
//! tolerance, and the classification of an input pair into a *feature*
//! (zero-vector / huge-magnitude / tiny-magnitude / ...), which goes into
//! violation signatures so that distinct root causes stay distinct.

use grafeo_core::index::vector::DistanceMetric;
use serde_json::{Value, json};

pub const METRICS: [DistanceMetric; 4] = [DistanceMetric::Cosine, DistanceMetric::Euclidean, DistanceMetric::DotProduct, DistanceMetric::Manhattan];

pub fn mname(m: DistanceMetric) -> &'static str {
    m.name()
}

pub fn metric_from(s: &str) -> DistanceMetric {
    DistanceMetric::from_str(s).unwrap_or_else(|| vcore::machinery_failure(&format!("bad metric {s}")))
}

/// The true value of a distance and how far an f32 implementation may be off.
#[derive(Clone, Copy, Debug)]
pub struct Truth {
    pub val: f64,
    pub tol: f64,
    /// false: the definition does not fix a value (cosine with a zero vector)
    pub defined: bool,
}

const DEN: f64 = 1.5e-45; // f32 denormal quantum

pub fn dot64(a: &[f32], b: &[f32]) -> (f64, f64) {
    let mut s = 0.0f64;
    let mut sa = 0.0f64;
    for i in 0..a.len() {
        let t = a[i] as f64 * b[i] as f64;
        s += t;
        sa += t.abs();
    }
    (s, sa)
}

/// Relative tolerance asked for by the property (f32 kernels): 1e-5.
pub const REL: f64 = 1e-5;

pub fn truth(metric: DistanceMetric, a: &[f32], b: &[f32]) -> Truth {
    let n = a.len() as f64;
    match metric {
        DistanceMetric::DotProduct => {
            let (s, sa) = dot64(a, b);
            // forward error of any summation order: gamma_n * sum|a_i b_i| (condition-aware), plus denormal rounding
            Truth { val: -s, tol: REL * sa + n * DEN, defined: true }
        }
        DistanceMetric::Euclidean => {
            let mut s = 0.0f64;
            for i in 0..a.len() {
                let d = a[i] as f64 - b[i] as f64;
                s += d * d;
            }
            let v = s.sqrt();
            let den = if v > 0.0 { n * DEN / (2.0 * v) } else { 0.0 };
            Truth { val: v, tol: REL * v + den.min(v), defined: true }
        }
        DistanceMetric::Manhattan => {
            let mut s = 0.0f64;
            for i in 0..a.len() {
                s += (a[i] as f64 - b[i] as f64).abs();
            }
            Truth { val: s, tol: REL * s + n * DEN, defined: true }
        }
        DistanceMetric::Cosine => {
            let (s, _) = dot64(a, b);
            let (na, _) = dot64(a, a);
            let (nb, _) = dot64(b, b);
            if na == 0.0 || nb == 0.0 {
                return Truth { val: 1.0, tol: 0.0, defined: false };
            }
            let sim = s / (na.sqrt() * nb.sqrt());
            // 1 - sim has scale 1 + |sim| <= 2
            Truth { val: 1.0 - sim, tol: 2.0 * REL, defined: true }
        }
    }
}

pub fn euclid_sq_truth(a: &[f32], b: &[f32]) -> Truth {
    let n = a.len() as f64;
    let mut s = 0.0f64;
    for i in 0..a.len() {
        let d = a[i] as f64 - b[i] as f64;
        s += d * d;
    }
    Truth { val: s, tol: 2.0 * REL * s + n * DEN, defined: true }
}

/// Ok(()) when `got` is an acceptable f32 rendering of the truth; Err(class) otherwise.
pub fn check_val(got: f32, t: &Truth) -> Result<(), &'static str> {
    if !t.defined {
        return Ok(());
    }
    let max = f32::MAX as f64;
    if t.val.is_nan() {
        return Ok(()); // cannot happen for finite inputs; never judge against NaN
    }
    if t.val.abs() > max * (1.0 + REL) {
        // the true value is not representable: the only faithful answer is the infinity of that sign
        return if got.is_infinite() && (got > 0.0) == (t.val > 0.0) { Ok(()) } else { Err("unrepresentable-not-inf") };
    }
    if got.is_nan() {
        return Err("nan-for-finite");
    }
    if got.is_infinite() {
        return if t.val.abs() >= max * (1.0 - REL) && (got > 0.0) == (t.val > 0.0) { Ok(()) } else { Err("inf-for-finite") };
    }
    if (got as f64 - t.val).abs() <= t.tol {
        Ok(())
    } else {
        Err("off")
    }
}

fn is_zero(v: &[f32]) -> bool {
    v.iter().all(|x| *x == 0.0)
}
fn has_huge(v: &[f32]) -> bool {
    v.iter().any(|x| x.abs() >= 1e18)
}
/// non-zero vector all of whose non-zero components are small (|x| <= 1e-2)
fn is_tiny(v: &[f32]) -> bool {
    !is_zero(v) && v.iter().all(|x| *x == 0.0 || x.abs() <= 1e-2)
}

/// Value class of an input pair; the first matching class wins (ordered by how
/// strongly it explains a numeric failure).
pub fn feature(a: &[f32], b: &[f32]) -> &'static str {
    if has_huge(a) || has_huge(b) {
        "huge-magnitude"
    } else if is_tiny(a) || is_tiny(b) {
        "tiny-magnitude"
    } else if is_zero(a) || is_zero(b) {
        "zero-vector"
    } else if a == b {
        "duplicate-vector"
    } else {
        "plain"
    }
}

pub fn feature_set(vs: &[&[f32]]) -> &'static str {
    if vs.iter().any(|v| has_huge(v)) {
        "huge-magnitude"
    } else if vs.iter().any(|v| is_tiny(v)) {
        "tiny-magnitude"
    } else if vs.iter().any(|v| is_zero(v)) {
        "zero-vector"
    } else {
        "plain"
    }
}

pub fn vjson(v: &[f32]) -> Value {
    json!(v.iter().map(|x| *x as f64).collect::<Vec<f64>>())
}
pub fn vsjson(vs: &[Vec<f32>]) -> Value {
    Value::Array(vs.iter().map(|v| vjson(v)).collect())
}
pub fn vfrom(j: &Value) -> Vec<f32> {
    j.as_array().map(|a| a.iter().map(|x| x.as_f64().unwrap_or(0.0) as f32).collect()).unwrap_or_default()
}
pub fn vsfrom(j: &Value) -> Vec<Vec<f32>> {
    j.as_array().map(|a| a.iter().map(vfrom).collect()).unwrap_or_default()
}

/// All vectors of dimension `dim` over `alpha`, lexicographic.
pub fn all_vectors(alpha: &[f32], dim: usize) -> Vec<Vec<f32>> {
    vcore::sequences(alpha.len(), dim).into_iter().map(|s| s.into_iter().map(|i| alpha[i]).collect()).collect()
}

/// Side channel for violations that do not invalidate the reference model:
/// per signature keep the count and the smallest witness.
#[derive(Default)]
pub struct Sink {
    pub map: std::collections::BTreeMap<String, (u64, vcore::Violation, (usize, String))>,
}
impl Sink {
    pub fn push(&mut self, v: vcore::Violation, size: usize) {
        let k = v.sig_string();
        // smallest witness: fewest vectors / shortest history first, then the shortest rendering (= simplest numbers)
        let cs = v.case.to_string();
        let ord = (size * 100_000 + cs.len(), cs);
        match self.map.get_mut(&k) {
            Some(e) => {
                e.0 += 1;
                if ord < e.2 {
                    e.1 = v;
                    e.2 = ord;
                }
            }
            None => {
                self.map.insert(k, (1, v, ord));
            }
        }
    }
    pub fn merge(&mut self, o: Sink) {
        for (k, (n, v, ord)) in o.map {
            match self.map.get_mut(&k) {
                Some(e) => {
                    e.0 += n;
                    if ord < e.2 {
                        e.1 = v;
                        e.2 = ord;
                    }
                }
                None => {
                    self.map.insert(k, (n, v, ord));
                }
            }
        }
    }
    /// Emit into the report: one violation per signature (smallest witness), count in the detail.
    pub fn flush(self, rep: &mut vcore::Report) -> Value {
        let mut counts = serde_json::Map::new();
        for (k, (n, mut v, _)) in self.map {
            counts.insert(k, json!(n));
            v.detail = format!("[{n} cases in this run; smallest shown] {}", v.detail);
            rep.violation(v);
        }
        Value::Object(counts)
    }
}
