//! Part 2a — engine ENUM: distance kernels (through every public entry point
//! that dispatches into simd.rs), exact search (`brute_force_knn*`,
//! `batch_distances`) and the pruning soundness of `VectorZoneMap`.

use crate::refs::{self, METRICS, Sink, check_val, euclid_sq_truth, feature, feature_set, mname, truth, vjson, vsjson};
use grafeo_common::types::NodeId;
use grafeo_core::index::vector::{self as gv, DistanceMetric, VectorZoneMap};
use serde_json::{Value, json};
use vcore::Violation;

pub const ALPHA: [f32; 5] = [0.0, 1.0, -1.0, 1e-20, 1e20];
/// small-dimension alphabet: the four classes of the design plus one *moderately* small value
pub const ALPHA_SMALL_DIM: [f32; 6] = [0.0, 1.0, -1.0, 1e-20, 1e20, 1e-3];

fn kv(fields: &[(&str, &str)], case: Value, detail: String) -> Violation {
    Violation::new(fields, case, detail)
}

/// One pair of vectors through all kernels.
pub fn eval_pair(a: &[f32], b: &[f32], sink: &mut Sink) -> (u64, bool) {
    let case = json!({"engine": "ENUM/kernel", "a": vjson(a), "b": vjson(b)});
    let feat = feature(a, b);
    let isa = gv::simd_support();
    let mut evals = 0u64;
    let mut nontrivial = false;
    let mut judge = |name: &str, metric: &str, got: Result<f32, String>, t: refs::Truth, sink: &mut Sink| {
        evals += 1;
        match got {
            Err(msg) => sink.push(kv(&[("layer", "kernel"), ("kind", "panic"), ("fn", name), ("metric", metric), ("feature", feat), ("isa", isa)], case.clone(), format!("{name}({a:?},{b:?}) panicked: {msg}")), a.len()),
            Ok(g) => {
                if t.defined && t.val != 0.0 {
                    nontrivial = true;
                }
                if let Err(class) = check_val(g, &t) {
                    sink.push(
                        kv(&[("layer", "kernel"), ("kind", "wrong-distance"), ("metric", metric), ("feature", feat), ("class", class)], case.clone(), format!("{name}({a:?},{b:?}) = {g}, definition gives {} (tolerance {:e})", t.val, t.tol)),
                        a.len(),
                    );
                }
            }
        }
    };
    for m in METRICS {
        let t = truth(m, a, b);
        judge("compute_distance", mname(m), vcore::catch(|| gv::compute_distance(a, b, m)), t, sink);
    }
    judge("cosine_distance", "cosine", vcore::catch(|| gv::cosine_distance(a, b)), truth(DistanceMetric::Cosine, a, b), sink);
    {
        let mut t = truth(DistanceMetric::Cosine, a, b);
        t.val = 1.0 - t.val;
        judge("cosine_similarity", "cosine", vcore::catch(|| gv::cosine_similarity(a, b)), t, sink);
    }
    judge("euclidean_distance", "euclidean", vcore::catch(|| gv::euclidean_distance(a, b)), truth(DistanceMetric::Euclidean, a, b), sink);
    judge("euclidean_distance_squared", "euclidean", vcore::catch(|| gv::euclidean_distance_squared(a, b)), euclid_sq_truth(a, b), sink);
    {
        let mut t = truth(DistanceMetric::DotProduct, a, b);
        t.val = -t.val;
        judge("dot_product", "dot_product", vcore::catch(|| gv::dot_product(a, b)), t, sink);
    }
    judge("manhattan_distance", "manhattan", vcore::catch(|| gv::manhattan_distance(a, b)), truth(DistanceMetric::Manhattan, a, b), sink);
    // l2_norm(a) = euclid(a, 0); normalize(a): returns the norm, leaves a unit vector (documented: unchanged only for magnitude zero)
    let zero = vec![0.0f32; a.len()];
    judge("l2_norm", "euclidean", vcore::catch(|| gv::l2_norm(a)), truth(DistanceMetric::Euclidean, a, &zero), sink);
    {
        let r = vcore::catch(|| {
            let mut v = a.to_vec();
            let n = gv::normalize(&mut v);
            (n, v)
        });
        evals += 1;
        let nt = truth(DistanceMetric::Euclidean, a, &zero);
        match r {
            Err(msg) => sink.push(kv(&[("layer", "kernel"), ("kind", "panic"), ("fn", "normalize"), ("metric", "cosine"), ("feature", feat), ("isa", isa)], case.clone(), format!("normalize({a:?}) panicked: {msg}")), a.len()),
            Ok((n, v)) => {
                let fa = feature(a, a);
                let fa = if fa == "duplicate-vector" { "plain" } else { fa };
                if let Err(class) = check_val(n, &nt) {
                    sink.push(kv(&[("layer", "kernel"), ("kind", "wrong-norm"), ("metric", "cosine"), ("feature", fa), ("class", class)], case.clone(), format!("normalize({a:?}) returned {n}, the magnitude is {}", nt.val)), a.len());
                }
                if nt.val == 0.0 {
                    if v != a {
                        sink.push(kv(&[("layer", "kernel"), ("kind", "normalize-changed-zero"), ("metric", "cosine"), ("feature", fa)], case.clone(), format!("normalize({a:?}) left {v:?}")), a.len());
                    }
                } else {
                    let bad = (0..a.len()).any(|i| !((v[i] as f64 - a[i] as f64 / nt.val).abs() <= 1e-5));
                    if bad {
                        sink.push(
                            kv(&[("layer", "kernel"), ("kind", "not-unit-length"), ("metric", "cosine"), ("feature", fa)], case.clone(), format!("normalize({a:?}) left {v:?}; a vector of non-zero magnitude {} must become the unit vector", nt.val)),
                            a.len(),
                        );
                    }
                }
            }
        }
    }
    (evals, nontrivial)
}

/// Structured families for dimension n (exactly representable data, lane/tail positions, value classes).
pub fn families(n: usize) -> Vec<(Vec<f32>, Vec<f32>)> {
    let mut out = vec![];
    let ones = vec![1.0f32; n];
    out.push((ones.clone(), ones.clone()));
    out.push((ones.clone(), vec![-1.0f32; n]));
    out.push((vec![0.0f32; n], ones.clone()));
    // ramps: small integers -> every summation order is exact in f32
    let up: Vec<f32> = (0..n).map(|i| (i + 1) as f32).collect();
    let down: Vec<f32> = (0..n).map(|i| (n - i) as f32).collect();
    let alt: Vec<f32> = (0..n).map(|i| if i % 2 == 0 { 1.0 } else { -1.0 }).collect();
    out.push((up.clone(), down.clone()));
    out.push((up.clone(), alt.clone()));
    out.push((up.clone(), up.clone()));
    out.push((alt.clone(), ones.clone()));
    // one distinguished coordinate at every position: base ones / base zeros, values from the alphabet
    for p in 0..n {
        for &x in &ALPHA {
            for &y in &ALPHA {
                let mut a = ones.clone();
                let mut b = ones.clone();
                a[p] = x;
                b[p] = y;
                out.push((a, b));
            }
        }
        for &x in &[1.0f32, -1.0, 1e-20, 1e20, 3.0] {
            for &y in &[1.0f32, -1.0, 1e20, 2.0] {
                let mut a = vec![0.0f32; n];
                let mut b = vec![0.0f32; n];
                a[p] = x;
                b[(p + 1) % n] = y; // orthogonal unless n == 1
                out.push((a.clone(), b.clone()));
                b = vec![0.0f32; n];
                b[p] = y;
                out.push((a, b));
            }
        }
    }
    // all-same-class vectors
    for &x in &[1e-20f32, 1e20, 1e-3, 0.5] {
        out.push((vec![x; n], vec![x; n]));
        out.push((vec![x; n], vec![-x; n]));
        out.push((vec![x; n], up.clone()));
    }
    out
}

/// Exact search over one vector set and one query: all k, all metrics, all three entry points.
pub fn eval_exact(vectors: &[Vec<f32>], query: &[f32], sink: &mut Sink) -> (u64, bool) {
    let case = json!({"engine": "ENUM/exact", "vectors": vsjson(vectors), "query": vjson(query)});
    let n = vectors.len();
    let mut all: Vec<&[f32]> = vectors.iter().map(|v| v.as_slice()).collect();
    all.push(query);
    let fset = feature_set(&all);
    let mut evals = 0;
    let mut nontrivial = false;
    let items = || vectors.iter().enumerate().map(|(i, v)| (NodeId::new(i as u64), v.as_slice()));
    let mut ks = vec![0usize, 1, 2, n, n + 1];
    ks.sort();
    ks.dedup();
    for m in METRICS {
        let truths: Vec<refs::Truth> = vectors.iter().map(|v| truth(m, query, v)).collect();
        let undetermined = truths.iter().any(|t| !t.defined);
        // batch_distances: same order as input, each distance right
        match vcore::catch(|| gv::batch_distances(items(), query, m)) {
            Err(msg) => sink.push(kv(&[("layer", "exact"), ("kind", "panic"), ("fn", "batch_distances"), ("metric", mname(m)), ("feature", fset)], case.clone(), format!("panicked: {msg}")), n),
            Ok(r) => {
                evals += 1;
                if r.len() != n || r.iter().enumerate().any(|(i, (id, _))| id.as_u64() != i as u64) {
                    sink.push(kv(&[("layer", "exact"), ("kind", "batch-distances-order"), ("metric", mname(m)), ("feature", fset)], case.clone(), format!("{r:?}")), n);
                } else {
                    for (i, (_, d)) in r.iter().enumerate() {
                        if let Err(class) = check_val(*d, &truths[i]) {
                            sink.push(
                                kv(&[("layer", "exact"), ("kind", "wrong-distance"), ("metric", mname(m)), ("feature", feature(query, &vectors[i])), ("class", class)], case.clone(), format!("vector {i}: {d} vs {}", truths[i].val)),
                                n,
                            );
                        }
                    }
                }
            }
        }
        for &k in &ks {
            for filtered in [false, true] {
                let fname = if filtered { "brute_force_knn_filtered" } else { "brute_force_knn" };
                // filter: even ids only
                let pred = |id: NodeId| id.as_u64() % 2 == 0;
                let r = if filtered { vcore::catch(|| gv::brute_force_knn_filtered(items(), query, k, m, pred)) } else { vcore::catch(|| gv::brute_force_knn(items(), query, k, m)) };
                evals += 1;
                let r = match r {
                    Err(msg) => {
                        sink.push(kv(&[("layer", "exact"), ("kind", "panic"), ("fn", fname), ("metric", mname(m)), ("feature", fset)], case.clone(), format!("k={k}: panicked: {msg}")), n);
                        continue;
                    }
                    Ok(r) => r,
                };
                let elig: Vec<usize> = (0..n).filter(|i| !filtered || i % 2 == 0).collect();
                let want_len = k.min(elig.len());
                let ctx = format!("{fname}(k={k}, {}) = {:?}", mname(m), r.iter().map(|(i, d)| (i.as_u64(), *d)).collect::<Vec<_>>());
                if r.len() != want_len {
                    sink.push(kv(&[("layer", "exact"), ("kind", "wrong-count"), ("metric", mname(m)), ("feature", fset)], case.clone(), format!("{ctx}: expected {want_len} results")), n);
                    continue;
                }
                let mut ids: Vec<u64> = r.iter().map(|x| x.0.as_u64()).collect();
                ids.sort();
                let distinct = ids.windows(2).all(|w| w[0] != w[1]);
                if !distinct || ids.iter().any(|i| !elig.contains(&(*i as usize))) {
                    sink.push(kv(&[("layer", "exact"), ("kind", "duplicate-or-foreign-id"), ("metric", mname(m)), ("feature", fset)], case.clone(), ctx.clone()), n);
                    continue;
                }
                let mut dist_ok = true;
                for (id, d) in &r {
                    let i = id.as_u64() as usize;
                    if let Err(class) = check_val(*d, &truths[i]) {
                        dist_ok = false;
                        sink.push(
                            kv(&[("layer", "exact"), ("kind", "wrong-distance"), ("metric", mname(m)), ("feature", feature(query, &vectors[i])), ("class", class)], case.clone(), format!("{ctx}: vector {i} has true distance {}", truths[i].val)),
                            n,
                        );
                    }
                }
                let rank = |x: f32| if x.is_nan() { f64::INFINITY } else { x as f64 };
                if r.windows(2).any(|w| rank(w[0].1) > rank(w[1].1)) {
                    sink.push(kv(&[("layer", "exact"), ("kind", "unsorted"), ("metric", mname(m)), ("feature", fset)], case.clone(), ctx.clone()), n);
                }
                // exactly the k nearest, up to ties: the sorted true distances of the answer equal the k smallest true distances
                if !undetermined {
                    let mut best: Vec<(f64, f64)> = elig.iter().map(|i| (truths[*i].val, truths[*i].tol)).collect();
                    best.sort_by(|a, b| a.0.partial_cmp(&b.0).unwrap());
                    let mut got: Vec<f64> = r.iter().map(|(id, _)| truths[id.as_u64() as usize].val).collect();
                    got.sort_by(|a, b| a.partial_cmp(b).unwrap());
                    let bad = got.iter().zip(&best).any(|(g, (w, tol))| (g - w).abs() > 2.0 * tol + 1e-300 && !(g.abs() > f32::MAX as f64 && w.abs() > f32::MAX as f64));
                    if bad {
                        nontrivial = true;
                        sink.push(
                            kv(&[("layer", "exact"), ("kind", "exact-not-nearest"), ("metric", mname(m)), ("feature", fset), ("distances", if dist_ok { "right" } else { "wrong" })], case.clone(), format!("{ctx}: true distances of the answer {got:?}, the {want_len} smallest are {:?}", best.iter().take(want_len).map(|x| x.0).collect::<Vec<_>>())),
                            n,
                        );
                    }
                    if want_len >= 1 && want_len < elig.len() {
                        nontrivial = true;
                    }
                }
            }
        }
    }
    (evals, nontrivial)
}

/// Zone map: a block that holds a vector within `threshold` of the query must not be pruned.
pub fn eval_zone(vectors: &[Vec<f32>], query: &[f32], sink: &mut Sink) -> (u64, bool) {
    let case = json!({"engine": "ENUM/zonemap", "vectors": vsjson(vectors), "query": vjson(query)});
    let n = vectors.len();
    let refs_: Vec<&[f32]> = vectors.iter().map(|v| v.as_slice()).collect();
    let mut all = refs_.clone();
    all.push(query);
    let fset = feature_set(&all);
    let zm = match vcore::catch(|| VectorZoneMap::build(&refs_)) {
        Ok(z) => z,
        Err(msg) => {
            sink.push(kv(&[("layer", "zone-map"), ("kind", "panic"), ("fn", "build"), ("feature", fset)], case, format!("build panicked: {msg}")), n);
            return (1, false);
        }
    };
    let mut evals = 0;
    let mut nontrivial = false;
    // bounding box and count are exact facts
    if zm.count != n || (0..zm.dimensions).any(|d| vectors.iter().any(|v| v[d] < zm.dim_min[d] || v[d] > zm.dim_max[d])) {
        sink.push(kv(&[("layer", "zone-map"), ("kind", "bounding-box"), ("feature", fset)], case.clone(), format!("{zm:?}")), n);
    }
    for m in METRICS {
        for v in vectors {
            let t = truth(m, query, v);
            if !t.defined || t.val.abs() > 1e37 {
                continue;
            }
            // thresholds: a hair above the member's true distance, and well above it
            for thr in [t.val + t.tol.max(1e-6 * t.val.abs()).max(1e-30), t.val * 2.0 + 1.0] {
                let thr = thr as f32;
                if !thr.is_finite() {
                    continue;
                }
                evals += 1;
                match vcore::catch(|| zm.might_contain_within_distance(query, thr, m)) {
                    Err(msg) => sink.push(kv(&[("layer", "zone-map"), ("kind", "panic"), ("fn", "might_contain_within_distance"), ("metric", mname(m)), ("feature", fset)], case.clone(), format!("panicked: {msg}")), n),
                    Ok(true) => {}
                    Ok(false) => {
                        nontrivial = true;
                        sink.push(
                            kv(&[("layer", "zone-map"), ("kind", "unsound-prune"), ("metric", mname(m)), ("feature", fset)], case.clone(), format!("block {vectors:?} pruned for query {query:?} threshold {thr} although member {v:?} is at distance {}; centroid {:?} max_radius {}", t.val, zm.centroid, zm.max_radius)),
                            n,
                        );
                    }
                }
            }
        }
    }
    (evals, nontrivial)
}

pub fn replay(case: &Value) -> Vec<Violation> {
    let mut sink = Sink::default();
    match case["engine"].as_str().unwrap_or("") {
        "ENUM/kernel" => {
            eval_pair(&refs::vfrom(&case["a"]), &refs::vfrom(&case["b"]), &mut sink);
        }
        "ENUM/exact" => {
            eval_exact(&refs::vsfrom(&case["vectors"]), &refs::vfrom(&case["query"]), &mut sink);
        }
        "ENUM/zonemap" => {
            eval_zone(&refs::vsfrom(&case["vectors"]), &refs::vfrom(&case["query"]), &mut sink);
        }
        _ => {}
    }
    sink.map.into_values().map(|x| x.1).collect()
}
