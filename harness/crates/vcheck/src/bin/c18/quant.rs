//! Part 2b — engine ENUM: scalar / binary / product quantisers.
//!
//! Stated error bounds in quantization.rs: none numerically ("~97% accuracy" is
//! a recall figure).  What the doc comments do fix, and what is checked here:
//!  * scalar: "quantizes values to [0, 255] ... per-dimension min/max scaling",
//!    "values are clamped to the learned [min, max] range"  =>  one step
//!    (max-min)/255 per dimension around the clamped value;
//!    distance_u8 / asymmetric_distance* / cosine_distance_u8 are *defined* as the
//!    distance to/between the dequantised vectors => equality with that definition,
//!    and |asymmetric - exact| <= ||step|| by the triangle inequality (in-range vectors);
//!  * binary: bit i = (v[i] >= 0); Hamming = popcount of xor; normalised = h/dim;
//!    approximate_euclidean = sqrt(2h/dim);
//!  * product: code = index of the nearest centroid; reconstruct = concatenated
//!    centroids; asymmetric_distance_squared = squared distance to the reconstruction
//!    = distance_with_table(build_distance_table(q)); with at least as many centroids as
//!    training vectors every training vector reconstructs to itself.

use crate::refs::{self, Sink, check_val, euclid_sq_truth, feature_set, truth, vjson, vsjson};
use grafeo_core::index::vector::DistanceMetric;
use grafeo_core::index::vector::quantization::{BinaryQuantizer, ProductQuantizer, QuantizationType, ScalarQuantizer, hamming_distance_simd};
use serde_json::{Value, json};
use vcore::Violation;

fn kv(fields: &[(&str, &str)], case: &Value, detail: String) -> Violation {
    Violation::new(fields, case.clone(), detail)
}

pub fn eval_scalar(train: &[Vec<f32>], probes: &[Vec<f32>], sink: &mut Sink) -> (u64, bool) {
    let case = json!({"engine": "ENUM/scalar", "train": vsjson(train)});
    let n = train.len();
    let dim = train[0].len();
    let tr: Vec<&[f32]> = train.iter().map(|v| v.as_slice()).collect();
    let fset = feature_set(&tr);
    let sq = match vcore::catch(|| ScalarQuantizer::train(&tr)) {
        Ok(q) => q,
        Err(msg) => {
            sink.push(kv(&[("layer", "quantizer"), ("quantizer", "scalar"), ("kind", "panic"), ("fn", "train"), ("feature", fset)], &case, format!("train panicked: {msg}")), n);
            return (1, false);
        }
    };
    let mut evals = 1u64;
    let mut nontrivial = false;
    let mn: Vec<f64> = (0..dim).map(|d| train.iter().map(|v| v[d] as f64).fold(f64::INFINITY, f64::min)).collect();
    let mx: Vec<f64> = (0..dim).map(|d| train.iter().map(|v| v[d] as f64).fold(f64::NEG_INFINITY, f64::max)).collect();
    let step: Vec<f64> = (0..dim).map(|d| (mx[d] - mn[d]) / 255.0).collect();
    if sq.dimensions() != dim || sq.min_values().iter().zip(&mn).any(|(a, b)| *a as f64 != *b) {
        sink.push(kv(&[("layer", "quantizer"), ("quantizer", "scalar"), ("kind", "train-range"), ("fn", "train"), ("feature", fset)], &case, format!("min_values {:?} vs {mn:?}", sq.min_values())), n);
    }
    let degenerate = (0..dim).any(|d| mx[d] == mn[d]);
    let mut codes: Vec<(Vec<f32>, Vec<u8>, Vec<f32>)> = vec![];
    for v in probes {
        let r = vcore::catch(|| {
            let c = sq.quantize(v);
            let d = sq.dequantize(&c);
            (c, d)
        });
        evals += 1;
        let (c, d) = match r {
            Ok(x) => x,
            Err(msg) => {
                sink.push(kv(&[("layer", "quantizer"), ("quantizer", "scalar"), ("kind", "panic"), ("fn", "quantize"), ("feature", fset)], &case, format!("quantize/dequantize({v:?}) panicked: {msg}")), n);
                continue;
            }
        };
        // round trip: no worse than clamping plus one step per dimension (as u8 truncates => one full step)
        for i in 0..dim {
            let x = v[i] as f64;
            let cl = x.clamp(mn[i], mx[i]);
            let allowed = (cl - x).abs() + step[i] * (1.0 + 1e-3) + 1e-5 * cl.abs().max(mn[i].abs()).max(mx[i].abs()) + 1.2e-7;
            let err = (d[i] as f64 - x).abs();
            if !(err <= allowed) {
                let inr = x >= mn[i] && x <= mx[i];
                sink.push(
                    kv(&[("layer", "quantizer"), ("quantizer", "scalar"), ("kind", "roundtrip-error"), ("fn", "dequantize"), ("feature", fset), ("range", if inr { "in-range" } else { "out-of-range" }), ("degenerate", if degenerate { "yes" } else { "no" })], &case, format!("dim {i}: v={x} -> code {} -> {} ; range [{}, {}], step {}, error {err}", c[i], d[i], mn[i], mx[i], step[i])),
                    n,
                );
            }
            if step[i] > 0.0 {
                nontrivial = true;
            }
        }
        codes.push((v.clone(), c, d));
    }
    if sq.quantize_batch(&probes.iter().map(|v| v.as_slice()).collect::<Vec<_>>()) != codes.iter().map(|x| x.1.clone()).collect::<Vec<_>>() && codes.len() == probes.len() {
        sink.push(kv(&[("layer", "quantizer"), ("quantizer", "scalar"), ("kind", "batch-mismatch"), ("fn", "quantize_batch"), ("feature", fset)], &case, "quantize_batch differs from quantize".into()), n);
    }
    // distances: definitions on the dequantised vectors
    for (qv, qc, qd) in &codes {
        for (v, c, d) in &codes {
            evals += 1;
            let inr = (0..dim).all(|i| (v[i] as f64) >= mn[i] && (v[i] as f64) <= mx[i]);
            let all: Vec<&[f32]> = vec![qv, qd, d];
            let f2 = feature_set(&all);
            let r = vcore::catch(|| (sq.asymmetric_distance_squared(qv, c), sq.asymmetric_distance(qv, c), sq.distance_squared_u8(qc, c), sq.distance_u8(qc, c), sq.cosine_distance_u8(qc, c)));
            let (a2, a1, s2, s1, cs) = match r {
                Ok(x) => x,
                Err(msg) => {
                    sink.push(kv(&[("layer", "quantizer"), ("quantizer", "scalar"), ("kind", "panic"), ("fn", "distance"), ("feature", f2)], &case, format!("distance functions panicked on query {qv:?}, stored {v:?}: {msg}")), n);
                    continue;
                }
            };
            let checks: [(&str, f32, refs::Truth); 5] = [
                ("asymmetric_distance_squared", a2, euclid_sq_truth(qv, d)),
                ("asymmetric_distance", a1, truth(DistanceMetric::Euclidean, qv, d)),
                ("distance_squared_u8", s2, euclid_sq_truth(qd, d)),
                ("distance_u8", s1, truth(DistanceMetric::Euclidean, qd, d)),
                ("cosine_distance_u8", cs, truth(DistanceMetric::Cosine, qd, d)),
            ];
            for (name, got, mut t) in checks {
                // dequantisation is itself rounded: widen by the rounding of min + q*inv_scale
                let slack: f64 = (0..dim).map(|i| 1e-6 * (mn[i].abs() + mx[i].abs())).sum::<f64>();
                t.tol += if name.contains("squared") { 4.0 * slack * (t.val.sqrt() + slack) } else { 2.0 * slack };
                if name == "cosine_distance_u8" {
                    t.tol = 1e-4;
                }
                if let Err(class) = check_val(got, &t) {
                    sink.push(kv(&[("layer", "quantizer"), ("quantizer", "scalar"), ("kind", "wrong-distance"), ("fn", name), ("feature", f2), ("class", class)], &case, format!("{name}(query {qv:?} code {qc:?}, stored {v:?} code {c:?}) = {got}; the definition on the dequantised vectors {qd:?} / {d:?} gives {}", t.val)), n);
                }
            }
            // bound against the exact distance: | asym - exact | <= ||step|| for in-range stored vectors
            if inr {
                let exact = truth(DistanceMetric::Euclidean, qv, v);
                let bound: f64 = step.iter().map(|s| s * s).sum::<f64>().sqrt() * (1.0 + 1e-3) + 1e-5 * exact.val + 1e-6;
                if a1.is_finite() && exact.val.is_finite() && exact.val < 1e37 && (a1 as f64 - exact.val).abs() > bound {
                    sink.push(kv(&[("layer", "quantizer"), ("quantizer", "scalar"), ("kind", "asymmetric-error-bound"), ("fn", "asymmetric_distance"), ("feature", f2)], &case, format!("query {qv:?}, stored {v:?}: asymmetric {a1}, exact {}, one-step bound {bound}", exact.val)), n);
                }
            }
        }
    }
    (evals, nontrivial)
}

pub fn eval_binary(a: &[f32], b: &[f32], sink: &mut Sink) -> (u64, bool) {
    let case = json!({"engine": "ENUM/binary", "a": vjson(a), "b": vjson(b)});
    let n = a.len();
    let r = vcore::catch(|| {
        let qa = BinaryQuantizer::quantize(a);
        let qb = BinaryQuantizer::quantize(b);
        let h = BinaryQuantizer::hamming_distance(&qa, &qb);
        let hs = hamming_distance_simd(&qa, &qb);
        let hn = BinaryQuantizer::hamming_distance_normalized(&qa, &qb, n);
        let ae = BinaryQuantizer::approximate_euclidean(&qa, &qb, n);
        let batch = BinaryQuantizer::quantize_batch(&[a, b]);
        (qa, qb, h, hs, hn, ae, batch)
    });
    let (qa, qb, h, hs, hn, ae, batch) = match r {
        Ok(x) => x,
        Err(msg) => {
            sink.push(kv(&[("layer", "quantizer"), ("quantizer", "binary"), ("kind", "panic"), ("fn", "quantize")], &case, format!("panicked: {msg}")), n);
            return (1, false);
        }
    };
    let words = n.div_ceil(64);
    let bits = |v: &[f32]| {
        let mut w = vec![0u64; words];
        for (i, x) in v.iter().enumerate() {
            if *x >= 0.0 {
                w[i / 64] |= 1u64 << (i % 64);
            }
        }
        w
    };
    let (wa, wb) = (bits(a), bits(b));
    if qa != wa || qb != wb || BinaryQuantizer::words_needed(n) != words || BinaryQuantizer::bytes_needed(n) != words * 8 || batch != vec![wa.clone(), wb.clone()] {
        sink.push(kv(&[("layer", "quantizer"), ("quantizer", "binary"), ("kind", "wrong-bits"), ("fn", "quantize")], &case, format!("quantize gave {qa:?} / {qb:?}, sign bits are {wa:?} / {wb:?}")), n);
    }
    let want: u32 = wa.iter().zip(&wb).map(|(x, y)| (x ^ y).count_ones()).sum();
    let direct = (0..n).filter(|i| (a[*i] >= 0.0) != (b[*i] >= 0.0)).count() as u32;
    if h != want || hs != want || want != direct {
        sink.push(kv(&[("layer", "quantizer"), ("quantizer", "binary"), ("kind", "hamming"), ("fn", "hamming_distance")], &case, format!("hamming {h}, simd {hs}, popcount(xor) {want}, differing signs {direct}")), n);
    }
    if (hn - want as f32 / n as f32).abs() > 1e-6 || (ae - (2.0 * want as f32 / n as f32).sqrt()).abs() > 1e-6 {
        sink.push(kv(&[("layer", "quantizer"), ("quantizer", "binary"), ("kind", "hamming-derived"), ("fn", "hamming_distance_normalized")], &case, format!("normalized {hn}, approximate_euclidean {ae}, hamming {want}, dim {n}")), n);
    }
    (1, want > 0 && want < n as u32 || n == 1 && want > 0)
}

pub fn eval_product(train: &[Vec<f32>], m: usize, k: usize, iters: usize, probes: &[Vec<f32>], sink: &mut Sink) -> (u64, bool) {
    let case = json!({"engine": "ENUM/product", "train": vsjson(train), "m": m, "k": k, "iterations": iters});
    let n = train.len();
    let dim = train[0].len();
    let tr: Vec<&[f32]> = train.iter().map(|v| v.as_slice()).collect();
    let fset = feature_set(&tr);
    let ks = if k == 0 { "k0" } else if k > n { "k>n" } else { "k<=n" };
    let pq = match vcore::catch(|| ProductQuantizer::train(&tr, m, k, iters)) {
        Ok(q) => q,
        Err(msg) => {
            // documented panics: empty set, dim % m != 0, k > 256 — none of them is enumerated
            sink.push(kv(&[("layer", "quantizer"), ("quantizer", "product"), ("kind", "panic"), ("fn", "train"), ("feature", if k == 0 { "-" } else { fset }), ("centroids", ks)], &case, format!("train({n} vectors, m={m}, k={k}, iterations={iters}) panicked: {msg}")), n);
            return (1, false);
        }
    };
    let mut evals = 1u64;
    let sub = dim / m;
    if pq.num_subvectors() != m || pq.num_centroids() != k || pq.dimensions() != dim || pq.subvector_dim() != sub || pq.code_size() != m || pq.compression_ratio() != dim * 4 / m || (QuantizationType::Product { num_subvectors: m }).compression_ratio(dim) != dim * 4 / m {
        sink.push(kv(&[("layer", "quantizer"), ("quantizer", "product"), ("kind", "shape"), ("fn", "train"), ("feature", fset), ("centroids", ks)], &case, format!("{pq:?}")), n);
    }
    let cents: Vec<Vec<Vec<f32>>> = (0..m).map(|p| pq.get_partition_centroids(p).into_iter().map(|c| c.to_vec()).collect()).collect();
    let finite = cents.iter().flatten().flatten().all(|x| x.is_finite());
    if !finite {
        sink.push(kv(&[("layer", "quantizer"), ("quantizer", "product"), ("kind", "non-finite-centroid"), ("fn", "train"), ("feature", fset), ("centroids", ks)], &case, format!("centroids {cents:?}")), n);
    }
    let mut nontrivial = false;
    let mut all_probes: Vec<(Vec<f32>, bool)> = train.iter().map(|v| (v.clone(), true)).collect();
    all_probes.extend(probes.iter().map(|v| (v.clone(), false)));
    for (v, is_train) in &all_probes {
        evals += 1;
        let r = vcore::catch(|| {
            let c = pq.quantize(v);
            let rec = pq.reconstruct(&c);
            (c, rec)
        });
        let (c, rec) = match r {
            Ok(x) => x,
            Err(msg) => {
                sink.push(kv(&[("layer", "quantizer"), ("quantizer", "product"), ("kind", "panic"), ("fn", "quantize"), ("feature", fset), ("centroids", ks)], &case, format!("quantize/reconstruct({v:?}) panicked: {msg}")), n);
                continue;
            }
        };
        let f2 = feature_set(&[v.as_slice()]);
        if c.len() != m || c.iter().any(|x| *x as usize >= k) {
            sink.push(kv(&[("layer", "quantizer"), ("quantizer", "product"), ("kind", "code-out-of-range"), ("fn", "quantize"), ("feature", f2), ("centroids", ks)], &case, format!("quantize({v:?}) = {c:?} with {k} centroids")), n);
            continue;
        }
        let want_rec: Vec<f32> = (0..m).flat_map(|p| cents[p][c[p] as usize].clone()).collect();
        if rec != want_rec {
            sink.push(kv(&[("layer", "quantizer"), ("quantizer", "product"), ("kind", "reconstruct"), ("fn", "reconstruct"), ("feature", f2), ("centroids", ks)], &case, format!("reconstruct({c:?}) = {rec:?}, centroids say {want_rec:?}")), n);
        }
        // nearest centroid per partition
        if finite {
            for p in 0..m {
                let sv = &v[p * sub..(p + 1) * sub];
                let mine = euclid_sq_truth(sv, &cents[p][c[p] as usize]);
                for (j, cj) in cents[p].iter().enumerate() {
                    let o = euclid_sq_truth(sv, cj);
                    if mine.val > o.val + mine.tol + o.tol {
                        // (when both squared distances exceed f32::MAX they tie at +inf in f32: the huge-magnitude class)
                        let f2 = feature_set(&[sv, cents[p][c[p] as usize].as_slice(), cj.as_slice()]);
                        sink.push(kv(&[("layer", "quantizer"), ("quantizer", "product"), ("kind", "not-nearest-centroid"), ("fn", "quantize"), ("feature", f2), ("centroids", ks)], &case, format!("partition {p}: code {} at squared distance {}, centroid {j} {cj:?} is at {}", c[p], mine.val, o.val)), n);
                        break;
                    }
                }
            }
        }
        // with at least as many centroids as training vectors, a training vector is its own centroid
        if *is_train && k >= n && finite {
            let e = truth(DistanceMetric::Euclidean, v, &rec);
            if e.val > 1e-5 * truth(DistanceMetric::Euclidean, v, &vec![0.0; dim]).val {
                sink.push(kv(&[("layer", "quantizer"), ("quantizer", "product"), ("kind", "training-vector-not-reproduced"), ("fn", "train"), ("feature", fset), ("centroids", ks)], &case, format!("training vector {v:?} reconstructs to {rec:?} although k={k} >= n={n}")), n);
            }
            nontrivial = true;
        }
        // asymmetric distances
        for (q, _) in &all_probes {
            evals += 1;
            let r = vcore::catch(|| {
                let t = pq.build_distance_table(q);
                (pq.distance_with_table(&t, &c), pq.asymmetric_distance_squared(q, &c), pq.asymmetric_distance(q, &c), t.len())
            });
            let (dt, a2, a1, tl) = match r {
                Ok(x) => x,
                Err(msg) => {
                    sink.push(kv(&[("layer", "quantizer"), ("quantizer", "product"), ("kind", "panic"), ("fn", "asymmetric_distance"), ("feature", fset), ("centroids", ks)], &case, format!("panicked: {msg}")), n);
                    continue;
                }
            };
            let f3 = feature_set(&[q.as_slice(), rec.as_slice()]);
            if tl != m * k || dt.to_bits() != a2.to_bits() {
                sink.push(kv(&[("layer", "quantizer"), ("quantizer", "product"), ("kind", "table-mismatch"), ("fn", "distance_with_table"), ("feature", f3), ("centroids", ks)], &case, format!("table len {tl}, with_table {dt}, direct {a2}")), n);
            }
            if finite {
                for (name, got, t) in [("asymmetric_distance_squared", a2, euclid_sq_truth(q, &rec)), ("asymmetric_distance", a1, truth(DistanceMetric::Euclidean, q, &rec))] {
                    if let Err(class) = check_val(got, &t) {
                        sink.push(kv(&[("layer", "quantizer"), ("quantizer", "product"), ("kind", "wrong-distance"), ("fn", name), ("feature", f3), ("class", class), ("centroids", ks)], &case, format!("{name}({q:?}, codes {c:?}) = {got}; distance to the reconstruction {rec:?} is {}", t.val)), n);
                    }
                }
            }
        }
    }
    (evals, nontrivial)
}

pub fn replay(case: &Value, probes_for: impl Fn(usize) -> Vec<Vec<f32>>) -> Vec<Violation> {
    let mut sink = Sink::default();
    match case["engine"].as_str().unwrap_or("") {
        "ENUM/scalar" => {
            let t = refs::vsfrom(&case["train"]);
            let p = probes_for(t[0].len());
            eval_scalar(&t, &p, &mut sink);
        }
        "ENUM/binary" => {
            eval_binary(&refs::vfrom(&case["a"]), &refs::vfrom(&case["b"]), &mut sink);
        }
        "ENUM/product" => {
            let t = refs::vsfrom(&case["train"]);
            let p = probes_for(t[0].len());
            eval_product(&t, case["m"].as_u64().unwrap_or(1) as usize, case["k"].as_u64().unwrap_or(1) as usize, case["iterations"].as_u64().unwrap_or(0) as usize, &p, &mut sink);
        }
        _ => {}
    }
    sink.map.into_values().map(|x| x.1).collect()
}
