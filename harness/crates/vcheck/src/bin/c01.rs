//! C01 — transactions read a stable snapshot (DESIGN.md §3/C01).
//! Layers: (1) component: VersionChain / VersionInfo visibility (clean oracle);
//!         (2) integration: sessions on a shared GrafeoDB with the probe bundle after every transition.
use serde_json::json;
use vcheck::{mvccchain, sess};
use vcore::{Report, SeqModel, Tier};

fn main() {
    std::process::exit(run(vcheck::entry()));
}

fn run(args: vcore::Args) -> i32 {
    if let Some(p) = args.replay.as_deref() {
        let case = vcore::read_replay_case(p);
        if case["engine"] == "SEQ/mvcc-chain" {
            let m = mvccchain::Model { epochs: case["config"]["epochs"].as_u64().unwrap_or(3) as u8, txs: case["config"]["txs"].as_array().map(|a| a.iter().filter_map(|x| x.as_u64()).map(|x| x as u8).collect()).unwrap_or_default(), with_get_mut: case["config"]["with_get_mut"].as_bool().unwrap_or(true) };
            return vcheck::replay_report("C01", vcore::seq_replay_case(&m, &case, mvccchain::parse_ev));
        }
        let m = sess::model_from_json(&case["config"]);
        return vcheck::replay_report("C01", vcore::seq_replay_case(&m, &case, sess::parse_ev));
    }
    let tier = args.tier;
    let mut rep = Report::new("C01", tier, "model_checking");
    rep.rule = "BFS over histories; layer mvcc: add/mark_deleted/remove_by/gc/get_mut on the real VersionChain with all (epoch, tx) visibility probes after every step; layer session: begin/commit/rollback/write histories of 2-3 sessions on a shared GrafeoDB, every session running the whole probe bundle twice after every transition; distinct = new (ledger, observation) key".into();
    let mut layers = vec![];
    // layer 1: mvcc chain
    let m = mvccchain::Model { epochs: tier.pick(3, 4), txs: vec![1, 2, 3], with_get_mut: true };
    let before = (rep.states, rep.transitions);
    let st = vcore::seq_bfs(&m, tier.pick(5, 6), 20_000_000, &mut rep);
    layers.push(json!({"layer": "mvcc-chain", "config": m.config_json(), "depth_completed": st.depth_completed, "states": rep.states - before.0, "transitions": rep.transitions - before.1}));
    eprintln!("mvcc-chain: {} states {} transitions ({:.1}s)", rep.states - before.0, rep.transitions - before.1, rep.elapsed_s());
    // layer 2: sessions
    let all_probes: Vec<usize> = (0..sess::PROBES.len()).collect();
    // edge-focused layer: parallel edges b->a created by statement and by the direct API (converging second hops of differing visibility)
    let edge_probes: Vec<usize> = ["label-scan", "expand", "two-hop", "two-hop-any", "get_edge", "neighbors-out", "neighbors-in"].iter().filter_map(|n| sess::PROBES.iter().position(|p| p == n)).collect();
    let edge_layer = |caps: Vec<usize>, depth: usize| (sess::Model { prop: "C01", sessions: 2, writes: vec![sess::W::CreateEdge, sess::W::CreateEdgeApi, sess::W::DeleteEdge], caps, writers: vec![0], levels: vec![0], probes: edge_probes.clone(), second_commit_first: false, endings: false }, depth);
    let configs: Vec<(sess::Model, usize)> = match tier {
        Tier::Quick => vec![
            (sess::Model { prop: "C01", sessions: 2, writes: sess::ALL_W.to_vec(), caps: vec![3, 2], writers: vec![0], levels: vec![0], probes: all_probes.clone(), second_commit_first: false, endings: false }, 4),
            (sess::Model { prop: "C01", sessions: 2, writes: vec![sess::W::CreateNode, sess::W::SetProp, sess::W::InsertTriple], caps: vec![3, 3], writers: vec![0, 1], levels: vec![0], probes: all_probes.clone(), second_commit_first: true, endings: false }, 5),
            edge_layer(vec![5, 2], 6),
        ],
        Tier::Thorough => vec![
            (sess::Model { prop: "C01", sessions: 2, writes: sess::ALL_W.to_vec(), caps: vec![4, 3], writers: vec![0], levels: vec![0, 1], probes: all_probes.clone(), second_commit_first: false, endings: false }, 6),
            (sess::Model { prop: "C01", sessions: 3, writes: vec![sess::W::CreateNode, sess::W::SetProp, sess::W::DeleteNodeB, sess::W::CreateEdge, sess::W::AddLabel, sess::W::InsertTriple], caps: vec![3, 3, 2], writers: vec![0, 1], levels: vec![0], probes: all_probes.clone(), second_commit_first: true, endings: false }, 6),
            edge_layer(vec![6, 3], 8),
        ],
    };
    for (m, depth) in configs {
        let before = (rep.states, rep.transitions);
        let t0 = rep.elapsed_s();
        let st = vcore::seq_bfs(&m, depth, tier.pick(400_000, 150_000), &mut rep);
        layers.push(json!({"layer": "session", "config": m.config_json(), "depth_bound": depth, "depth_completed": st.depth_completed, "states": rep.states - before.0, "transitions": rep.transitions - before.1, "wall_s": rep.elapsed_s() - t0}));
        eprintln!("session layer: depth {depth}: {} states {} transitions ({:.1}s)", rep.states - before.0, rep.transitions - before.1, rep.elapsed_s() - t0);
    }
    rep.set("layers", json!(layers));
    rep.traces_validated = rep.transitions;
    for mfile in &args.merge {
        rep.merge_partial(mfile, "sched_layer");
    }
    rep.assumptions.push("the commit verdict of each transaction is an input to the reference model (C01 does not depend on C03); ReadCommitted is documented as allowed to see later commits and is not explored".into());
    rep.finish()
}
