//! scratch probe (not a check)
use grafeo_engine::GrafeoDB;
fn main() {
    let db = GrafeoDB::new_in_memory();
    let s = db.session();
    for q in [
        "INSERT DATA { <http://e/a> <http://e/p> <http://e/b> . <http://e/b> <http://e/p> <http://e/c> . <http://e/a> <http://e/q> \"1\"^^<http://www.w3.org/2001/XMLSchema#integer> . <http://e/b> <http://e/q> \"2\"^^<http://www.w3.org/2001/XMLSchema#integer> . <http://e/a> <http://e/n> \"x\" }",
    ] { println!("{:?}", s.execute_sparql(q).map(|r| r.rows)); }
    for q in [
        "SELECT ?s ?o WHERE { ?s <http://e/p> ?o }",
        "SELECT ?s ?o ?z WHERE { ?s <http://e/p> ?o . ?o <http://e/p> ?z }",
        "SELECT ?s ?v WHERE { ?s <http://e/q> ?v FILTER(?v > 1) }",
        "SELECT ?s ?v WHERE { ?s <http://e/q> ?v FILTER(?v = 1) }",
        "SELECT ?s ?v WHERE { ?s <http://e/p> ?o OPTIONAL { ?s <http://e/q> ?v } }",
        "SELECT ?s WHERE { { ?s <http://e/q> ?v } UNION { ?s <http://e/n> ?v } }",
        "SELECT DISTINCT ?s WHERE { ?s ?p ?o }",
        "SELECT ?s ?v WHERE { ?s <http://e/q> ?v } ORDER BY DESC(?v)",
        "SELECT ?s ?v WHERE { ?s <http://e/q> ?v } ORDER BY ?v LIMIT 1",
        "SELECT ?s ?v WHERE { ?s <http://e/q> ?v } ORDER BY ?v OFFSET 1 LIMIT 1",
        "SELECT (COUNT(?s) AS ?c) WHERE { ?s <http://e/p> ?o }",
        "SELECT (COUNT(*) AS ?c) WHERE { ?s <http://e/p> ?o }",
        "SELECT ?s (COUNT(?o) AS ?c) WHERE { ?s ?p ?o } GROUP BY ?s",
        "ASK { <http://e/a> <http://e/p> <http://e/b> }",
        "SELECT ?s WHERE { ?s <http://e/p> ?o FILTER(?o = <http://e/b>) }",
        "SELECT ?s WHERE { ?s <http://e/n> \"x\" }",
        "SELECT ?x WHERE { ?x <http://e/p> ?x }",
        "SELECT ?s ?p ?o WHERE { ?s ?p ?o FILTER(isLiteral(?o)) }",
        "SELECT ?s WHERE { ?s <http://e/p> ?o FILTER NOT EXISTS { ?o <http://e/p> ?z } }",
        "SELECT ?s ?o WHERE { ?s <http://e/p> ?o MINUS { ?s <http://e/q> ?v } }",
    ] {
        match s.execute_sparql(q) { Ok(r) => println!("ok  {q:90} -> {:?}", r.rows), Err(e) => println!("ERR {q:90} -> {}", e.to_string().lines().next().unwrap_or("")) }
    }
}
