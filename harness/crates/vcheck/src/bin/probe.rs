use grafeo_engine::GrafeoDB;
fn main() {
    let db = GrafeoDB::new_in_memory();
    let s = db.session();
    s.execute("INSERT (:A {s: 'x'})").unwrap();
    s.execute("INSERT (:A {s: 'x'})").unwrap();
    s.execute("INSERT (:A {s: 'y', p: 3})").unwrap();
    for q in std::env::args().skip(1) {
        let r = s.execute(&q);
        println!("{q}\n  {:?}", r.map(|r| r.rows));
    }
}
