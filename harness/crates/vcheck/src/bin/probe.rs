//! scratch probe (not a check): which statements do the front ends accept?
use grafeo_engine::GrafeoDB;
fn main() {
    let db = GrafeoDB::new_in_memory();
    let s = db.session();
    let qs = [
        "INSERT (:G {name: 'a', v: 1})",
        "INSERT (:G {name: 'b'})",
        "MATCH (a:G {name: 'a'}), (b:G {name: 'b'}) INSERT (a)-[:K]->(b)",
        "MATCH (a:G {name: 'a'}), (b:G {name: 'b'}) CREATE (a)-[:K]->(b)",
        "MATCH (n:G {name: 'a'}) SET n.v = 2",
        "MATCH (n:G {name: 'a'}) SET n:L2",
        "MATCH (n:G {name: 'a'}) REMOVE n.v",
        "MATCH (n:G {name: 'a'}) REMOVE n:L2",
        "MATCH (n:G) RETURN n.name, n.v",
        "MATCH (n) RETURN n.name",
        "MATCH (a)-[:K]->(b) RETURN a.name, b.name",
        "MATCH (a)-[e:K]->(b) DELETE e",
        "MATCH (a)-[:K]->(b) RETURN a.name, b.name",
        "MATCH (n:G {name: 'b'}) DELETE n",
        "MATCH (n:G {name: 'a'}) DETACH DELETE n",
        "MATCH (n:G) RETURN COUNT(n)",
        "MATCH (n:G) WHERE n.v = 1 RETURN n.name",
        "MATCH (n:G) WHERE n.v > 0 RETURN n.name",
        "MERGE (n:G {name: 'm'})",
        "MATCH (n) RETURN n.name",
    ];
    for q in qs {
        match s.execute(q) {
            Ok(r) => println!("GQL ok   {q:70} -> {:?}", r.rows),
            Err(e) => println!("GQL ERR  {q:70} -> {e}"),
        }
    }
    for q in ["INSERT DATA { <http://ex/a> <http://ex/p> \"x\" }", "SELECT ?s ?p ?o WHERE { ?s ?p ?o }", "DELETE DATA { <http://ex/a> <http://ex/p> \"x\" }", "SELECT ?s WHERE { ?s <http://ex/p> \"x\" }"] {
        match s.execute_sparql(q) {
            Ok(r) => println!("SPARQL ok  {q:60} -> {:?}", r.rows),
            Err(e) => println!("SPARQL ERR {q:60} -> {e}"),
        }
    }
    for q in ["MATCH (n) RETURN n.name", "CREATE (:C {name: 'c'})", "MATCH (n:C) RETURN n.name"] {
        match s.execute_cypher(q) {
            Ok(r) => println!("CYPHER ok  {q:60} -> {:?}", r.rows),
            Err(e) => println!("CYPHER ERR {q:60} -> {e}"),
        }
    }
    match s.execute_gremlin("g.V().hasLabel('C').values('name')") { Ok(r) => println!("GREMLIN ok -> {:?}", r.rows), Err(e) => println!("GREMLIN ERR {e}") }
    match s.execute_graphql("{ C { name } }") { Ok(r) => println!("GRAPHQL ok -> {:?}", r.rows), Err(e) => println!("GRAPHQL ERR {e}") }
}
