use grafeo_engine::query::optimizer::Optimizer;
use grafeo_engine::query::gql_translator;
fn main() {
    let text = std::env::args().nth(1).unwrap();
    let logical = gql_translator::translate(&text).unwrap();
    println!("LOGICAL: {:#?}", logical);
    let o = Optimizer::new().with_filter_pushdown(true).with_join_reorder(false).with_projection_pushdown(false);
    println!("PUSHED: {:#?}", o.optimize(logical).unwrap());
}
