use grafeo_engine::GrafeoDB;
fn main() {
    let db = GrafeoDB::new_in_memory();
    db.execute_sparql("INSERT DATA { <http://e/a> <http://e/p> <http://e/b> . <http://e/b> <http://e/p> <http://e/c> . <http://e/b> <http://e/q> 2 }").unwrap();
    for q in std::env::args().skip(1) {
        let r = db.execute_sparql(&q).unwrap();
        println!("{q}\n  {:?}", r.rows);
    }
}
