//! Algebraic laws of the wrapper types (==, hash, cmp) over singles, pairs and triples.
use crate::vals::*;
use grafeo_common::types::{HashableValue, OrderableValue, OrderedFloat64, Value};
use grafeo_core::index::btree::OrderedFloat as BtOrderedFloat;
use serde_json::json;
use std::cmp::Ordering;
use std::collections::hash_map::DefaultHasher;
use std::collections::{BTreeSet, HashSet};
use std::hash::{BuildHasherDefault, Hash, Hasher};
use vcore::Violation;

pub type FixedState = BuildHasherDefault<DefaultHasher>;

pub fn sip_of<T: Hash>(t: &T) -> u64 {
    let mut h = DefaultHasher::new();
    t.hash(&mut h);
    h.finish()
}
/// insert a, probe b, insert b -> (b found after a, final len)
fn hs_probe<T: Hash + Eq + Clone>(a: &T, b: &T) -> (bool, usize) {
    let mut set: HashSet<T, FixedState> = HashSet::default();
    set.insert(a.clone());
    let c = set.contains(b);
    set.insert(b.clone());
    (c, set.len())
}
fn bs_probe<T: Ord + Clone>(a: &T, b: &T) -> (bool, usize) {
    let mut set: BTreeSet<T> = BTreeSet::new();
    set.insert(a.clone());
    let c = set.contains(b);
    set.insert(b.clone());
    (c, set.len())
}

/// One wrapper type under test plus its documented (reference) semantics.
pub trait Subject: Sized + Clone {
    const NAME: &'static str;
    const HAS_HASH: bool;
    const HAS_ORD: bool;
    fn make(v: &Value) -> Option<Self>;
    fn back(&self) -> Value;
    fn eq_(&self, o: &Self) -> bool;
    fn ne_(&self, o: &Self) -> bool;
    fn sip(&self) -> u64 {
        0
    }
    fn fnv(&self) -> u64 {
        0
    }
    fn hs(_a: &Self, _b: &Self) -> (bool, usize) {
        (false, 0)
    }
    fn cmp_(&self, _o: &Self) -> Ordering {
        Ordering::Equal
    }
    fn pcmp_(&self, _o: &Self) -> Option<Ordering> {
        None
    }
    fn bs(_a: &Self, _b: &Self) -> (bool, usize) {
        (false, 0)
    }
    /// documented equality
    fn ref_eq(a: &Value, b: &Value) -> bool;
    /// documented order (None where the documentation leaves it open)
    fn ref_cmp(a: &Value, b: &Value) -> Option<Ordering>;
}

impl Subject for HashableValue {
    const NAME: &'static str = "HashableValue";
    const HAS_HASH: bool = true;
    const HAS_ORD: bool = false;
    fn make(v: &Value) -> Option<Self> {
        Some(HashableValue::new(v.clone()))
    }
    fn back(&self) -> Value {
        self.inner().clone()
    }
    fn eq_(&self, o: &Self) -> bool {
        self == o
    }
    fn ne_(&self, o: &Self) -> bool {
        self != o
    }
    fn sip(&self) -> u64 {
        sip_of(self)
    }
    fn fnv(&self) -> u64 {
        vcore::hash_of(self)
    }
    fn hs(a: &Self, b: &Self) -> (bool, usize) {
        hs_probe(a, b)
    }
    fn ref_eq(a: &Value, b: &Value) -> bool {
        bits_eq(a, b)
    }
    fn ref_cmp(_: &Value, _: &Value) -> Option<Ordering> {
        None
    }
}

impl Subject for OrderableValue {
    const NAME: &'static str = "OrderableValue";
    const HAS_HASH: bool = true;
    const HAS_ORD: bool = true;
    fn make(v: &Value) -> Option<Self> {
        OrderableValue::try_from(v)
    }
    fn back(&self) -> Value {
        self.clone().into_value()
    }
    fn eq_(&self, o: &Self) -> bool {
        self == o
    }
    fn ne_(&self, o: &Self) -> bool {
        self != o
    }
    fn sip(&self) -> u64 {
        sip_of(self)
    }
    fn fnv(&self) -> u64 {
        vcore::hash_of(self)
    }
    fn hs(a: &Self, b: &Self) -> (bool, usize) {
        hs_probe(a, b)
    }
    fn cmp_(&self, o: &Self) -> Ordering {
        self.cmp(o)
    }
    fn pcmp_(&self, o: &Self) -> Option<Ordering> {
        self.partial_cmp(o)
    }
    fn bs(a: &Self, b: &Self) -> (bool, usize) {
        bs_probe(a, b)
    }
    fn ref_eq(a: &Value, b: &Value) -> bool {
        ref_ord_cmp(a, b) == Some(Ordering::Equal)
    }
    fn ref_cmp(a: &Value, b: &Value) -> Option<Ordering> {
        ref_ord_cmp(a, b)
    }
}

fn f_of(v: &Value) -> Option<f64> {
    match v {
        Value::Float64(f) => Some(*f),
        _ => None,
    }
}

impl Subject for OrderedFloat64 {
    const NAME: &'static str = "OrderedFloat64";
    const HAS_HASH: bool = true;
    const HAS_ORD: bool = true;
    fn make(v: &Value) -> Option<Self> {
        f_of(v).map(OrderedFloat64::new)
    }
    fn back(&self) -> Value {
        Value::Float64(self.get())
    }
    fn eq_(&self, o: &Self) -> bool {
        self == o
    }
    fn ne_(&self, o: &Self) -> bool {
        self != o
    }
    fn sip(&self) -> u64 {
        sip_of(self)
    }
    fn fnv(&self) -> u64 {
        vcore::hash_of(self)
    }
    fn hs(a: &Self, b: &Self) -> (bool, usize) {
        hs_probe(a, b)
    }
    fn cmp_(&self, o: &Self) -> Ordering {
        self.cmp(o)
    }
    fn pcmp_(&self, o: &Self) -> Option<Ordering> {
        self.partial_cmp(o)
    }
    fn bs(a: &Self, b: &Self) -> (bool, usize) {
        bs_probe(a, b)
    }
    fn ref_eq(a: &Value, b: &Value) -> bool {
        matches!((f_of(a), f_of(b)), (Some(x), Some(y)) if cmp_float(x, y) == Ordering::Equal)
    }
    fn ref_cmp(a: &Value, b: &Value) -> Option<Ordering> {
        Some(cmp_float(f_of(a)?, f_of(b)?))
    }
}

/// `index::btree::OrderedFloat` (key type of `Float64Index`): documented "NaN values are
/// treated as equal to each other"; where NaN sorts is left open.
impl Subject for BtOrderedFloat {
    const NAME: &'static str = "btree::OrderedFloat";
    const HAS_HASH: bool = false;
    const HAS_ORD: bool = true;
    fn make(v: &Value) -> Option<Self> {
        f_of(v).map(BtOrderedFloat)
    }
    fn back(&self) -> Value {
        Value::Float64(self.0)
    }
    fn eq_(&self, o: &Self) -> bool {
        self == o
    }
    fn ne_(&self, o: &Self) -> bool {
        self != o
    }
    fn cmp_(&self, o: &Self) -> Ordering {
        self.cmp(o)
    }
    fn pcmp_(&self, o: &Self) -> Option<Ordering> {
        self.partial_cmp(o)
    }
    fn bs(a: &Self, b: &Self) -> (bool, usize) {
        bs_probe(a, b)
    }
    fn ref_eq(a: &Value, b: &Value) -> bool {
        matches!((f_of(a), f_of(b)), (Some(x), Some(y)) if cmp_float(x, y) == Ordering::Equal)
    }
    fn ref_cmp(a: &Value, b: &Value) -> Option<Ordering> {
        let (x, y) = (f_of(a)?, f_of(b)?);
        if x.is_nan() != y.is_nan() { None } else { Some(cmp_float(x, y)) }
    }
}

fn viol<S: Subject>(law: &str, vals: &[Value], detail: String) -> Violation {
    let class = if vals.len() == 1 { class1(&vals[0]) } else { tuple_class(vals) };
    Violation::new(
        &[("layer", "wrapper"), ("subject", S::NAME), ("law", law), ("class", &class)],
        json!({"check": "law", "subject": S::NAME, "values": vals.iter().map(enc).collect::<Vec<_>>()}),
        format!("{} {law}: {detail} [{}]", S::NAME, show_all(vals)),
    )
}

/// Evaluate every law of arity `vals.len()` on exactly this tuple.  Returns
/// None when the wrapper does not accept one of the values, else Some(premise_held)
/// where premise_held says the tuple is a non-trivial instance (an equality premise is true).
pub fn laws<S: Subject>(vals: &[Value], w: &[&S], out: &mut Vec<Violation>) -> bool {
    match vals.len() {
        1 => {
            let a = w[0];
            if !a.eq_(a) {
                out.push(viol::<S>("eq-reflexivity", vals, "a != a".into()));
            }
            if a.ne_(a) {
                out.push(viol::<S>("ne-consistency", vals, "a != a is true".into()));
            }
            if !bits_eq(&a.back(), &vals[0]) {
                out.push(viol::<S>("conversion-identity", vals, format!("wrapper gives back {}", show(&a.back()))));
            }
            if S::HAS_HASH && (a.sip() != a.clone().sip() || a.fnv() != a.clone().fnv()) {
                out.push(viol::<S>("hash-deterministic", vals, "hash of a clone differs".into()));
            }
            if S::HAS_ORD {
                if a.cmp_(a) != Ordering::Equal {
                    out.push(viol::<S>("cmp-reflexivity", vals, format!("cmp(a,a) = {:?}", a.cmp_(a))));
                }
                if a.pcmp_(a) != Some(a.cmp_(a)) {
                    out.push(viol::<S>("partial-cmp-consistent", vals, format!("partial_cmp(a,a) = {:?}", a.pcmp_(a))));
                }
            }
            true
        }
        2 => {
            let (a, b) = (w[0], w[1]);
            let e = a.eq_(b);
            if e != b.eq_(a) {
                out.push(viol::<S>("eq-symmetry", vals, format!("a==b is {e}, b==a is {}", b.eq_(a))));
            }
            if a.ne_(b) == e {
                out.push(viol::<S>("ne-consistency", vals, format!("a==b is {e} and a!=b is {}", a.ne_(b))));
            }
            let re = S::ref_eq(&vals[0], &vals[1]);
            if e != re {
                out.push(viol::<S>("eq-vs-documented", vals, format!("a==b is {e}, documented equality says {re}")));
            }
            if S::HAS_HASH {
                if e && (a.sip() != b.sip() || a.fnv() != b.fnv()) {
                    out.push(viol::<S>("eq-implies-hash-eq", vals, format!("a==b but hash(a)={:#x} hash(b)={:#x} (SipHash-1-3 zero keys)", a.sip(), b.sip())));
                }
                let (found, len) = S::hs(a, b);
                if found != e || len != if e { 1 } else { 2 } {
                    out.push(viol::<S>("std-hashset", vals, format!("a==b is {e}; HashSet{{a}}.contains(b)={found}, len after inserting both = {len}")));
                }
            }
            if S::HAS_ORD {
                let (c, r) = (a.cmp_(b), b.cmp_(a));
                if c != r.reverse() {
                    out.push(viol::<S>("cmp-antisymmetry", vals, format!("cmp(a,b)={c:?} cmp(b,a)={r:?}")));
                }
                if (c == Ordering::Equal) != e {
                    out.push(viol::<S>("cmp-equal-iff-eq", vals, format!("cmp(a,b)={c:?} but a==b is {e}")));
                }
                if a.pcmp_(b) != Some(c) {
                    out.push(viol::<S>("partial-cmp-consistent", vals, format!("cmp={c:?} partial_cmp={:?}", a.pcmp_(b))));
                }
                if let Some(rc) = S::ref_cmp(&vals[0], &vals[1])
                    && rc != c
                {
                    out.push(viol::<S>("cmp-vs-documented", vals, format!("cmp(a,b)={c:?}, documented/exact order says {rc:?}")));
                }
                let (found, len) = S::bs(a, b);
                let ce = c == Ordering::Equal;
                if found != ce || len != if ce { 1 } else { 2 } {
                    out.push(viol::<S>("std-btreeset", vals, format!("cmp(a,b)={c:?}; BTreeSet{{a}}.contains(b)={found}, len after inserting both = {len}")));
                }
            }
            e || re
        }
        3 => {
            let (a, b, c) = (w[0], w[1], w[2]);
            let (ab, bc, ac) = (a.eq_(b), b.eq_(c), a.eq_(c));
            if ab && bc && !ac {
                out.push(viol::<S>("eq-transitivity", vals, "a==b and b==c but a!=c".into()));
            }
            if S::HAS_ORD {
                let (x, y, z) = (a.cmp_(b), b.cmp_(c), a.cmp_(c));
                if x != Ordering::Greater && y != Ordering::Greater {
                    let strict = x == Ordering::Less || y == Ordering::Less;
                    if z == Ordering::Greater || (strict && z != Ordering::Less) {
                        out.push(viol::<S>("cmp-transitivity", vals, format!("cmp(a,b)={x:?} cmp(b,c)={y:?} but cmp(a,c)={z:?}")));
                    }
                }
            }
            ab && bc
        }
        _ => false,
    }
}

/// Replay entry: build the wrappers and run the laws of that arity.
pub fn laws_of<S: Subject>(vals: &[Value]) -> Vec<Violation> {
    let ws: Vec<S> = match vals.iter().map(S::make).collect::<Option<Vec<_>>>() {
        Some(w) => w,
        None => return vec![],
    };
    let refs: Vec<&S> = ws.iter().collect();
    let mut out = vec![];
    laws::<S>(vals, &refs, &mut out);
    out
}
