//! Consequence checks on the real containers: HashIndex, BTreeIndex, the store's
//! property index, DISTINCT, GROUP BY, aggregate DISTINCT and the sort operator.
use crate::laws::Subject;
use crate::vals::*;
use grafeo_common::types::{LogicalType, NodeId, PropertyKey, Value};
use grafeo_core::execution::DataChunk;
use grafeo_core::execution::chunk::DataChunkBuilder;
use grafeo_core::execution::operators::{AggregateExpr, DistinctOperator, HashAggregateOperator, Operator, OperatorResult, SimpleAggregateOperator, SortKey, SortOperator};
use grafeo_core::graph::lpg::LpgStore;
use grafeo_core::index::{BTreeIndex, HashIndex};
use serde_json::json;
use std::cmp::Ordering;
use std::collections::BTreeMap;
use std::hash::Hash;
use vcore::Violation;

/// DashMap hashes with a per-instance random state: an "equal keys, different hashes"
/// pair is split with probability ~0.99 per instance; repeat so the verdict is stable.
const HASH_TRIALS: usize = 8;

fn viol(container: &str, law: &str, class: &str, vals: &[Value], detail: String) -> Violation {
    Violation::new(
        &[("layer", "container"), ("subject", container), ("law", law), ("class", class)],
        json!({"check": "container", "subject": container, "values": vals.iter().map(enc).collect::<Vec<_>>()}),
        format!("{container} {law}: {detail} [{}]", show_all(vals)),
    )
}

// ---------------------------------------------------------------------------
// HashIndex<K, NodeId>
// ---------------------------------------------------------------------------
pub fn hash_index<S: Subject + Hash + Eq>(vals: &[Value], out: &mut Vec<Violation>) -> bool {
    let name = format!("HashIndex<{}>", S::NAME);
    let (a, b) = (&vals[0], &vals[1]);
    let (Some(ka), Some(kb)) = (S::make(a), S::make(b)) else { return false };
    let req = S::ref_eq(a, b);
    let class = pair_class(a, b, false);
    let (n1, n2) = (NodeId::new(1), NodeId::new(2));
    let mut seen: BTreeMap<&'static str, String> = BTreeMap::new();
    for _ in 0..HASH_TRIALS {
        let idx: HashIndex<S, NodeId> = HashIndex::new();
        let r1 = idx.insert(ka.clone(), n1);
        let r2 = idx.insert(kb.clone(), n2);
        let len = idx.len();
        let (ga, gb) = (idx.get(&ka), idx.get(&kb));
        let obs = format!("insert(a)->{r1:?} insert(b)->{r2:?} len={len} get(a)={ga:?} get(b)={gb:?} contains(a)={} contains(b)={}", idx.contains(&ka), idx.contains(&kb));
        if req && len != 1 {
            seen.entry("split-equal").or_insert(obs.clone());
        }
        if !req && len != 2 {
            seen.entry("merged-different").or_insert(obs.clone());
        }
        let coherent = match len {
            1 => r1.is_none() && r2 == Some(n1) && ga == Some(n2) && gb == Some(n2),
            2 => r1.is_none() && r2.is_none() && ga == Some(n1) && gb == Some(n2),
            _ => false,
        } && idx.contains(&ka)
            && idx.contains(&kb);
        if !coherent {
            seen.entry("lookup-wrong").or_insert(obs.clone());
        }
        let ra = idx.remove(&ka);
        let after = (idx.len(), idx.get(&kb));
        let ok = match len {
            1 => ra == Some(n2) && after == (0, None),
            2 => ra == Some(n1) && after == (1, Some(n2)),
            _ => true,
        };
        if !ok {
            seen.entry("remove-wrong").or_insert(format!("{obs}; remove(a)->{ra:?} then len={} get(b)={:?}", after.0, after.1));
        }
    }
    for (law, obs) in seen {
        out.push(viol(&name, law, &class, vals, format!("documented equality of the key type says a==b is {req}; {obs}")));
    }
    req
}

// ---------------------------------------------------------------------------
// BTreeIndex<K, NodeId>  (any number of keys, inserted in order)
// ---------------------------------------------------------------------------
pub fn btree_index<S: Subject + Ord>(vals: &[Value], out: &mut Vec<Violation>) -> bool {
    let name = format!("BTreeIndex<{}>", S::NAME);
    let Some(keys) = vals.iter().map(S::make).collect::<Option<Vec<S>>>() else { return false };
    let class = tuple_class(vals);
    let idx: BTreeIndex<S, NodeId> = BTreeIndex::new();
    let rets: Vec<Option<NodeId>> = keys.iter().enumerate().map(|(i, k)| idx.insert(k.clone(), NodeId::new(i as u64 + 1))).collect();
    // reference: classes of the documented equality, last writer wins
    let n = vals.len();
    let first_of = |i: usize| (0..=i).find(|&j| S::ref_eq(&vals[j], &vals[i])).unwrap_or(i);
    let last_of = |i: usize| (0..n).rev().find(|&j| S::ref_eq(&vals[j], &vals[i])).unwrap_or(i);
    let want_len = (0..n).filter(|&i| first_of(i) == i).count();
    let len = idx.len();
    let gets: Vec<Option<NodeId>> = keys.iter().map(|k| idx.get(k)).collect();
    let listing = idx.range(..);
    let obs = format!("inserts returned {rets:?}, len={len} (documented equality gives {want_len} distinct keys), get = {gets:?}, keys in order = [{}]", listing.iter().map(|(k, _)| show(&k.back())).collect::<Vec<_>>().join(", "));
    let mut nontrivial = want_len < n;
    if len > want_len {
        out.push(viol(&name, "split-equal", &class, vals, obs.clone()));
    } else if len < want_len {
        out.push(viol(&name, "merged-different", &class, vals, obs.clone()));
    } else {
        let mut ok = listing.len() == len;
        for i in 0..n {
            ok &= gets[i] == Some(NodeId::new(last_of(i) as u64 + 1)) && idx.contains(&keys[i]);
            let prev = (0..i).rev().find(|&j| S::ref_eq(&vals[j], &vals[i]));
            ok &= rets[i] == prev.map(|j| NodeId::new(j as u64 + 1));
        }
        if !ok {
            out.push(viol(&name, "lookup-wrong", &class, vals, obs.clone()));
        }
    }
    // listing strictly increasing and min/max extreme, judged by the documented order
    let ks: Vec<Value> = listing.iter().map(|(k, _)| k.back()).collect();
    let mut ordered = true;
    for w in ks.windows(2) {
        if let Some(c) = S::ref_cmp(&w[0], &w[1]) {
            ordered &= c == Ordering::Less;
            nontrivial = true;
        }
    }
    if let (Some((mn, _)), Some((mx, _))) = (idx.min(), idx.max()) {
        for v in vals {
            ordered &= S::ref_cmp(&mn.back(), v) != Some(Ordering::Greater) && S::ref_cmp(&mx.back(), v) != Some(Ordering::Less);
        }
    }
    if !ordered && len == want_len {
        out.push(viol(&name, "range-order", &class, vals, obs));
    }
    nontrivial
}

// ---------------------------------------------------------------------------
// LpgStore property index (DashMap<HashableValue, set of nodes>)
// ---------------------------------------------------------------------------
pub fn store_index(vals: &[Value], out: &mut Vec<Violation>) -> bool {
    let (a, b) = (&vals[0], &vals[1]);
    let class = pair_class(a, b, false);
    let key = PropertyKey::new("p");
    for mode in ["index-before-set", "index-after-set"] {
        let st = LpgStore::new();
        if mode == "index-before-set" {
            st.create_property_index("p");
        }
        let n1 = st.create_node(&["L"]);
        let n2 = st.create_node(&["L"]);
        st.set_node_property(n1, "p", a.clone());
        st.set_node_property(n2, "p", b.clone());
        if mode == "index-after-set" {
            st.create_property_index("p");
        }
        let check = |st: &LpgStore, stage: &str, out: &mut Vec<Violation>| {
            for probe in [a, b] {
                let mut got = st.find_nodes_by_property("p", probe);
                got.sort();
                let mut want: Vec<NodeId> = [n1, n2].into_iter().filter(|n| st.get_node_property(*n, &key).is_some_and(|x| bits_eq(&x, probe))).collect();
                want.sort();
                if got != want {
                    let law = if got.len() > want.len() { "merged-different" } else { "split-equal" };
                    out.push(viol("LpgStore-property-index", law, &class, vals, format!("{mode}/{stage}: find({}) = {got:?}, nodes holding a bit-identical value = {want:?}", show(probe))));
                }
            }
        };
        check(&st, "after-set", out);
        st.set_node_property(n1, "p", b.clone());
        check(&st, "after-overwrite", out);
    }
    bits_eq(a, b)
}

// ---------------------------------------------------------------------------
// operator plumbing
// ---------------------------------------------------------------------------
struct Mock {
    chunks: Vec<DataChunk>,
    pos: usize,
}
impl Operator for Mock {
    fn next(&mut self) -> OperatorResult {
        if self.pos < self.chunks.len() {
            let c = std::mem::replace(&mut self.chunks[self.pos], DataChunk::empty());
            self.pos += 1;
            Ok(Some(c))
        } else {
            Ok(None)
        }
    }
    fn reset(&mut self) {
        self.pos = 0;
    }
    fn name(&self) -> &'static str {
        "Mock"
    }
}

/// chunk with columns (value: Any, position: Int64), or only the value column
fn chunk_of(rows: &[(Value, i64)], with_pos: bool) -> DataChunk {
    let schema: &[LogicalType] = if with_pos { &[LogicalType::Any, LogicalType::Int64] } else { &[LogicalType::Any] };
    let mut b = DataChunkBuilder::new(schema);
    for (v, i) in rows {
        b.column_mut(0).expect("col").push_value(v.clone());
        if with_pos {
            b.column_mut(1).expect("col").push_int64(*i);
        }
        b.advance_row();
    }
    b.finish()
}
fn mock(vals: &[Value], split: bool, with_pos: bool) -> Box<Mock> {
    let rows: Vec<(Value, i64)> = vals.iter().cloned().zip(0i64..).collect();
    let chunks = if split && rows.len() > 1 { vec![chunk_of(&rows[..1], with_pos), chunk_of(&rows[1..], with_pos)] } else { vec![chunk_of(&rows, with_pos)] };
    Box::new(Mock { chunks, pos: 0 })
}
fn drain(op: &mut dyn Operator) -> Result<Vec<Vec<Value>>, String> {
    let mut rows = vec![];
    while let Some(c) = op.next().map_err(|e| e.to_string())? {
        for r in c.selected_indices() {
            rows.push((0..c.column_count()).map(|k| c.column(k).and_then(|col| col.get_value(r)).unwrap_or(Value::Null)).collect());
        }
    }
    Ok(rows)
}
fn canon_sorted(vs: &[Value]) -> Vec<String> {
    let mut c: Vec<String> = vs.iter().map(|v| enc(v).to_string()).collect();
    c.sort();
    c
}
/// first occurrences under bit identity
fn firsts(vals: &[Value]) -> Vec<Value> {
    let mut f: Vec<Value> = vec![];
    for v in vals {
        if !f.iter().any(|x| bits_eq(x, v)) {
            f.push(v.clone());
        }
    }
    f
}

// ---------------------------------------------------------------------------
// DISTINCT
// ---------------------------------------------------------------------------
pub fn distinct(vals: &[Value], out: &mut Vec<Violation>) -> bool {
    let class = pair_class(&vals[0], &vals[1], true);
    let want = firsts(vals);
    for variant in ["on-columns-one-chunk", "on-columns-two-chunks", "all-columns"] {
        let r = vcore::catch(|| {
            let mut op = match variant {
                "all-columns" => DistinctOperator::new(mock(vals, false, false), vec![LogicalType::Any]),
                _ => DistinctOperator::on_columns(mock(vals, variant == "on-columns-two-chunks", true), vec![0], vec![LogicalType::Any, LogicalType::Int64]),
            };
            drain(&mut op)
        });
        let rows = match r {
            Ok(Ok(r)) => r,
            Ok(Err(e)) => {
                out.push(viol("DISTINCT", "error", &class, vals, format!("{variant}: {e}")));
                continue;
            }
            Err(p) => {
                out.push(viol("DISTINCT", "panic", &class, vals, format!("{variant}: {p}")));
                continue;
            }
        };
        let got: Vec<Value> = rows.iter().map(|r| r[0].clone()).collect();
        let obs = format!("{variant}: {} rows out [{}], {} bit-distinct values in", got.len(), show_all(&got), want.len());
        if got.len() > want.len() {
            out.push(viol("DISTINCT", "split-equal", &class, vals, obs));
        } else if got.len() < want.len() {
            out.push(viol("DISTINCT", "merged-different", &class, vals, obs));
        } else if canon_sorted(&got) != canon_sorted(&want) {
            out.push(viol("DISTINCT", "row-altered", &class, vals, obs));
        }
    }
    want.len() < vals.len()
}

// ---------------------------------------------------------------------------
// GROUP BY (HashAggregateOperator) and aggregate DISTINCT (SimpleAggregateOperator)
// ---------------------------------------------------------------------------
pub fn group_by(vals: &[Value], out: &mut Vec<Violation>) -> bool {
    let class = pair_class(&vals[0], &vals[1], true);
    let want = firsts(vals);
    let want_counts: Vec<i64> = want.iter().map(|w| vals.iter().filter(|v| bits_eq(v, w)).count() as i64).collect();
    for split in [false, true] {
        let r = vcore::catch(|| {
            let mut op = HashAggregateOperator::new(mock(vals, split, true), vec![0], vec![AggregateExpr::count_star()], vec![LogicalType::Any, LogicalType::Int64]);
            drain(&mut op)
        });
        let rows = match r {
            Ok(Ok(r)) => r,
            Ok(Err(e)) => {
                out.push(viol("GROUP-BY", "error", &class, vals, e));
                continue;
            }
            Err(p) => {
                out.push(viol("GROUP-BY", "panic", &class, vals, p));
                continue;
            }
        };
        let obs = format!("{} groups out [{}], {} bit-distinct keys in", rows.len(), rows.iter().map(|r| format!("{} x{}", show(&r[0]), show(&r[1]))).collect::<Vec<_>>().join("; "), want.len());
        if rows.len() > want.len() {
            out.push(viol("GROUP-BY", "split-equal", &class, vals, obs));
        } else if rows.len() < want.len() {
            out.push(viol("GROUP-BY", "merged-different", &class, vals, obs));
        } else {
            let mut gc: Vec<i64> = rows.iter().map(|r| r[1].as_int64().unwrap_or(-1)).collect();
            let mut wc = want_counts.clone();
            gc.sort();
            wc.sort();
            if gc != wc {
                out.push(viol("GROUP-BY", "count-wrong", &class, vals, obs.clone()));
            }
            // every input key must be handed back bit-identically
            for w in &want {
                if !rows.iter().any(|r| bits_eq(&r[0], w)) {
                    out.push(viol("GROUP-BY", "key-altered", kind(w), vals, format!("group key {} is not among the returned keys; {obs}", show(w))));
                }
            }
        }
    }
    want.len() < vals.len()
}

pub fn agg_distinct(vals: &[Value], out: &mut Vec<Violation>) -> bool {
    let class = pair_class(&vals[0], &vals[1], true);
    let nonnull: Vec<Value> = vals.iter().filter(|v| !v.is_null()).cloned().collect();
    let want = firsts(&nonnull);
    let r = vcore::catch(|| {
        let mut op = SimpleAggregateOperator::new(mock(vals, false, true), vec![AggregateExpr::count(0).with_distinct(), AggregateExpr::collect(0).with_distinct()], vec![LogicalType::Int64, LogicalType::Any]);
        drain(&mut op)
    });
    let rows = match r {
        Ok(Ok(r)) if r.len() == 1 && r[0].len() == 2 => r,
        Ok(Ok(r)) => {
            out.push(viol("aggregate-DISTINCT", "error", &class, vals, format!("{} rows returned", r.len())));
            return false;
        }
        Ok(Err(e)) => {
            out.push(viol("aggregate-DISTINCT", "error", &class, vals, e));
            return false;
        }
        Err(p) => {
            out.push(viol("aggregate-DISTINCT", "panic", &class, vals, p));
            return false;
        }
    };
    let cnt = rows[0][0].as_int64().unwrap_or(-1);
    let coll: Vec<Value> = rows[0][1].as_list().map(|l| l.to_vec()).unwrap_or_default();
    let obs = format!("count(DISTINCT)={cnt}, collect(DISTINCT)=[{}], {} bit-distinct non-null values in", show_all(&coll), want.len());
    let w = want.len() as i64;
    if cnt > w || coll.len() as i64 > w {
        out.push(viol("aggregate-DISTINCT", "split-equal", &class, vals, obs));
    } else if cnt < w || (coll.len() as i64) < w {
        out.push(viol("aggregate-DISTINCT", "merged-different", &class, vals, obs));
    } else if canon_sorted(&coll) != canon_sorted(&want) {
        out.push(viol("aggregate-DISTINCT", "row-altered", &class, vals, obs));
    }
    want.len() < nonnull.len()
}

// ---------------------------------------------------------------------------
// sort
// ---------------------------------------------------------------------------
/// Equality used for the sort operator: the documented equality of the orderable wrapper
/// for the values it accepts, bit identity otherwise.
pub fn sort_eq(a: &Value, b: &Value) -> bool {
    match ref_ord_cmp(a, b) {
        Some(c) => c == Ordering::Equal,
        None => bits_eq(a, b),
    }
}
fn sort_class(a: &Value, b: &Value) -> String {
    let numeric = |v: &Value| matches!(v, Value::Int64(_) | Value::Float64(_));
    if kind(a) != kind(b) && !(numeric(a) && numeric(b)) { "cross-type".to_string() } else { pair_class(a, b, false) }
}
/// class of an input longer than three rows: special features, else cross-type, else the variant
fn long_class(vals: &[Value]) -> String {
    if let Some(f) = features(vals) {
        return format!("long:{f}");
    }
    let mut kinds: Vec<&str> = vals.iter().filter(|v| !v.is_null()).map(|v| if matches!(v, Value::Int64(_) | Value::Float64(_)) { "number" } else { kind(v) }).collect();
    kinds.sort();
    kinds.dedup();
    if kinds.len() > 1 { "long:cross-type".to_string() } else { format!("long:{}", kinds.first().copied().unwrap_or("null")) }
}
/// class of a separation (equal values e1, e2 with a different value x between them)
fn separation_class(e1: &Value, x: &Value, e2: &Value) -> String {
    let c = sort_class(e1, x);
    if c == "cross-type" {
        return c;
    }
    features(&[e1.clone(), x.clone(), e2.clone()]).unwrap_or(c)
}

pub fn run_sort(vals: &[Value], descending: bool) -> Result<Vec<Vec<Value>>, String> {
    match vcore::catch(|| {
        let key = if descending { SortKey::descending(0) } else { SortKey::ascending(0) };
        let mut op = SortOperator::new(mock(vals, false, true), vec![key], vec![LogicalType::Any, LogicalType::Int64]);
        drain(&mut op)
    }) {
        Ok(r) => r,
        Err(p) => Err(format!("panic: {p}")),
    }
}

/// A sort must hand back the same rows and keep equal values together.
pub fn sort(vals: &[Value], out: &mut Vec<Violation>) -> bool {
    let mut premise = false;
    for descending in [false, true] {
        let dir = if descending { "desc" } else { "asc" };
        let rows = match run_sort(vals, descending) {
            Ok(r) => r,
            Err(e) => {
                let law = if e.starts_with("panic") { "panic" } else { "error" };
                out.push(viol("sort", law, &if vals.len() > 3 { long_class(vals) } else { tuple_class(vals) }, vals, format!("{dir}: {e}")));
                continue;
            }
        };
        let got: Vec<Value> = rows.iter().map(|r| r[0].clone()).collect();
        // same rows: (value, original position) multiset preserved
        let mut gp: Vec<String> = rows.iter().map(|r| format!("{}@{}", enc(&r[0]), show(&r[1]))).collect();
        let mut wp: Vec<String> = vals.iter().zip(0i64..).map(|(v, i)| format!("{}@{}", enc(v), show(&Value::Int64(i)))).collect();
        gp.sort();
        wp.sort();
        if gp != wp {
            out.push(viol("sort", "rows-changed", &if vals.len() > 3 { long_class(vals) } else { tuple_class(vals) }, vals, format!("{dir}: output [{}]", show_all(&got))));
            continue;
        }
        // equal values stay adjacent
        'scan: for p in 0..got.len() {
            for r in (p + 2)..got.len() {
                if !sort_eq(&got[p], &got[r]) {
                    continue;
                }
                premise = true;
                for q in (p + 1)..r {
                    if !sort_eq(&got[p], &got[q]) {
                        out.push(viol(
                            "sort",
                            "equal-separated",
                            &if vals.len() > 3 { long_class(vals) } else { separation_class(&got[p], &got[q], &got[r]) },
                            vals,
                            format!("{dir}: output [{}]: equal values at positions {p} and {r} are separated by a different value at {q}", show_all(&got)),
                        ));
                        break 'scan;
                    }
                }
            }
        }
    }
    premise
}

/// Pairs the documented order of the orderable wrapper orders strictly (a < b) must come out
/// of the sort operator in that order (ascending) / the opposite order (descending).  Verdict only
/// where no convention is involved: same variant or Int64/Float64, no NaN.  Everything else
/// (where NaN sorts, how different variants interleave) is returned as information.
pub fn sort_order(vals: &[Value], out: &mut Vec<Violation>) -> Option<String> {
    let (a, b) = (&vals[0], &vals[1]);
    if ref_ord_cmp(a, b) != Some(Ordering::Less) {
        return None;
    }
    let is_nan = |v: &Value| matches!(v, Value::Float64(f) if f.is_nan());
    let verdict = sort_class(a, b) != "cross-type" && !is_nan(a) && !is_nan(b);
    let mut info = None;
    for descending in [false, true] {
        // feed the pair in the wrong order for the requested direction
        let input = if descending { [a.clone(), b.clone()] } else { [b.clone(), a.clone()] };
        let Ok(rows) = run_sort(&input, descending) else { continue };
        if rows.len() != 2 {
            continue;
        }
        let first_want = if descending { b } else { a };
        if !bits_eq(&rows[0][0], first_want) {
            if verdict {
                out.push(viol("sort", "unsorted", &pair_class(a, b, false), vals, format!("{}: input [{}] came out as [{}, {}] although a < b", if descending { "desc" } else { "asc" }, show_all(&input), show(&rows[0][0]), show(&rows[1][0]))));
            } else {
                info = Some(if sort_class(a, b) == "cross-type" { "cross-type".to_string() } else { "nan-position".to_string() });
            }
        }
    }
    info
}

/// Replay entry.
pub fn check_case(container: &str, vals: &[Value]) -> Vec<Violation> {
    use grafeo_common::types::{HashableValue, OrderableValue, OrderedFloat64};
    use grafeo_core::index::btree::OrderedFloat as BtOrderedFloat;
    let mut out = vec![];
    match container {
        "HashIndex<HashableValue>" => drop(hash_index::<HashableValue>(vals, &mut out)),
        "HashIndex<OrderableValue>" => drop(hash_index::<OrderableValue>(vals, &mut out)),
        "HashIndex<OrderedFloat64>" => drop(hash_index::<OrderedFloat64>(vals, &mut out)),
        "BTreeIndex<OrderableValue>" => drop(btree_index::<OrderableValue>(vals, &mut out)),
        "BTreeIndex<OrderedFloat64>" => drop(btree_index::<OrderedFloat64>(vals, &mut out)),
        "BTreeIndex<btree::OrderedFloat>" => drop(btree_index::<BtOrderedFloat>(vals, &mut out)),
        "LpgStore-property-index" => drop(store_index(vals, &mut out)),
        "DISTINCT" => drop(distinct(vals, &mut out)),
        "GROUP-BY" => drop(group_by(vals, &mut out)),
        "aggregate-DISTINCT" => drop(agg_distinct(vals, &mut out)),
        "sort" if vals.len() == 2 => drop(sort_order(vals, &mut out)),
        "sort" => drop(sort(vals, &mut out)),
        _ => vcore::machinery_failure("unknown container in replay case"),
    }
    out
}
