//! Round trips through every serialisation the Rust crates apply to a Value.
use crate::vals::*;
use grafeo_adapters::storage::wal::{WalManager, WalRecord, WalRecovery};
use grafeo_common::types::{EdgeId, NodeId, PropertyKey, TxId, Value};
use grafeo_core::execution::spill::{ExternalSort, SortKey as ESortKey, SpillManager, deserialize_row, deserialize_value, serialize_row, serialize_value};
use grafeo_core::graph::lpg::LpgStore;
use grafeo_engine::GrafeoDB;
use serde_json::json;
use std::collections::BTreeMap;
use std::path::PathBuf;
use std::sync::Arc;
use std::sync::atomic::{AtomicUsize, Ordering as AO};
use vcore::{Report, Violation};

pub const PATHS: &[&str] = &["value-bincode", "spill-value", "spill-row", "spill-file", "lpg-store", "wal-record", "wal-db-reopen", "snapshot", "db-save-open"];

static SEQ: AtomicUsize = AtomicUsize::new(0);
fn scratch(tag: &str) -> PathBuf {
    vcore::scratch_dir(&format!("c16-{tag}-{}", SEQ.fetch_add(1, AO::Relaxed)))
}

type Rt = Vec<Result<Value, String>>;
fn es<E: std::fmt::Display>(e: E) -> String {
    e.to_string()
}

fn prop(m: &BTreeMap<PropertyKey, Value>) -> Result<Value, String> {
    m.get(&PropertyKey::new("p")).cloned().ok_or_else(|| "property missing after the round trip".to_string())
}

/// both copies (node property, edge property) must agree with the original; return the one that differs if any
fn both(orig: &Value, n: Result<Value, String>, e: Result<Value, String>) -> Result<Value, String> {
    match (n, e) {
        (Ok(x), Ok(y)) => Ok(if bits_eq(&x, orig) { y } else { x }),
        (Err(x), _) => Err(format!("node property: {x}")),
        (_, Err(y)) => Err(format!("edge property: {y}")),
    }
}

fn populate(db: &GrafeoDB, vals: &[Value]) -> Vec<(NodeId, EdgeId)> {
    vals.iter()
        .map(|v| {
            let n = db.create_node(&["L"]);
            db.set_node_property(n, "p", v.clone());
            let e = db.create_edge(n, n, "E");
            db.set_edge_property(e, "p", v.clone());
            (n, e)
        })
        .collect()
}
fn read_back(db: &GrafeoDB, ids: &[(NodeId, EdgeId)], vals: &[Value]) -> Rt {
    ids.iter()
        .zip(vals)
        .map(|((n, e), v)| {
            let nv = db.get_node(*n).ok_or_else(|| "node missing".to_string()).and_then(|x| prop(&x.properties));
            let ev = db.get_edge(*e).ok_or_else(|| "edge missing".to_string()).and_then(|x| prop(&x.properties));
            both(v, nv, ev)
        })
        .collect()
}

/// Run `vals` through one serialisation path; one result per value.
pub fn roundtrip(path: &str, vals: &[Value]) -> Result<Rt, String> {
    match path {
        "value-bincode" => Ok(vals.iter().map(|v| Value::deserialize(&v.serialize()).map_err(es)).collect()),
        "spill-value" => Ok(vals
            .iter()
            .map(|v| {
                let mut buf = vec![];
                let n = serialize_value(v, &mut buf).map_err(es)?;
                if n != buf.len() {
                    return Err(format!("serialize_value reported {n} bytes but wrote {}", buf.len()));
                }
                let mut r = &buf[..];
                let out = deserialize_value(&mut r).map_err(es)?;
                if !r.is_empty() {
                    return Err(format!("{} trailing bytes not consumed by deserialize_value", r.len()));
                }
                Ok(out)
            })
            .collect()),
        "spill-row" => {
            // the whole batch as one row, plus every value as a 2-column row
            let mut buf = vec![];
            let n = serialize_row(vals, &mut buf).map_err(es)?;
            if n != buf.len() {
                return Err(format!("serialize_row reported {n} bytes but wrote {}", buf.len()));
            }
            let row = deserialize_row(&mut &buf[..], vals.len()).map_err(es)?;
            if row.len() != vals.len() {
                return Err(format!("row of {} columns came back with {}", vals.len(), row.len()));
            }
            Ok(row
                .into_iter()
                .zip(vals)
                .map(|(whole, v)| {
                    let mut b = vec![];
                    serialize_row(&[Value::Int64(7), v.clone()], &mut b).map_err(es)?;
                    let mut r = deserialize_row(&mut &b[..], 2).map_err(es)?;
                    let single = r.pop().ok_or("empty row")?;
                    Ok(if bits_eq(&whole, v) { single } else { whole })
                })
                .collect())
        }
        "spill-file" => {
            let dir = scratch("spill");
            let mgr = Arc::new(SpillManager::new(dir.clone()).map_err(es)?);
            let mut x = ExternalSort::new(mgr, 2, vec![ESortKey::ascending(0)]);
            let rows: Vec<Vec<Value>> = vals.iter().enumerate().map(|(i, v)| vec![Value::Int64(i as i64), v.clone()]).collect();
            x.spill_sorted_run(rows).map_err(es)?;
            let out = x.merge_all(vec![]).map_err(es)?;
            x.cleanup();
            let _ = std::fs::remove_dir_all(&dir);
            if out.len() != vals.len() {
                return Err(format!("{} rows spilled, {} read back", vals.len(), out.len()));
            }
            Ok(out.into_iter().map(|mut r| r.pop().ok_or_else(|| "empty row".to_string())).collect())
        }
        "lpg-store" => {
            // baseline, no serialisation: what the live store hands back
            let st = LpgStore::new();
            Ok(vals
                .iter()
                .map(|v| {
                    let n = st.create_node(&["L"]);
                    st.set_node_property(n, "p", v.clone());
                    let e = st.create_edge(n, n, "E");
                    st.set_edge_property(e, "p", v.clone());
                    let nv = st.get_node(n).ok_or_else(|| "node missing".to_string()).and_then(|x| prop(&x.properties));
                    let ev = st.get_edge(e).ok_or_else(|| "edge missing".to_string()).and_then(|x| prop(&x.properties));
                    both(v, nv, ev)
                })
                .collect())
        }
        "wal-record" => {
            let dir = scratch("wal");
            {
                let wal = WalManager::open(&dir).map_err(es)?;
                for (i, v) in vals.iter().enumerate() {
                    wal.log(&WalRecord::SetNodeProperty { id: NodeId::new(i as u64), key: format!("n{i}"), value: v.clone() }).map_err(es)?;
                    wal.log(&WalRecord::SetEdgeProperty { id: EdgeId::new(i as u64), key: format!("e{i}"), value: v.clone() }).map_err(es)?;
                }
                wal.log(&WalRecord::TxCommit { tx_id: TxId::new(1) }).map_err(es)?;
                wal.sync().map_err(es)?;
            }
            let recs = WalRecovery::new(&dir).recover().map_err(es)?;
            let _ = std::fs::remove_dir_all(&dir);
            let mut got: BTreeMap<String, (u64, Value)> = BTreeMap::new();
            for r in recs {
                match r {
                    WalRecord::SetNodeProperty { id, key, value } => {
                        got.insert(key, (id.as_u64(), value));
                    }
                    WalRecord::SetEdgeProperty { id, key, value } => {
                        got.insert(key, (id.as_u64(), value));
                    }
                    _ => {}
                }
            }
            Ok(vals
                .iter()
                .enumerate()
                .map(|(i, v)| {
                    let f = |k: String| match got.get(&k) {
                        Some((id, x)) if *id == i as u64 => Ok(x.clone()),
                        Some((id, _)) => Err(format!("record {k} recovered with id {id}")),
                        None => Err(format!("record {k} not recovered")),
                    };
                    both(v, f(format!("n{i}")), f(format!("e{i}")))
                })
                .collect())
        }
        "wal-db-reopen" => {
            let dir = scratch("db");
            let ids = {
                let db = GrafeoDB::open(&dir).map_err(es)?;
                let ids = populate(&db, vals);
                db.close().map_err(es)?;
                ids
            };
            let db = GrafeoDB::open(&dir).map_err(es)?;
            let out = read_back(&db, &ids, vals);
            let _ = db.close();
            drop(db);
            let _ = std::fs::remove_dir_all(&dir);
            Ok(out)
        }
        "snapshot" => {
            let db = GrafeoDB::new_in_memory();
            let ids = populate(&db, vals);
            let bytes = db.export_snapshot().map_err(es)?;
            let db2 = GrafeoDB::import_snapshot(&bytes).map_err(es)?;
            Ok(read_back(&db2, &ids, vals))
        }
        "db-save-open" => {
            let dir = scratch("save");
            let _ = std::fs::remove_dir_all(&dir); // save() creates it
            let db = GrafeoDB::new_in_memory();
            let ids = populate(&db, vals);
            db.save(&dir).map_err(es)?;
            let db2 = GrafeoDB::open(&dir).map_err(es)?;
            let out = read_back(&db2, &ids, vals);
            let _ = db2.close();
            drop(db2);
            let _ = std::fs::remove_dir_all(&dir);
            Ok(out)
        }
        _ => Err(format!("unknown serialisation path {path}")),
    }
}

fn viol(path: &str, outcome: &str, v: &Value, detail: String) -> Violation {
    Violation::new(
        &[("layer", "serialisation"), ("subject", path), ("law", "roundtrip-bit-identical"), ("outcome", outcome), ("class", &ser_class(v))],
        json!({"check": "ser", "subject": path, "values": [enc(v)]}),
        format!("{path}: {} {detail}", show(v)),
    )
}

fn judge_one(path: &str, v: &Value, r: Result<Value, String>, note: &str, out: &mut Vec<Violation>) {
    match r {
        Ok(x) if bits_eq(&x, v) => {}
        Ok(x) => {
            // is the live store (no serialisation involved) already changing the value?
            let by_store = path != "lpg-store"
                && matches!(path, "wal-db-reopen" | "snapshot" | "db-save-open")
                && matches!(vcore::catch(|| roundtrip("lpg-store", std::slice::from_ref(v))), Ok(Ok(r)) if !matches!(r.first(), Some(Ok(y)) if bits_eq(y, v)));
            out.push(viol(path, if by_store { "altered-by-live-store" } else { "altered" }, v, format!("came back as {}{note}", show(&x))));
        }
        Err(e) => {
            let by_store = matches!(path, "wal-db-reopen" | "snapshot" | "db-save-open")
                && matches!(vcore::catch(|| roundtrip("lpg-store", std::slice::from_ref(v))), Ok(Ok(r)) if matches!(r.first(), Some(Err(_))));
            out.push(viol(path, if by_store { "lost-by-live-store" } else { "error" }, v, format!("failed: {}{note}", vcore::truncate(&e, 160))));
        }
    }
}

/// Check one batch through one path.  A failing or panicking batch is re-run value by
/// value so that the verdict is attributed to single values (and is replayable alone).
pub fn check_batch(path: &str, vals: &[Value], rep: &mut Report) {
    let mut out = vec![];
    let res = vcore::catch(|| roundtrip(path, vals));
    let clean = matches!(&res, Ok(Ok(r)) if r.len() == vals.len() && r.iter().zip(vals).all(|(x, v)| matches!(x, Ok(y) if bits_eq(y, v))));
    if !clean {
        for v in vals {
            let one = std::slice::from_ref(v);
            match vcore::catch(|| roundtrip(path, one)) {
                Ok(Ok(mut r)) if r.len() == 1 => judge_one(path, v, r.remove(0), "", &mut out),
                Ok(Ok(_)) => out.push(viol(path, "error", v, "wrong number of results".into())),
                Ok(Err(e)) => out.push(viol(path, "error", v, format!("failed: {}", vcore::truncate(&e, 160)))),
                Err(p) => out.push(viol(path, "panic", v, format!("panicked: {}", vcore::truncate(&p, 160)))),
            }
        }
        if out.is_empty() {
            // only the batch fails: report against the batch's first differing value
            match res {
                Ok(Ok(r)) => {
                    for (x, v) in r.into_iter().zip(vals) {
                        judge_one(path, v, x, &format!(" (only inside a batch of {} values)", vals.len()), &mut out);
                    }
                }
                Ok(Err(e)) => out.push(viol(path, "batch-error", &vals[0], format!("batch of {} failed: {}", vals.len(), vcore::truncate(&e, 160)))),
                Err(p) => out.push(viol(path, "batch-panic", &vals[0], format!("batch of {} panicked: {}", vals.len(), vcore::truncate(&p, 160)))),
            }
        }
    }
    for v in vals {
        rep.evaluations += 1;
        if is_boundary(v) {
            rep.nontrivial(&("ser", path, enc(v).to_string()));
        }
    }
    for v in out {
        rep.violation(v);
    }
}

/// Replay entry.
pub fn check_case(path: &str, vals: &[Value]) -> Vec<Violation> {
    let mut rep = Report::new("C16", vcore::Tier::Quick, "exploration");
    check_batch(path, vals, &mut rep);
    rep.violations
}

/// Identifier types (id.rs) and strings carried by log records survive the log.
pub fn check_wal_ids(rep: &mut Report) {
    let xs: [u64; 12] = [0, 1, 250, 251, 65535, 65536, u32::MAX as u64, 1 << 32, 1 << 63, u64::MAX - 1, u64::MAX, 0x0102_0304_0506_0708];
    let strs = ["", "a", "é", "a\0", "\u{10FFFF}"];
    let r = vcore::catch(|| -> Result<Vec<String>, String> {
        let dir = scratch("walids");
        let mut want = vec![];
        {
            let wal = WalManager::open(&dir).map_err(es)?;
            for (i, x) in xs.iter().enumerate() {
                let st = strs[i % strs.len()];
                let recs = vec![
                    WalRecord::CreateNode { id: NodeId::new(*x), labels: vec![st.to_string(), "L".into()] },
                    WalRecord::CreateEdge { id: EdgeId::new(*x), src: NodeId::new(x ^ 1), dst: NodeId::new(!*x), edge_type: st.to_string() },
                    WalRecord::AddNodeLabel { id: NodeId::new(*x), label: st.to_string() },
                    WalRecord::RemoveNodeLabel { id: NodeId::new(*x), label: st.to_string() },
                    WalRecord::SetNodeProperty { id: NodeId::new(*x), key: st.to_string(), value: Value::Int64(*x as i64) },
                    WalRecord::DeleteEdge { id: EdgeId::new(*x) },
                    WalRecord::DeleteNode { id: NodeId::new(*x) },
                    WalRecord::TxCommit { tx_id: TxId::new(*x) },
                ];
                for r in recs {
                    wal.log(&r).map_err(es)?;
                    want.push(format!("{r:?}"));
                }
            }
            wal.sync().map_err(es)?;
        }
        let got: Vec<String> = WalRecovery::new(&dir).recover().map_err(es)?.iter().map(|r| format!("{r:?}")).collect();
        let _ = std::fs::remove_dir_all(&dir);
        let mut bad = vec![];
        if got.len() != want.len() {
            bad.push(format!("{} records logged, {} recovered", want.len(), got.len()));
        }
        for (w, g) in want.iter().zip(&got) {
            if w != g {
                bad.push(format!("logged {w} recovered {g}"));
            }
        }
        Ok(bad)
    });
    rep.evaluations += (xs.len() * 8) as u64;
    rep.nontrivial(&("walids", xs.len()));
    let bad = match r {
        Ok(Ok(b)) => b,
        Ok(Err(e)) => vec![format!("failed: {e}")],
        Err(p) => vec![format!("panicked: {p}")],
    };
    for b in bad {
        rep.violation(Violation::new(
            &[("layer", "serialisation"), ("subject", "wal-record"), ("law", "roundtrip-bit-identical"), ("outcome", "altered"), ("class", "ids-and-strings")],
            json!({"check": "walids"}),
            b,
        ));
    }
}

/// Information only: what serde_json does to the derive(Serialize) form of Value.  The JSON
/// conversions the bindings use live in crates/bindings/* which are not dependencies here.
pub fn json_info(vals: &[Value]) -> serde_json::Value {
    let (mut ok, mut altered, mut failed) = (0u64, 0u64, BTreeMap::<String, u64>::new());
    for v in vals {
        let r = serde_json::to_string(v).map_err(es).and_then(|t| serde_json::from_str::<Value>(&t).map_err(es));
        match r {
            Ok(x) if bits_eq(&x, v) => ok += 1,
            Ok(_) => altered += 1,
            Err(_) => *failed.entry(ser_class(v)).or_default() += 1,
        }
    }
    json!({"note": "informational, no verdict: serde_json over derive(Serialize) of Value is used only by unit tests in the dependency crates", "identical": ok, "altered": altered, "failed_by_class": failed})
}
