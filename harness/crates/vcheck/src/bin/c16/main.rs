//! C16 — values compare, hash, order and serialise consistently (DESIGN.md §3/C16, engine E3 ENUM).
//!
//! Bounded-exhaustive: every single, ordered pair and ordered triple of an explicit
//! boundary alphabet V is pushed through the real wrapper types (laws), every value of
//! V plus a round-trip sweep R through every serialisation the Rust crates apply, and
//! every pair (sort: every triple) through the real index / operator containers.
mod cont;
mod laws;
mod ser;
mod vals;

use grafeo_common::types::{HashableValue, OrderableValue, OrderedFloat64, Value};
use grafeo_core::index::btree::OrderedFloat as BtOrderedFloat;
use laws::Subject;
use serde_json::json;
use std::collections::BTreeMap;
use vals::*;
use vcore::{Report, Violation};

fn main() {
    std::process::exit(run(vcheck::entry()));
}

fn replay(case: &serde_json::Value) -> Vec<Violation> {
    let vals: Vec<Value> = case["values"].as_array().map(|a| a.iter().map(dec).collect()).unwrap_or_default();
    let subject = case["subject"].as_str().unwrap_or("");
    match case["check"].as_str().unwrap_or("") {
        "law" => match subject {
            "HashableValue" => laws::laws_of::<HashableValue>(&vals),
            "OrderableValue" => laws::laws_of::<OrderableValue>(&vals),
            "OrderedFloat64" => laws::laws_of::<OrderedFloat64>(&vals),
            "btree::OrderedFloat" => laws::laws_of::<BtOrderedFloat>(&vals),
            _ => vcore::machinery_failure("unknown wrapper in replay case"),
        },
        "ser" => ser::check_case(subject, &vals),
        "container" => cont::check_case(subject, &vals),
        "walids" => {
            let mut r = Report::new("C16", vcore::Tier::Quick, "exploration");
            ser::check_wal_ids(&mut r);
            r.violations
        }
        _ => vcore::machinery_failure("unknown check in replay case"),
    }
}

/// Laws of one wrapper over all singles, ordered pairs and ordered triples whose first element is V[i].
fn law_shard<S: Subject>(v: &[Value], ws: &[Option<S>], i: usize, rep: &mut Report) {
    let Some(a) = &ws[i] else { return };
    let mut out = vec![];
    rep.evaluations += 1;
    laws::laws::<S>(&v[i..=i], &[a], &mut out);
    for j in 0..v.len() {
        let Some(b) = &ws[j] else { continue };
        rep.evaluations += 1;
        let pv = [v[i].clone(), v[j].clone()];
        if laws::laws::<S>(&pv, &[a, b], &mut out) && i != j {
            rep.nontrivial(&("law2", S::NAME, i, j));
        }
        let ab = a.eq_(b);
        for k in 0..v.len() {
            let Some(c) = &ws[k] else { continue };
            rep.evaluations += 1;
            // fast path: nothing to build unless a premise can hold or an order is involved
            if !S::HAS_ORD && !ab {
                continue;
            }
            let tv = [v[i].clone(), v[j].clone(), v[k].clone()];
            if laws::laws::<S>(&tv, &[a, b, c], &mut out) && !(i == j && j == k) {
                rep.nontrivial(&("law3", S::NAME, i, j, k));
            }
        }
    }
    for x in out {
        rep.violation(x);
    }
}

fn run(args: vcore::Args) -> i32 {
    if let Some(p) = args.replay.as_deref() {
        let case = vcore::read_replay_case(p);
        let (v1, v2) = (replay(&case), replay(&case));
        let s1: Vec<String> = v1.iter().map(|v| v.sig_string()).collect();
        let s2: Vec<String> = v2.iter().map(|v| v.sig_string()).collect();
        if s1 != s2 {
            vcore::machinery_failure("replaying the same case twice gave different observations");
        }
        return vcheck::replay_report("C16", v1);
    }
    let tier = args.tier;
    let mut rep = Report::new("C16", tier, "exploration");
    rep.max_samples = 8;
    rep.rule = "alphabet V of boundary values (all Value variants; ints around 2^53 and MIN/MAX; floats +-0, inf, two NaN payloads, subnormal, 2^53, 2^63; strings empty/non-ASCII/NUL; bytes, timestamps, vectors, lists/maps to depth 2). Laws: every single, ordered pair and ordered triple of V on HashableValue, OrderableValue, OrderedFloat64 and index::btree::OrderedFloat (values the constructor refuses are skipped). Round trips: every value of V plus sweep R (i64 +-2^k+-1, f64 exponent/sign sweep, length-prefix boundaries, f32 sweep, depth-8 nesting) through Value::serialize, spill value/row/file, WAL records, WAL replay on reopen, snapshot export/import, save/open. Containers: every ordered pair of V through HashIndex, BTreeIndex (also all triples of orderable values), the store property index, DISTINCT, GROUP BY, aggregate DISTINCT; every ordered triple of orderable-or-null values through the sort operator. A case is distinct by its index tuple and non-trivial when an equality premise holds between different alphabet entries (laws, containers) or the value is a boundary value (round trips).".into();

    let v = alphabet(tier);
    let r_extra = roundtrip_extra(tier);
    let n = v.len();
    let idx: Vec<usize> = (0..n).collect();

    // ---- A. wrapper laws -------------------------------------------------
    let hv: Vec<Option<HashableValue>> = v.iter().map(HashableValue::make).collect();
    let ov: Vec<Option<OrderableValue>> = v.iter().map(OrderableValue::make).collect();
    let fv64: Vec<Option<OrderedFloat64>> = v.iter().map(OrderedFloat64::make).collect();
    let bf: Vec<Option<BtOrderedFloat>> = v.iter().map(BtOrderedFloat::make).collect();
    let shards = vcore::par_map(&idx, vcore::cores(), |_, &i| {
        let mut r = Report::new("C16", tier, "exploration");
        law_shard(&v, &hv, i, &mut r);
        law_shard(&v, &ov, i, &mut r);
        law_shard(&v, &fv64, i, &mut r);
        law_shard(&v, &bf, i, &mut r);
        r
    });
    for s in shards {
        rep.merge(s);
    }
    let law_evals = rep.evaluations;

    // ---- B. serialisations -------------------------------------------------
    let mut all: Vec<Value> = v.clone();
    all.extend(r_extra.iter().cloned());
    let mut jobs: Vec<(&str, Vec<Value>)> = vec![];
    for p in ser::PATHS {
        for c in all.chunks(2048) {
            jobs.push((p, c.to_vec()));
        }
    }
    let shards = vcore::par_map(&jobs, vcore::cores(), |_, (p, c)| {
        let mut r = Report::new("C16", tier, "exploration");
        ser::check_batch(p, c, &mut r);
        r
    });
    for s in shards {
        rep.merge(s);
    }
    ser::check_wal_ids(&mut rep);
    let ser_evals = rep.evaluations - law_evals;
    rep.set("json", ser::json_info(&all));

    // ---- C. containers -------------------------------------------------
    let ord_idx: Vec<usize> = (0..n).filter(|&i| orderable_accepts(&v[i])).collect();
    let sort_idx: Vec<usize> = (0..n).filter(|&i| orderable_accepts(&v[i]) || v[i].is_null()).collect();
    let shards = vcore::par_map(&idx, vcore::cores(), |_, &i| {
        let mut r = Report::new("C16", tier, "exploration");
        let mut out = vec![];
        let mut info: BTreeMap<String, u64> = BTreeMap::new();
        for j in 0..n {
            let pv = [v[i].clone(), v[j].clone()];
            let mut nt = false;
            let mut ev = 0;
            macro_rules! go {
                ($e:expr) => {{
                    ev += 1;
                    nt |= $e;
                }};
            }
            go!(cont::hash_index::<HashableValue>(&pv, &mut out));
            go!(cont::store_index(&pv, &mut out));
            go!(cont::distinct(&pv, &mut out));
            go!(cont::group_by(&pv, &mut out));
            go!(cont::agg_distinct(&pv, &mut out));
            if orderable_accepts(&v[i]) && orderable_accepts(&v[j]) {
                go!(cont::hash_index::<OrderableValue>(&pv, &mut out));
                go!(cont::btree_index::<OrderableValue>(&pv, &mut out));
                ev += 1;
                if let Some(c) = cont::sort_order(&pv, &mut out) {
                    *info.entry(c).or_default() += 1;
                }
            }
            if matches!((&v[i], &v[j]), (Value::Float64(_), Value::Float64(_))) {
                go!(cont::hash_index::<OrderedFloat64>(&pv, &mut out));
                go!(cont::btree_index::<OrderedFloat64>(&pv, &mut out));
                go!(cont::btree_index::<BtOrderedFloat>(&pv, &mut out));
            }
            r.evaluations += ev;
            if nt && i != j {
                r.nontrivial(&("cont2", i, j));
            }
        }
        if ord_idx.contains(&i) {
            for &j in &ord_idx {
                for &k in &ord_idx {
                    let tv = [v[i].clone(), v[j].clone(), v[k].clone()];
                    r.evaluations += 1;
                    if cont::btree_index::<OrderableValue>(&tv, &mut out) && !(i == j && j == k) {
                        r.nontrivial(&("bt3", i, j, k));
                    }
                    if let (Value::Float64(_), Value::Float64(_), Value::Float64(_)) = (&v[i], &v[j], &v[k]) {
                        r.evaluations += 2;
                        cont::btree_index::<OrderedFloat64>(&tv, &mut out);
                        cont::btree_index::<BtOrderedFloat>(&tv, &mut out);
                    }
                }
            }
        }
        if sort_idx.contains(&i) {
            for &j in &sort_idx {
                for &k in &sort_idx {
                    let tv = [v[i].clone(), v[j].clone(), v[k].clone()];
                    r.evaluations += 1;
                    if cont::sort(&tv, &mut out) && !(i == j && j == k) {
                        r.nontrivial(&("sort3", i, j, k));
                    }
                }
            }
        }
        for x in out {
            r.violation(x);
        }
        for (k, c) in info {
            r.add(&format!("sortinfo:{k}"), c);
        }
        r
    });
    for s in shards {
        rep.merge(s);
    }
    // whole sortable alphabet in several rotations (input longer than the insertion-sort threshold)
    let sortable: Vec<Value> = sort_idx.iter().map(|&i| v[i].clone()).collect();
    for rot in 0..sortable.len().min(tier.pick(8, 64)) {
        let mut input = sortable.clone();
        input.rotate_left(rot * sortable.len() / sortable.len().min(tier.pick(8, 64)));
        if rot % 2 == 1 {
            input.reverse();
        }
        let mut out = vec![];
        rep.evaluations += 1;
        cont::sort(&input, &mut out);
        // one violation per law is enough for the long inputs
        out.dedup_by(|a, b| a.sig_string() == b.sig_string());
        for x in out {
            rep.violation(x);
        }
    }
    // 20 distinct descending numbers with one alphabet value in the middle (21 rows: past the
    // insertion-sort threshold of slice::sort_by, where an inconsistent comparator can panic)
    for base_is_float in [false, true] {
        for x in &sortable {
            let mut input: Vec<Value> = (0..20).map(|k| if base_is_float { fv(40.5 - k as f64) } else { Value::Int64(40 - k) }).collect();
            input.insert(10, x.clone());
            let mut out = vec![];
            rep.evaluations += 1;
            if cont::sort(&input, &mut out) {
                rep.nontrivial(&("sort21", base_is_float, enc(x).to_string()));
            }
            out.dedup_by(|a, b| a.sig_string() == b.sig_string());
            for x in out {
                rep.violation(x);
            }
        }
    }
    let cont_evals = rep.evaluations - law_evals - ser_evals;

    // fold the sort information counters into one object
    let mut sortinfo = serde_json::Map::new();
    let keys: Vec<String> = rep.extra.keys().filter(|k| k.starts_with("sortinfo:")).cloned().collect();
    for k in keys {
        if let Some(x) = rep.extra.remove(&k) {
            sortinfo.insert(k["sortinfo:".len()..].to_string(), x);
        }
    }
    rep.set(
        "sort_order_info",
        json!({"note": "informational, no verdict: pairs a<b (documented order of the orderable wrapper) that the sort operator does not put in that order, for the two convention-dependent classes (different variants; position of NaN)", "pairs": sortinfo}),
    );

    rep.set(
        "bounds",
        json!({
            "alphabet_V": n,
            "orderable_subset": ord_idx.len(),
            "sortable_subset": sort_idx.len(),
            "roundtrip_sweep_R": r_extra.len(),
            "serialisation_paths": ser::PATHS,
            "law_evaluations": law_evals,
            "roundtrip_evaluations": ser_evals,
            "container_evaluations": cont_evals,
            "pairs": n * n,
            "triples": n * n * n,
            "hash_index_trials_per_pair": 8,
        }),
    );
    rep.assumptions.push("JSON conversions used by the language bindings (crates/bindings/*) are not dependencies of the harness and are not exercised; serde_json over derive(Serialize) is reported as information only".into());
    rep.assumptions.push("documented semantics used as reference: HashableValue = structural bit identity (value.rs l.442-446); OrderableValue = Bool < numbers (Int64/Float64 by numeric value) < String < Timestamp, NaN greatest and all NaNs equal, -0 == +0 (value.rs l.456-463, 495-498, 658-659); DISTINCT / GROUP BY / aggregate DISTINCT = bit identity (aggregate.rs l.12, keys floats by their bits)".into());
    for i in [0usize, 5, 11, 18, n / 2, n - 1] {
        rep.sample(json!({"value": enc(&v[i.min(n - 1)]), "class": class1(&v[i.min(n - 1)])}));
    }
    rep.sample(json!({"pair": [enc(&Value::Int64(1)), enc(&fv(1.0))], "class": pair_class(&Value::Int64(1), &fv(1.0), false)}));
    rep.sample(json!({"triple": [enc(&Value::Int64(P53)), enc(&fv(9007199254740992.0)), enc(&Value::Int64(P53 + 1))], "class": tuple_class(&[Value::Int64(P53), fv(9007199254740992.0), Value::Int64(P53 + 1)])}));
    rep.finish()
}
