//! Value alphabet, lossless JSON encoding (for replay), value classes, and the
//! harness-side reference semantics (bit identity; exact numeric order).
use grafeo_common::types::{PropertyKey, Timestamp, Value};
use serde_json::{Value as J, json};
use std::cmp::Ordering;
use std::collections::BTreeMap;
use std::sync::Arc;
use vcore::Tier;

pub const NAN1: u64 = 0x7ff8_0000_0000_0000;
pub const NAN2: u64 = 0x7ff8_0000_0000_0001;
pub const NAN_NEG: u64 = 0xfff8_0000_0000_0000;
pub const SNAN: u64 = 0x7ff0_0000_0000_0001;
pub const P53: i64 = 1 << 53;

pub fn fl(bits: u64) -> Value {
    Value::Float64(f64::from_bits(bits))
}
pub fn fv(f: f64) -> Value {
    Value::Float64(f)
}
pub fn s(x: &str) -> Value {
    Value::String(x.into())
}
pub fn by(x: &[u8]) -> Value {
    Value::Bytes(Arc::from(x.to_vec()))
}
pub fn ts(x: i64) -> Value {
    Value::Timestamp(Timestamp::from_micros(x))
}
pub fn vecf(x: &[f32]) -> Value {
    Value::Vector(Arc::from(x.to_vec()))
}
pub fn list(x: Vec<Value>) -> Value {
    Value::List(Arc::from(x))
}
pub fn map(x: Vec<(&str, Value)>) -> Value {
    let mut m = BTreeMap::new();
    for (k, v) in x {
        m.insert(PropertyKey::new(k), v);
    }
    Value::Map(Arc::new(m))
}

/// The pair/triple alphabet V, ordered simple-first so the first witness of a signature is small.
pub fn alphabet(tier: Tier) -> Vec<Value> {
    let thorough = tier == Tier::Thorough;
    let mut v = vec![Value::Null, Value::Bool(false), Value::Bool(true)];
    // integers
    for i in [0i64, 1, -1, P53, P53 + 1, i64::MIN, i64::MAX] {
        v.push(Value::Int64(i));
    }
    if thorough {
        for i in [2i64, P53 - 1, -P53, -P53 - 1, i64::MAX - 1, i64::MIN + 1, 0x3FF0_0000_0000_0000, 1 << 62] {
            v.push(Value::Int64(i));
        }
    }
    // floats: +-0, 1, 2^53, 2^63, +-inf, two NaN payloads, smallest subnormal (bits == 1)
    for f in [0.0f64, -0.0, 1.0, 9007199254740992.0, 9223372036854775808.0, f64::INFINITY, f64::NEG_INFINITY] {
        v.push(fv(f));
    }
    v.push(fl(NAN1));
    v.push(fl(NAN2));
    v.push(fl(1));
    if thorough {
        for f in [0.5f64, 1.5, -1.0, 9007199254740994.0, -9007199254740992.0, -9223372036854775808.0, f64::MAX, f64::MIN_POSITIVE, 1e300] {
            v.push(fv(f));
        }
        v.push(fl(NAN_NEG));
        v.push(fl(SNAN));
    }
    // strings (the last one is the Debug rendering of another alphabet member)
    for x in ["", "a", "é", "a\0"] {
        v.push(s(x));
    }
    v.push(s(&format!("{:?}", ts(0))));
    if thorough {
        for x in ["b", "ab", "A", "1", "1.0", "\u{10FFFF}", "e\u{301}"] {
            v.push(s(x));
        }
        v.push(s(&format!("{:?}", by(&[1, 2, 3]))));
    }
    // bytes (the last two share first byte and length)
    for x in [&[][..], &[0], &[1, 2, 3], &[1, 9, 9]] {
        v.push(by(x));
    }
    if thorough {
        v.push(by(&[255]));
        v.push(by(&[0, 0]));
    }
    // timestamps
    for x in [0i64, i64::MIN, i64::MAX] {
        v.push(ts(x));
    }
    if thorough {
        v.push(ts(1));
        v.push(ts(-1));
    }
    // vectors (the last two share first element and length)
    let nan32 = f32::from_bits(0x7fc0_0000);
    for x in [&[][..], &[0.0f32], &[-0.0], &[nan32], &[1.0, 2.0], &[1.0, 3.0]] {
        v.push(vecf(x));
    }
    if thorough {
        v.push(vecf(&[f32::INFINITY]));
        v.push(vecf(&[f32::from_bits(0x7fc0_0001)]));
        v.push(vecf(&[0.0, 0.0]));
    }
    // lists and maps, depth <= 2, over a sub-alphabet
    let sub: Vec<Value> = vec![
        Value::Null,
        Value::Int64(1),
        fv(1.0),
        fv(0.0),
        fv(-0.0),
        fl(NAN1),
        fl(NAN2),
        s("a"),
        Value::Bool(true),
        by(&[1, 2, 3]),
        ts(0),
        vecf(&[nan32]),
    ];
    let nsub = if thorough { sub.len() } else { 8 };
    v.push(list(vec![]));
    for x in &sub[..nsub] {
        v.push(list(vec![x.clone()]));
    }
    v.push(list(vec![Value::Int64(1), fv(1.0)]));
    if thorough {
        let s4 = [Value::Int64(1), fv(1.0), fl(NAN1), fv(-0.0)];
        for a in &s4 {
            for b in &s4 {
                v.push(list(vec![a.clone(), b.clone()]));
            }
        }
        for x in &sub {
            v.push(list(vec![list(vec![x.clone()])]));
            v.push(list(vec![map(vec![("k", x.clone())])]));
        }
    } else {
        v.push(list(vec![list(vec![])]));
        v.push(list(vec![list(vec![fl(NAN1)])]));
        v.push(list(vec![list(vec![fl(NAN2)])]));
        v.push(list(vec![map(vec![("k", fv(-0.0))])]));
    }
    v.push(map(vec![]));
    let msub = if thorough { sub.len() } else { 7 };
    for x in &sub[1..msub] {
        v.push(map(vec![("k", x.clone())]));
    }
    v.push(map(vec![("j", Value::Int64(1))]));
    v.push(map(vec![("j", Value::Int64(1)), ("k", Value::Int64(1))]));
    v.push(map(vec![("k", list(vec![fl(NAN1)]))]));
    v.push(map(vec![("k", map(vec![("k", fv(-0.0))]))]));
    v.push(map(vec![("é", Value::Null)]));
    if thorough {
        for x in &sub {
            v.push(map(vec![("k", list(vec![x.clone()]))]));
            v.push(map(vec![("k", map(vec![("k", x.clone())]))]));
        }
    }
    v
}

/// Extra values for the round-trip checks only (singles): varint / length-prefix
/// boundaries, i64 power-of-two sweep, f64 and f32 bit-pattern sweeps, deep nesting.
pub fn roundtrip_extra(tier: Tier) -> Vec<Value> {
    let mut v = vec![];
    let mut ints = std::collections::BTreeSet::new();
    for k in 0..=63u32 {
        let p = 1i128 << k;
        for d in [-1i128, 0, 1] {
            for sgn in [1i128, -1] {
                let x = sgn * (p + d);
                if x >= i64::MIN as i128 && x <= i64::MAX as i128 {
                    ints.insert(x as i64);
                }
            }
        }
    }
    for x in [125i64, 126, 250, 251, 252, -125, -126, -127, 65535, 65536] {
        ints.insert(x);
    }
    for i in ints {
        v.push(Value::Int64(i));
        v.push(ts(i));
    }
    // f64 sweep
    let (shift, his): (u32, u64) = tier.pick((52, 1 << 12), (48, 1 << 16));
    let mask = (1u64 << shift) - 1;
    for hi in 0..his {
        for lo in [0u64, 1, mask, 1 << (shift - 1)] {
            v.push(fl((hi << shift) | lo));
        }
    }
    // lengths around the bincode varint boundaries (250/251, 2^16)
    for n in [250usize, 251, 255, 256, 65535, 65536] {
        v.push(s(&"x".repeat(n)));
        v.push(by(&(0..n).map(|i| (i % 251) as u8).collect::<Vec<_>>()));
    }
    v.push(s(&"é".repeat(126)));
    v.push(s("\u{0}\u{7f}\u{80}\u{7ff}\u{800}\u{ffff}\u{10000}\u{10ffff}"));
    // one vector holding an f32 exponent/sign sweep with two mantissas, one long vector
    let mut fs = vec![];
    for h in 0..512u32 {
        for l in [0u32, 1, 0x40_0000] {
            fs.push(f32::from_bits((h << 23) | l));
        }
    }
    v.push(vecf(&fs));
    v.push(vecf(&vec![0.5f32; 251]));
    v.push(list((0..251).map(Value::Int64).collect()));
    let mut m = BTreeMap::new();
    for i in 0..251 {
        m.insert(PropertyKey::new(format!("key{i}")), fl(NAN2));
    }
    v.push(Value::Map(Arc::new(m)));
    // deep nesting (depth 8) of lists and maps around a NaN payload / negative zero
    let mut d = fl(NAN2);
    let mut e = fv(-0.0);
    for _ in 0..8 {
        d = list(vec![d, Value::Null]);
        e = map(vec![("k", e), ("", s("é"))]);
    }
    v.push(d.clone());
    v.push(e.clone());
    v.push(list(vec![d, e]));
    v
}

// ---------------------------------------------------------------------------
// lossless JSON encoding
// ---------------------------------------------------------------------------
pub fn enc(v: &Value) -> J {
    match v {
        Value::Null => J::Null,
        Value::Bool(b) => json!(b),
        Value::Int64(i) => json!({"i": i.to_string()}),
        Value::Float64(f) => json!({"f": format!("{:#018x}", f.to_bits())}),
        Value::String(x) => json!({"s": x.as_str()}),
        Value::Bytes(b) => json!({"b": b.to_vec()}),
        Value::Timestamp(t) => json!({"t": t.as_micros().to_string()}),
        Value::Vector(x) => json!({"v": x.iter().map(|f| format!("{:#010x}", f.to_bits())).collect::<Vec<_>>()}),
        Value::List(l) => json!({"l": l.iter().map(enc).collect::<Vec<_>>()}),
        Value::Map(m) => json!({"m": m.iter().map(|(k, v)| json!([k.as_str(), enc(v)])).collect::<Vec<_>>()}),
    }
}

fn hex(x: &J) -> u64 {
    let t = x.as_str().unwrap_or("0x0");
    u64::from_str_radix(t.trim_start_matches("0x"), 16).unwrap_or_else(|_| vcore::machinery_failure("bad hex in replay value"))
}

pub fn dec(j: &J) -> Value {
    match j {
        J::Null => Value::Null,
        J::Bool(b) => Value::Bool(*b),
        J::Object(o) => {
            let (k, x) = o.iter().next().unwrap_or_else(|| vcore::machinery_failure("empty value object"));
            match k.as_str() {
                "i" => Value::Int64(x.as_str().and_then(|t| t.parse().ok()).unwrap_or_else(|| vcore::machinery_failure("bad int"))),
                "f" => fl(hex(x)),
                "s" => s(x.as_str().unwrap_or("")),
                "b" => by(&x.as_array().map(|a| a.iter().map(|e| e.as_u64().unwrap_or(0) as u8).collect::<Vec<_>>()).unwrap_or_default()),
                "t" => ts(x.as_str().and_then(|t| t.parse().ok()).unwrap_or_else(|| vcore::machinery_failure("bad ts"))),
                "v" => vecf(&x.as_array().map(|a| a.iter().map(|e| f32::from_bits(hex(e) as u32)).collect::<Vec<_>>()).unwrap_or_default()),
                "l" => list(x.as_array().map(|a| a.iter().map(dec).collect()).unwrap_or_default()),
                "m" => {
                    let mut m = BTreeMap::new();
                    for e in x.as_array().cloned().unwrap_or_default() {
                        m.insert(PropertyKey::new(e[0].as_str().unwrap_or("")), dec(&e[1]));
                    }
                    Value::Map(Arc::new(m))
                }
                _ => vcore::machinery_failure("unknown value tag in replay case"),
            }
        }
        _ => vcore::machinery_failure("unparsable value in replay case"),
    }
}

pub fn show(v: &Value) -> String {
    let t = match v {
        Value::Float64(f) => format!("Float64({f:?} bits={:#x})", f.to_bits()),
        Value::Int64(i) => format!("Int64({i})"),
        Value::Timestamp(t) => format!("Timestamp({})", t.as_micros()),
        Value::Null => "Null".into(),
        Value::Bool(b) => format!("Bool({b})"),
        _ => enc(v).to_string(),
    };
    vcore::truncate(&t, 120)
}
pub fn show_all(vs: &[Value]) -> String {
    vs.iter().map(show).collect::<Vec<_>>().join(", ")
}

// ---------------------------------------------------------------------------
// reference semantics
// ---------------------------------------------------------------------------
/// Structural bit identity (documented equality of the hashable wrapper, value.rs l.442-446).
pub fn bits_eq(a: &Value, b: &Value) -> bool {
    match (a, b) {
        (Value::Null, Value::Null) => true,
        (Value::Bool(x), Value::Bool(y)) => x == y,
        (Value::Int64(x), Value::Int64(y)) => x == y,
        (Value::Float64(x), Value::Float64(y)) => x.to_bits() == y.to_bits(),
        (Value::String(x), Value::String(y)) => x.as_bytes() == y.as_bytes(),
        (Value::Bytes(x), Value::Bytes(y)) => x[..] == y[..],
        (Value::Timestamp(x), Value::Timestamp(y)) => x.as_micros() == y.as_micros(),
        (Value::Vector(x), Value::Vector(y)) => x.len() == y.len() && x.iter().zip(y.iter()).all(|(p, q)| p.to_bits() == q.to_bits()),
        (Value::List(x), Value::List(y)) => x.len() == y.len() && x.iter().zip(y.iter()).all(|(p, q)| bits_eq(p, q)),
        (Value::Map(x), Value::Map(y)) => x.len() == y.len() && x.iter().zip(y.iter()).all(|((k1, p), (k2, q))| k1.as_str() == k2.as_str() && bits_eq(p, q)),
        _ => false,
    }
}

/// NaN greatest, all NaNs equal, -0 == +0 (documented for OrderedFloat64).
pub fn cmp_float(x: f64, y: f64) -> Ordering {
    match (x.is_nan(), y.is_nan()) {
        (true, true) => Ordering::Equal,
        (true, false) => Ordering::Greater,
        (false, true) => Ordering::Less,
        _ => x.partial_cmp(&y).unwrap_or(Ordering::Equal),
    }
}

/// Exact mathematical comparison of an i64 with an f64 (NaN greatest).
pub fn cmp_int_float(i: i64, f: f64) -> Ordering {
    if f.is_nan() || f >= 9223372036854775808.0 {
        return Ordering::Less;
    }
    if f < -9223372036854775808.0 {
        return Ordering::Greater;
    }
    let t = f.trunc();
    let ti = t as i64; // exact: t is integral and within [-2^63, 2^63)
    match i.cmp(&ti) {
        Ordering::Equal => {
            let fr = f - t;
            if fr > 0.0 {
                Ordering::Less
            } else if fr < 0.0 {
                Ordering::Greater
            } else {
                Ordering::Equal
            }
        }
        o => o,
    }
}

pub fn orderable_accepts(v: &Value) -> bool {
    matches!(v, Value::Bool(_) | Value::Int64(_) | Value::Float64(_) | Value::String(_) | Value::Timestamp(_))
}

/// Documented order of the orderable wrapper: Bool < numbers (Int64/Float64 compared
/// numerically) < String < Timestamp; None when a value is not accepted by the wrapper.
pub fn ref_ord_cmp(a: &Value, b: &Value) -> Option<Ordering> {
    fn rank(v: &Value) -> Option<u8> {
        Some(match v {
            Value::Bool(_) => 0,
            Value::Int64(_) | Value::Float64(_) => 1,
            Value::String(_) => 3,
            Value::Timestamp(_) => 4,
            _ => return None,
        })
    }
    let (ra, rb) = (rank(a)?, rank(b)?);
    if ra != rb {
        return Some(ra.cmp(&rb));
    }
    Some(match (a, b) {
        (Value::Bool(x), Value::Bool(y)) => x.cmp(y),
        (Value::Int64(x), Value::Int64(y)) => x.cmp(y),
        (Value::Float64(x), Value::Float64(y)) => cmp_float(*x, *y),
        (Value::Int64(x), Value::Float64(y)) => cmp_int_float(*x, *y),
        (Value::Float64(x), Value::Int64(y)) => cmp_int_float(*y, *x).reverse(),
        (Value::String(x), Value::String(y)) => x.as_bytes().cmp(y.as_bytes()),
        (Value::Timestamp(x), Value::Timestamp(y)) => x.as_micros().cmp(&y.as_micros()),
        _ => return None,
    })
}

// ---------------------------------------------------------------------------
// value classes (signature fields)
// ---------------------------------------------------------------------------
fn fclass(f: f64) -> &'static str {
    if f.is_nan() {
        "nan"
    } else if f == 0.0 {
        if f.is_sign_negative() { "neg-zero" } else { "zero" }
    } else if f.is_infinite() {
        "inf"
    } else if f.is_subnormal() {
        "subnormal"
    } else if f.abs() >= 9007199254740992.0 {
        "float-above-2^53"
    } else {
        "float"
    }
}

/// 2 = contains a NaN, 1 = contains a negative zero, 0 = neither (recursively).
fn special(v: &Value) -> u8 {
    match v {
        Value::Float64(f) => {
            if f.is_nan() {
                2
            } else if *f == 0.0 && f.is_sign_negative() {
                1
            } else {
                0
            }
        }
        Value::Vector(x) => x.iter().map(|f| if f.is_nan() { 2 } else if *f == 0.0 && f.is_sign_negative() { 1 } else { 0 }).max().unwrap_or(0),
        Value::List(l) => l.iter().map(special).max().unwrap_or(0),
        Value::Map(m) => m.values().map(special).max().unwrap_or(0),
        _ => 0,
    }
}

pub fn kind(v: &Value) -> &'static str {
    match v {
        Value::Null => "null",
        Value::Bool(_) => "bool",
        Value::Int64(_) => "int",
        Value::Float64(_) => "float64",
        Value::String(_) => "string",
        Value::Bytes(_) => "bytes",
        Value::Timestamp(_) => "timestamp",
        Value::Vector(_) => "vector",
        Value::List(_) => "list",
        Value::Map(_) => "map",
    }
}

/// Class of one value. "int-above-2^53" means |i| >= 2^53.
pub fn class1(v: &Value) -> String {
    let suffix = |v: &Value| match special(v) {
        2 => "-nan",
        1 => "-neg-zero",
        _ => "",
    };
    match v {
        Value::Int64(i) => if i.unsigned_abs() >= P53 as u64 { "int-above-2^53" } else { "int" }.to_string(),
        Value::Float64(f) => fclass(*f).to_string(),
        Value::Vector(_) | Value::List(_) | Value::Map(_) => format!("{}{}", kind(v), suffix(v)),
        _ => kind(v).to_string(),
    }
}

/// Class of a pair. `bits_first`: prefer the "same bit pattern" label for Int64/Float64
/// pairs (used for containers that key floats by their bits).
pub fn pair_class(a: &Value, b: &Value, bits_first: bool) -> String {
    match (a, b) {
        (Value::Float64(x), Value::Float64(y)) => {
            if x.is_nan() && y.is_nan() {
                return if x.to_bits() != y.to_bits() { "nan-payload" } else { "nan-vs-nan" }.to_string();
            }
            if *x == 0.0 && *y == 0.0 && x.is_sign_negative() != y.is_sign_negative() {
                return "neg-zero-vs-zero".to_string();
            }
        }
        (Value::Int64(i), Value::Float64(f)) | (Value::Float64(f), Value::Int64(i)) => {
            let same_bits = f.to_bits() as i64 == *i;
            let exact = cmp_int_float(*i, *f) == Ordering::Equal;
            let lossy = (*i as f64) == *f;
            return if bits_first && same_bits {
                "int-vs-float-same-bits"
            } else if exact {
                "int-vs-float-same-number"
            } else if lossy {
                "int-vs-float-above-2^53"
            } else if same_bits {
                "int-vs-float-same-bits"
            } else if f.is_nan() {
                "int-vs-nan"
            } else {
                "int-vs-float"
            }
            .to_string();
        }
        _ => {}
    }
    if let (Value::Float64(x), Value::Float64(y)) = (a, b) {
        return if x.is_nan() != y.is_nan() { "nan-vs-number" } else { "float-vs-float" }.to_string();
    }
    let (mut x, mut y) = (ckind(a), ckind(b));
    if x > y {
        std::mem::swap(&mut x, &mut y);
    }
    format!("{x}-vs-{y}")
}

/// coarse class of one value inside a pair class: variant name, plus -nan / -neg-zero for containers holding one
fn ckind(v: &Value) -> String {
    match v {
        Value::Float64(_) => "float".to_string(),
        Value::Int64(_) => "int".to_string(),
        _ => class1(v),
    }
}

/// Class of a tuple.  Pairs: see `pair_class`.  Longer tuples: the set of special features
/// present (they name the candidate root causes); plain tuples fall back to the variant names.
pub fn tuple_class(vs: &[Value]) -> String {
    if vs.len() == 2 {
        return pair_class(&vs[0], &vs[1], false);
    }
    if let Some(f) = features(vs) {
        return f;
    }
    let mut c: Vec<String> = vs.iter().map(ckind).collect();
    c.sort();
    c.dedup();
    c.join("/")
}

/// Special features present in a tuple: a NaN, an Int64/Float64 pair that `as f64` makes equal
/// although the numbers differ, both zeros.
pub fn features(vs: &[Value]) -> Option<String> {
    let mut feats: Vec<&str> = vec![];
    if vs.iter().any(|v| matches!(v, Value::Float64(f) if f.is_nan())) {
        feats.push("nan");
    }
    let mut lossy = false;
    for a in vs {
        for b in vs {
            if let (Value::Int64(i), Value::Float64(f)) = (a, b) {
                lossy |= (*i as f64) == *f && cmp_int_float(*i, *f) != Ordering::Equal;
            }
        }
    }
    if lossy {
        feats.push("int-vs-float-above-2^53");
    }
    let z = |neg: bool| vs.iter().any(|v| matches!(v, Value::Float64(f) if *f == 0.0 && f.is_sign_negative() == neg));
    if z(true) && z(false) {
        feats.push("neg-zero-vs-zero");
    }
    if feats.is_empty() { None } else { Some(feats.join("+")) }
}

/// Class used for the round-trip checks (strings refined).
pub fn ser_class(v: &Value) -> String {
    match v {
        Value::String(x) => {
            if x.contains('\0') {
                "string-nul".into()
            } else if !x.is_ascii() {
                "string-non-ascii".into()
            } else if x.len() >= 250 {
                "string-long".into()
            } else {
                "string".into()
            }
        }
        Value::Bytes(b) if b.len() >= 250 => "bytes-long".into(),
        Value::Float64(f) if f.is_nan() && f.to_bits() != NAN1 => "nan-payload".into(),
        _ => class1(v),
    }
}

/// Boundary value (counted as a non-trivial round-trip case).
pub fn is_boundary(v: &Value) -> bool {
    match v {
        Value::Null | Value::Bool(_) => false,
        Value::Int64(i) => i.unsigned_abs() >= 250,
        Value::Timestamp(t) => t.as_micros().unsigned_abs() >= 250,
        Value::Float64(f) => fclass(*f) != "float",
        Value::String(x) => !x.is_ascii() || x.contains('\0') || x.is_empty() || x.len() >= 250,
        Value::Bytes(b) => b.is_empty() || b.len() >= 250,
        _ => true,
    }
}
