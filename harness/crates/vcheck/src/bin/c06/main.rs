//! C06 — a crash at any point loses at most the unsynced tail, and never corrupts
//! (engine CRASH, DESIGN.md §2/E4 and §3/C06).
//!
//! Layers:
//!   database : write histories on a real persistent `GrafeoDB`; crash images from hook H2
//!              (every torn tail at/after the durable length at every io event and operation
//!              boundary, checkpoint temp-file variants, single-bit flips); each image is
//!              opened with the real engine, compared with the reference state of every
//!              prefix of the history, then continued (writes, close, reopen)        -> dbcrash.rs
//!   wal-seam : `WalManager` record histories with tiny `max_log_size`, rotate()/checkpoint()
//!              anywhere; `WalRecovery::recover` on every crash image / bit flip      -> comp.rs

#[path = "shared.rs"]
mod shared;
mod comp;
mod dbcrash;

use serde_json::json;
use shared::seam::allocprobe;
use std::path::PathBuf;
use vcore::Report;

#[global_allocator]
static GLOBAL: allocprobe::Counting = allocprobe::Counting;

fn main() {
    let argv: Vec<String> = std::env::args().skip(1).collect();
    if argv.first().map(|s| s.as_str()) == Some("--worker-recover") {
        let dir = argv.get(1).cloned().unwrap_or_default();
        let cap = argv.get(2).and_then(|s| s.parse().ok()).unwrap_or(0);
        std::process::exit(comp::worker(&dir, cap));
    }
    std::process::exit(run(vcheck::entry()));
}

/// Crash images are opened on a memory-backed file system when there is one (an fsync on the
/// scratch disk costs ~2.5 ms and is serialised by the journal: 400 opens/s for the whole machine);
/// the histories themselves are *recorded* on the real scratch directory.
fn fast_base(tag: &str) -> PathBuf {
    let shm = PathBuf::from("/dev/shm");
    if std::env::var("VERIF_NO_SHM").is_err() && shm.is_dir() {
        // leftovers of killed runs (their process no longer exists)
        if let Ok(rd) = std::fs::read_dir(&shm) {
            for ent in rd.flatten() {
                let name = ent.file_name().to_string_lossy().into_owned();
                if let Some(pid) = name.strip_prefix(&format!("verif-{tag}-"))
                    && !std::path::Path::new(&format!("/proc/{pid}")).exists()
                {
                    let _ = std::fs::remove_dir_all(ent.path());
                }
            }
        }
        let p = shm.join(format!("verif-{}-{}", tag, std::process::id()));
        let _ = std::fs::remove_dir_all(&p);
        if std::fs::create_dir_all(&p).is_ok() {
            return p;
        }
    }
    vcore::scratch_dir(&format!("{tag}-img"))
}

fn run(args: vcore::Args) -> i32 {
    shared::watchdog::start("C06");
    let slow = vcore::scratch_dir("c06");
    let fast = fast_base("c06");
    let code = run_inner(&args, &slow, &fast);
    let _ = std::fs::remove_dir_all(&slow);
    let _ = std::fs::remove_dir_all(&fast);
    code
}

fn run_inner(args: &vcore::Args, slow: &std::path::Path, fast: &std::path::Path) -> i32 {
    if let Some(p) = args.replay.as_deref() {
        let case = vcore::read_replay_case(p);
        let once = |tag: &str| -> Vec<vcore::Violation> {
            let f = fast.join(tag);
            let _ = std::fs::create_dir_all(&f);
            match case["layer"].as_str() {
                Some("database") => dbcrash::replay(&case, slow, &f),
                _ => comp::replay(&case, &f),
            }
        };
        let v1 = once("r1");
        let v2 = once("r2");
        let s1: Vec<String> = v1.iter().map(|v| v.sig_string()).collect();
        let s2: Vec<String> = v2.iter().map(|v| v.sig_string()).collect();
        if s1 != s2 && case["mode"].as_str() != Some("batch") {
            vcore::machinery_failure("replaying the same case twice gave different observations");
        }
        return vcheck::replay_report("C06", v1);
    }
    let mut rep = Report::new("C06", args.tier, "fault_enumeration");
    rep.rule = "a case is one crash image (directory bytes) of one history under one durability mode: a log file cut at one byte length at or after its durable length at one io-event / operation-boundary instant, a checkpoint.meta.tmp / rotated-file presence variant, or one single-bit flip; it is opened by the real engine (database layer: GrafeoDB::open + dump + 3 writes + close + reopen; wal-seam layer: WalRecovery::recover). Distinct = distinct (history, mode, image bytes); images whose files are all empty are not counted as non-trivial".into();
    let only = std::env::var("C06_ONLY").ok();
    let t0 = std::time::Instant::now();
    if only.as_deref().map(|o| o == "db").unwrap_or(true) {
        rep.merge(dbcrash::run(args.tier, slow, fast));
    }
    rep.set("db_layer_wall_s", json!(t0.elapsed().as_secs_f64()));
    let t1 = std::time::Instant::now();
    if only.as_deref().map(|o| o == "seam").unwrap_or(true) {
        rep.merge(comp::run(args.tier, fast));
    }
    rep.set("seam_layer_wall_s", json!(t1.elapsed().as_secs_f64()));
    // confirm in a sacrificial child that the oversized allocation aborts the process when that much memory
    // is not available: the top bit of the first length prefix flipped (a 2 GiB request for a 13-byte log)
    if let Some(i) = rep.violations.iter().position(|v| v.sig.get("kind").map(|k| k == "unbounded-allocation").unwrap_or(false)) {
        let case = json!({"layer": "wal-seam", "durability": "nosync", "max_log_size": "default-64MiB", "history": "d", "image": "flip wal_00000000.log byte 3 bit 7"});
        if let Some(txt) = comp::confirm_abort(&case, fast, 1 << 30) {
            rep.set("abort_confirmation", json!({"case": case, "outcome": txt}));
            rep.violations[i].detail.push_str(&format!(" [worst case: {txt}]"));
        }
    }
    rep.set("scratch", json!({"histories_recorded_on": slow.display().to_string(), "crash_images_opened_on": fast.display().to_string()}));
    rep.assumptions.push("a crash preserves at least the bytes reported durable by the last fsync of each log file (hook H2) and any prefix of the bytes written after it; files other than the damaged one keep their content; rename is atomic".into());
    rep.assumptions.push("Batch (100 ms) mode syncs on elapsed wall time: such syncs are observed through the hook, never predicted".into());
    rep.finish()
}
