//! C06, database layer: crash images of short write histories on a real persistent `GrafeoDB`.
//!
//! Every history *prefix* P is run on its own directory; snapshots (directory image + durable
//! lengths from hook H2) are taken at every io event and at the operation boundary of P's
//! **last** operation (shorter prefixes cover the earlier instants).  Crash images: for every
//! such instant and every log file, every length from the durable length (or, when nothing
//! else changed during the operation, the length the file had before the operation — shorter
//! tails arise identically in the parent prefix) to the current length; presence / absence /
//! torn variants of `checkpoint.meta.tmp`; single-bit flips of the log of the final image.

use crate::shared::*;
use grafeo_common::types::Value;
use grafeo_engine::GrafeoDB;
use serde_json::{Value as J, json};
use std::collections::{BTreeMap, BTreeSet, HashSet};
use std::path::Path;
use vcore::{Report, Violation};

/// Reference dumps: `refs[k]` = state after the first k operations (in-memory replay; ids are deterministic),
/// `micro` = states between the log records of multi-record operations (k, step) that are not op boundaries.
pub struct Refs {
    pub refs: Vec<Dump>,
    pub micro: Vec<(usize, Dump)>,
}

pub fn reference(ops: &[Op]) -> Refs {
    let db = GrafeoDB::new_in_memory();
    let mut s = Slots::default();
    let mut refs = vec![Dump::of(&db)];
    let mut micro = vec![];
    for (k, op) in ops.iter().enumerate() {
        match op {
            Op::Checkpoint | Op::CloseOpen | Op::DropOpen => {}
            Op::CreateNodeProps => {
                let id = db.create_node(&["A"]);
                micro.push((k, Dump::of(&db)));
                db.set_node_property(id, "p", Value::Int64(1));
                micro.push((k, Dump::of(&db)));
                db.set_node_property(id, "q", Value::String("s".into()));
                s.nodes.push(id);
            }
            Op::CreateEdgeProps(a, b) => {
                let id = db.create_edge(s.nodes[*a as usize], s.nodes[*b as usize], "K");
                micro.push((k, Dump::of(&db)));
                db.set_edge_property(id, "w", Value::Int64(1));
                micro.push((k, Dump::of(&db)));
                db.set_edge_property(id, "v", Value::String("s".into()));
                s.edges.push(id);
            }
            Op::DeleteNode(i) => {
                let id = s.nodes[*i as usize];
                // GrafeoDB::delete_node detaches only when the node exists (edges hanging on an already deleted node stay)
                let mut eids: Vec<_> = if db.get_node(id).is_some() { db.iter_edges().filter(|e| e.src == id || e.dst == id).map(|e| e.id).collect() } else { vec![] };
                eids.sort_unstable();
                for e in eids {
                    db.delete_edge(e);
                    micro.push((k, Dump::of(&db)));
                }
                db.delete_node(id);
            }
            other => {
                apply_op(&db, &mut s, other);
            }
        }
        refs.push(Dump::of(&db));
    }
    // micro states equal to an op-boundary state are not "intra-op"
    let set: HashSet<&Dump> = refs.iter().collect();
    micro.retain(|(_, d)| !set.contains(d));
    Refs { refs, micro }
}

#[derive(Clone)]
pub struct DbImage {
    pub image: Image,
    /// prefix length that must survive / prefix length issued
    pub floor: usize,
    pub issued: usize,
    pub floor_source: &'static str,
    pub point: String,
    pub dir_state: &'static str,
    pub how: String,
    pub bitflip: bool,
}

pub struct Recorded {
    pub images: Vec<DbImage>,
    /// the reopen inside the history already lost something (C05-type divergence): (op index, detail)
    pub diverged: Option<(usize, String)>,
    pub syncs: u64,
}

fn log_file_of(img: &Image) -> Option<&String> {
    img.keys().filter(|k| is_log_file(k)).max()
}

fn fully_synced(dir: &Path) -> bool {
    let durable = Recorder::with(|r| r.durable.clone());
    read_image(dir).iter().filter(|(k, _)| is_log_file(k)).all(|(k, b)| durable.get(k).copied().unwrap_or(0) as usize == b.len())
}

/// Runs `ops` on a fresh persistent database in `dir`, recording the instants of the last operation.
pub fn record(dir: &Path, mode: Mode, ops: &[Op], refs: &Refs, bit_flips: Option<bool>) -> Recorded {
    let _ = std::fs::remove_dir_all(dir);
    Recorder::start(dir);
    Recorder::with(|r| r.enabled = false);
    let mut db = Some(open_db(dir, mode).unwrap_or_else(|e| vcore::machinery_failure(&format!("open fresh db: {e}"))));
    let mut slots = Slots::default();
    let mut diverged = None;
    let last = ops.len().saturating_sub(1);
    let unbuffered = matches!(mode, Mode::BatchEach | Mode::Adaptive | Mode::NoSync);
    let mut baseline: Image = Image::new();
    // durable floor established before the last operation: (number of operations that must survive, what made them durable)
    let mut prev_floor: (usize, &'static str) = (0, "none");
    let mut syncs_seen = 0u64;
    let mut syncs_before_last = 0u64;
    let class_of = |op: &Op| -> &'static str {
        match op {
            Op::Checkpoint => "checkpoint",
            Op::CloseOpen | Op::DropOpen => "close",
            _ => "sync",
        }
    };
    for (i, op) in ops.iter().enumerate() {
        Recorder::with(|r| r.op_index = i);
        if i == last {
            baseline = read_image(dir);
            syncs_before_last = Recorder::with(|r| r.syncs);
            Recorder::with(|r| r.enabled = true);
            if ops.len() == 1 {
                // the very first instant (fresh database, nothing issued) belongs to the one-op prefixes
                Recorder::with(|r| r.snapshot("op-boundary-initial"));
            }
        }
        if op.is_reopen() {
            let d = db.take().unwrap();
            if matches!(op, Op::CloseOpen)
                && let Err(e) = d.close()
            {
                vcore::machinery_failure(&format!("close failed: {e}"));
            }
            drop(d);
            if i == last {
                // the crash instants of a reopen op are those of the close; the open itself is checked below
                Recorder::with(|r| {
                    r.snapshot("op-boundary");
                    r.enabled = false
                });
            }
            let d2 = open_db(dir, mode).unwrap_or_else(|e| vcore::machinery_failure(&format!("reopen after clean close failed: {e}")));
            let got = Dump::of(&d2);
            if got != refs.refs[i + 1] && diverged.is_none() {
                diverged = Some((i, diff_text(&refs.refs[i + 1], &got)));
            }
            db = Some(d2);
            if diverged.is_some() {
                break;
            }
        } else {
            apply_op(db.as_ref().unwrap(), &mut slots, op);
            if i == last {
                Recorder::with(|r| r.snapshot("op-boundary"));
            }
        }
        if i < last {
            let s = Recorder::with(|r| r.syncs);
            if s > syncs_seen {
                syncs_seen = s;
                // everything issued before op i is in the synced bytes; op i itself only if nothing was written after its last sync
                prev_floor = (if unbuffered && fully_synced(dir) { i + 1 } else { i }, class_of(op));
            } else if matches!(op, Op::Checkpoint | Op::CloseOpen | Op::DropOpen) {
                // a checkpoint / close that returned Ok promises durability whether or not an fsync was observed
                prev_floor = (i, class_of(op));
            }
        }
    }
    let rec = Recorder::stop().expect("recorder");
    // we are done with the live database: closing it writes to `dir`, which nobody reads any more
    drop(db);
    let mut images = vec![];
    let mut seen = HashSet::new();
    let n_inst = rec.instants.len();
    let final_image = rec.instants.last().map(|i| i.image.clone()).unwrap_or_default();
    for (idx, ins) in rec.instants.iter().enumerate() {
        let is_boundary = ins.tag == "op-boundary";
        let issued = if ins.tag == "op-boundary-initial" { 0 } else { ops.len() };
        let Some(logf) = log_file_of(&ins.image).cloned() else { continue };
        let bytes = &ins.image[&logf];
        let dur = (ins.durable.get(&logf).copied().unwrap_or(0) as usize).min(bytes.len());
        let (floor, floor_source) = if ins.syncs > syncs_before_last {
            // a sync happened during the last operation: everything issued before it is in the synced bytes
            let complete = is_boundary && unbuffered && dur == bytes.len();
            (if complete { last + 1 } else { last }, class_of(&ops[last]))
        } else if is_boundary && matches!(ops[last], Op::Checkpoint | Op::CloseOpen | Op::DropOpen) {
            // the checkpoint / close returned Ok: everything issued before it must survive even if no fsync was observed
            (last, class_of(&ops[last]))
        } else {
            prev_floor
        };
        let others_unchanged = baseline.len() == ins.image.len() && baseline.iter().all(|(k, v)| if *k == logf { true } else { ins.image.get(k) == Some(v) });
        let base_len = baseline.get(&logf).map(|b| b.len()).unwrap_or(0);
        let lo = if others_unchanged && ins.tag != "op-boundary-initial" && ops.len() > 1 { dur.max(base_len.min(bytes.len())) } else { dur };
        let fr = frames(&final_image.get(&logf).cloned().unwrap_or_default());
        let dir_state: &'static str = if ins.image.keys().any(|k| is_tmp_file(k)) { "tmp-present" } else { "plain" };
        let mut push = |image: Image, point: String, dir_state: &'static str, how: String, images: &mut Vec<DbImage>| {
            if seen.insert((image_hash(&image), floor)) {
                images.push(DbImage { image, floor, issued, floor_source, point, dir_state, how, bitflip: false });
            }
        };
        for len in lo..=bytes.len() {
            let mut img = ins.image.clone();
            img.get_mut(&logf).unwrap().truncate(len);
            let part = frame_part(&fr, len);
            let point = if part == "boundary" { "record-boundary".to_string() } else { format!("torn-{part}") };
            push(img, point, dir_state, format!("instant {idx}/{n_inst} ({}) truncate {logf} to {len}", ins.tag), &mut images);
        }
        if let Some(tmp) = ins.image.keys().find(|k| is_tmp_file(k)).cloned() {
            let tlen = ins.image[&tmp].len();
            let mut without = ins.image.clone();
            without.remove(&tmp);
            push(without, "record-boundary".into(), "tmp-absent", format!("instant {idx}/{n_inst} without {tmp}"), &mut images);
            for l in 0..tlen {
                let mut torn = ins.image.clone();
                torn.get_mut(&tmp).unwrap().truncate(l);
                push(torn, "record-boundary".into(), "tmp-torn", format!("instant {idx}/{n_inst} truncate {tmp} to {l}"), &mut images);
            }
        }
    }
    if let Some(all_bits) = bit_flips
        && let Some(logf) = log_file_of(&final_image).cloned()
    {
        let bytes = final_image[&logf].clone();
        let fr = frames(&bytes);
        for off in 0..bytes.len() {
            let bits: Vec<u8> = if all_bits { (0..8).collect() } else { vec![(off % 8) as u8] };
            for b in bits {
                let mut im = final_image.clone();
                im.get_mut(&logf).unwrap()[off] ^= 1 << b;
                images.push(DbImage {
                    image: im,
                    floor: 0,
                    issued: ops.len(),
                    floor_source: "none",
                    point: format!("bit-flip-{}", frame_part_of_byte(&fr, off)),
                    dir_state: "plain",
                    how: format!("final image, flip {logf} byte {off} bit {b}"),
                    bitflip: true,
                });
            }
        }
    }
    Recorded { images, diverged, syncs: rec.syncs }
}

/// Fact-level state obtained by applying only the effects of operations `from..to` (as fact deltas of the
/// reference run) to an empty graph, keeping what is visible (facts of entities that exist).  Only used to
/// *name* the mechanism "everything before a checkpoint was dropped, the rest was replayed".
fn suffix_state(refs: &Refs, from: usize, to: usize) -> Dump {
    let mut facts: BTreeSet<String> = BTreeSet::new();
    for i in from..to.min(refs.refs.len() - 1) {
        let (a, b) = (&refs.refs[i].facts, &refs.refs[i + 1].facts);
        for f in a.difference(b) {
            facts.remove(f);
        }
        for f in b.difference(a) {
            facts.insert(f.clone());
        }
    }
    let visible: BTreeSet<String> = facts
        .iter()
        .filter(|f| {
            let owner = fact_owner(f);
            let pre = owner_fact_prefix(&owner);
            f.starts_with("n|") || f.starts_with("e|") || f.starts_with("t|") || facts.iter().any(|g| g.as_str() == pre || (pre.ends_with('|') && g.starts_with(&pre)))
        })
        .cloned()
        .collect();
    Dump { facts: visible }
}

/// Variant tags (first payload byte) of the whole records of a log, and whether bytes follow the last whole record.
fn log_shape(img: &Image) -> (&'static str, &'static str) {
    let Some(f) = log_file_of(img) else { return ("clean", "no") };
    let b = &img[f];
    let fr = frames(b);
    let end = fr.last().map(|(s, l)| s + 8 + l).unwrap_or(0);
    let tail = if end < b.len() { "torn" } else { "clean" };
    // data records after the last TxCommit (tag 8) / TxAbort (9)?
    let mut pending = false;
    for (s, l) in &fr {
        if *l == 0 {
            continue;
        }
        match b[s + 4] {
            // TxCommit / TxAbort / Checkpoint markers end the run of records a later commit marker would adopt
            8 | 9 | 10 => pending = false,
            _ => pending = true,
        }
    }
    (tail, if pending { "yes" } else { "no" })
}

pub struct ImageOutcome {
    pub violations: Vec<Violation>,
    /// which prefix the recovered state equals (None = none)
    pub matched: Option<usize>,
    pub continued: bool,
}

/// Opens one crash image with the real `GrafeoDB`, checks prefix consistency and the continuation.
pub fn eval_image(work: &Path, mode: Mode, ops: &[Op], refs: &Refs, im: &DbImage) -> ImageOutcome {
    let mut out = ImageOutcome { violations: vec![], matched: None, continued: false };
    write_image(work, &im.image);
    let case = || {
        json!({"layer": "database", "mode": mode.name(), "history": hist_text(ops), "image": im.how, "floor": im.floor, "issued": im.issued,
               "files": im.image.iter().map(|(k, v)| (k.clone(), json!(v.len()))).collect::<BTreeMap<_, _>>()})
    };
    let (tail, pending) = log_shape(&im.image);
    let base_sig = |kind: &str| -> Vec<(String, String)> {
        vec![
            ("layer".into(), "database".into()),
            ("kind".into(), kind.into()),
            ("mode".into(), mode.name().into()),
            ("crash-point".into(), im.point.clone()),
            ("dir-state".into(), im.dir_state.into()),
        ]
    };
    let mk = |sig: Vec<(String, String)>, detail: String| {
        let f: Vec<(&str, &str)> = sig.iter().map(|(k, v)| (k.as_str(), v.as_str())).collect();
        Violation::new(&f, case(), detail)
    };
    let opened = watchdog::guard(|| format!("{{\"history\":{:?},\"mode\":{:?},\"image\":{:?}}}", hist_text(ops), mode.name(), im.how), || vcore::catch(|| open_db(work, mode)));
    let db = match opened {
        Err(p) => {
            out.violations.push(mk(base_sig("panic"), format!("GrafeoDB::open panicked on a crash image: {p}")));
            return out;
        }
        Ok(Err(e)) => {
            let kind = if im.bitflip { "open-fails-on-corruption" } else { "open-fails" };
            out.violations.push(mk(base_sig(kind), format!("GrafeoDB::open returned Err on a crash image: {e}")));
            return out;
        }
        Ok(Ok(db)) => db,
    };
    let got = Dump::of(&db);
    let hi = im.issued.min(refs.refs.len() - 1);
    let lo = im.floor.min(hi);
    out.matched = (0..=hi).rev().find(|k| refs.refs[*k] == got);
    let ok = (lo..=hi).any(|k| refs.refs[k] == got);
    if !ok {
        let below = (0..lo).rev().find(|k| refs.refs[*k] == got);
        match below {
            Some(k) => {
                let mut sig = base_sig("below-durable-floor");
                sig.push(("floor-source".into(), im.floor_source.into()));
                sig.push(("log-tail".into(), tail.into()));
                // was wal_checkpoint() called in this history (a Checkpoint marker precedes or ends the log)?
                sig.push(("checkpoint-op-in-history".into(), if ops.iter().any(|o| matches!(o, Op::Checkpoint)) { "yes" } else { "no" }.into()));
                out.violations.push(mk(
                    sig,
                    format!(
                        "recovered state equals the state after {k} operation(s), but the first {} were durable ({}) at the crash instant; {}",
                        im.floor,
                        im.floor_source,
                        diff_text(&refs.refs[lo], &got)
                    ),
                ));
            }
            None => {
                let intra = refs.micro.iter().any(|(k, d)| *k < im.issued && *d == got);
                // does the state consist of exactly the operations issued after a wal_checkpoint() (everything before it dropped)?
                let after_cp = ops[..hi.min(ops.len())].iter().enumerate().filter(|(_, o)| matches!(o, Op::Checkpoint)).any(|(c, _)| (c + 1..=hi).any(|k| suffix_state(refs, c + 1, k) == got));
                let mut sig = base_sig("not-a-prefix");
                sig.push(("prefix-class".into(), if intra { "intra-operation" } else if after_cp { "suffix-after-checkpoint" } else { "none" }.into()));
                sig.push(("log-tail".into(), tail.into()));
                out.violations.push(mk(sig, format!("recovered state equals no prefix state 0..={hi}; versus the longest prefix: {}", diff_text(&refs.refs[hi], &got))));
            }
        }
    }
    // continuation: more writes, close, reopen
    out.continued = true;
    let existing_nodes = got.node_ids();
    let existing_edges = got.edge_ids();
    let x = db.create_node(&["Z"]);
    let e = db.create_edge(x, x, "ZZ");
    db.set_node_property(x, "k", Value::Int64(7));
    let cont_sig = |kind: &str| {
        let mut sig = base_sig(kind);
        sig.push(("log-tail".into(), tail.into()));
        sig.push(("uncommitted-records".into(), pending.into()));
        sig
    };
    if existing_nodes.contains(&x.as_u64()) || existing_edges.contains(&e.as_u64()) {
        out.violations.push(mk(cont_sig("id-collision-after-recovery"), format!("after recovery create_node returned id {} / create_edge id {} which already exist", x.as_u64(), e.as_u64())));
    }
    let before = Dump::of(&db);
    let closed = vcore::catch(|| db.close().map_err(|e| e.to_string()));
    drop(db);
    match closed {
        Err(p) => {
            out.violations.push(mk(cont_sig("panic"), format!("close() after recovery panicked: {p}")));
            return out;
        }
        Ok(Err(e)) => {
            out.violations.push(mk(cont_sig("close-fails-after-recovery"), format!("close() after recovery returned Err: {e}")));
            return out;
        }
        Ok(Ok(())) => {}
    }
    match vcore::catch(|| open_db(work, mode)) {
        Err(p) => out.violations.push(mk(cont_sig("panic"), format!("reopen after recovery+writes+close panicked: {p}"))),
        Ok(Err(e)) => out.violations.push(mk(cont_sig("open-fails-after-continuation"), format!("reopen after recovery+writes+close failed: {e}"))),
        Ok(Ok(db2)) => {
            let after = Dump::of(&db2);
            if after != before {
                let lost = !before.missing_in(&after).is_empty();
                let extra = !after.missing_in(&before).is_empty();
                let kind = match (lost, extra) {
                    (true, false) => "lost-after-continuation",
                    (false, true) => "resurrected-after-continuation",
                    _ => "diverged-after-continuation",
                };
                out.violations.push(mk(
                    cont_sig(kind),
                    format!("recovered database + 3 writes + close + reopen differs from its state before close: {}", diff_text(&before, &after)),
                ));
            }
            drop(db2);
        }
    }
    out
}

/// The set of history prefixes explored at a tier (prefix-closed by construction).
pub fn prefixes(tier: vcore::Tier) -> (Vec<Vec<Op>>, J) {
    let wide: Vec<Op> = vec![
        Op::CreateNode(1),
        Op::CreateNodeProps,
        Op::SetNodeProp(0, 0),
        Op::SetNodeProp(0, 6),
        Op::SetNodeProp(0, 12),
        Op::SetNodeProp(0, 15),
        Op::AddLabel(0),
        Op::RemoveLabel(0),
        Op::CreateEdge(0, 0),
        Op::CreateEdge(0, 1),
        Op::DeleteEdge(0),
        Op::DeleteNode(0),
        Op::Checkpoint,
        Op::CloseOpen,
    ];
    let narrow: Vec<Op> = vec![Op::CreateNode(1), Op::CreateNodeProps, Op::SetNodeProp(0, 1), Op::CreateEdge(0, 0), Op::DeleteNode(0), Op::Checkpoint, Op::CloseOpen];
    let long: Vec<Vec<Op>> = vec![
        vec![Op::CreateNode(1), Op::CreateNodeProps, Op::CreateEdge(0, 1), Op::SetNodeProp(0, 12), Op::Checkpoint, Op::AddLabel(0), Op::CloseOpen, Op::CreateNode(2), Op::DeleteNode(0)],
        vec![Op::CreateNodeProps, Op::CloseOpen, Op::SetNodeProp(0, 6), Op::CreateEdgeProps(0, 0), Op::CloseOpen, Op::DeleteEdge(0), Op::RemoveLabel(0), Op::Checkpoint],
        vec![Op::BatchCreate(2), Op::CreateEdge(0, 1), Op::CreateEdge(1, 0), Op::DeleteNode(1), Op::SetEdgeProp(0, 14), Op::CloseOpen],
    ];
    let (wide_depth, narrow_depth) = tier.pick((2, 3), (3, 5));
    let mut set: BTreeSet<Vec<Op>> = BTreeSet::new();
    let add_all = |alpha: &[Op], depth: usize, set: &mut BTreeSet<Vec<Op>>| {
        for d in 1..=depth {
            for s in vcore::sequences(alpha.len(), d) {
                let h: Vec<Op> = s.into_iter().map(|i| alpha[i].clone()).collect();
                if well_formed(&h) {
                    set.insert(h);
                }
            }
        }
    };
    add_all(&wide, wide_depth, &mut set);
    add_all(&narrow, narrow_depth, &mut set);
    for l in &long {
        for k in 1..=l.len() {
            set.insert(l[..k].to_vec());
        }
    }
    let bounds = json!({
        "wide_alphabet": hist_text(&wide), "wide_depth": wide_depth,
        "narrow_alphabet": hist_text(&narrow), "narrow_depth": narrow_depth,
        "long_histories": long.iter().map(|l| hist_text(l)).collect::<Vec<_>>(),
    });
    (set.into_iter().collect(), bounds)
}

/// Should single-bit flips be enumerated for this prefix, and with all 8 bits?
pub fn bit_flip_policy(tier: vcore::Tier, ops: &[Op], is_long: bool) -> Option<bool> {
    match tier {
        vcore::Tier::Quick => {
            if is_long && ops.len() >= 6 || ops.len() <= 1 { Some(false) } else { None }
        }
        vcore::Tier::Thorough => {
            if is_long || ops.len() <= 2 {
                Some(true)
            } else if ops.len() <= 3 {
                Some(false)
            } else {
                None
            }
        }
    }
}

/// Runs the database layer; returns the shard report.
pub fn run(tier: vcore::Tier, slow_base: &Path, fast_base: &Path) -> Report {
    let mut rep = Report::new("C06", tier, "fault_enumeration");
    let (pref, bounds) = prefixes(tier);
    rep.set("db_bounds", bounds);
    let long_firsts: BTreeSet<Vec<Op>> = pref.iter().filter(|p| p.len() >= 6).cloned().collect();
    let mut jobs: Vec<(Mode, Vec<Op>)> = vec![];
    for m in Mode::ALL {
        for p in &pref {
            jobs.push((m, p.clone()));
        }
    }
    rep.set("db_history_prefixes", json!(pref.len()));
    rep.set("db_modes", json!(Mode::ALL.iter().map(|m| m.name()).collect::<Vec<_>>()));
    // phase 1: record every prefix on the real (fsync-ing) scratch directory
    thread_local! { static WID: std::cell::Cell<usize> = const { std::cell::Cell::new(usize::MAX) }; }
    static NEXT: std::sync::atomic::AtomicUsize = std::sync::atomic::AtomicUsize::new(0);
    let wid = || {
        WID.with(|w| {
            if w.get() == usize::MAX {
                w.set(NEXT.fetch_add(1, std::sync::atomic::Ordering::Relaxed));
            }
            w.get()
        })
    };
    let shards = vcore::par_map(&jobs, vcore::cores(), |_, (mode, ops)| {
        let mut sh = Report::new("C06", tier, "fault_enumeration");
        let refs = reference(ops);
        let is_long = ops.len() >= 6 && long_firsts.contains(ops);
        let dir = slow_base.join(format!("rec-w{}", wid()));
        let recd = record(&dir, *mode, ops, &refs, bit_flip_policy(tier, ops, is_long));
        let _ = std::fs::remove_dir_all(&dir);
        sh.add("db_histories_recorded", 1);
        sh.add(&format!("db_sync_events_observed::{}", mode.name()), recd.syncs);
        if let Some((i, detail)) = &recd.diverged {
            // a clean close + reopen inside the history already lost data: that is C05's subject; the
            // crash images up to the close are still evaluated, later prefixes of this history are skipped
            if *i + 1 < ops.len() {
                sh.add("db_histories_skipped_after_diverging_reopen", 1);
                return sh;
            }
            let had_checkpoint = ops.iter().any(|o| matches!(o, Op::Checkpoint));
            sh.violation(Violation::new(
                &[("layer", "database"), ("kind", "lost-after-clean-reopen"), ("mode", mode.name()), ("op-kind", if had_checkpoint { "before-checkpoint" } else { "other" })],
                json!({"layer": "database", "mode": mode.name(), "history": hist_text(ops), "image": "none (clean close + reopen)"}),
                format!("close()+open() at the end of the history does not reproduce the pre-close state: {detail}"),
            ));
        }
        let work = fast_base.join(format!("img-w{}", wid()));
        let mut matched_hist: BTreeMap<String, u64> = BTreeMap::new();
        for im in &recd.images {
            sh.evaluations += 1;
            let o = eval_image(&work, *mode, ops, &refs, im);
            let key = (hist_text(ops), mode.name(), &im.how);
            if !im.image.values().all(|b| b.is_empty()) {
                sh.nontrivial(&key);
            }
            sh.add(if im.bitflip { "db_bit_flip_images" } else { "db_torn_images" }, 1);
            sh.add(&format!("db_point::{}", im.point), 1);
            if im.dir_state != "plain" {
                sh.add(&format!("db_dir_state::{}", im.dir_state), 1);
            }
            if im.floor > 0 {
                sh.add("db_images_with_durable_floor", 1);
            }
            if o.continued {
                sh.add("db_continuations", 1);
            }
            *matched_hist.entry(match o.matched { Some(k) if k == im.issued => "full".into(), Some(0) => "empty".into(), Some(_) => "partial".into(), None => "none".into() }).or_default() += 1;
            for v in o.violations {
                sh.violation(v);
            }
        }
        for (k, v) in matched_hist {
            sh.add(&format!("db_recovered_prefix::{k}"), v);
        }
        if ops.len() == 3 && *mode == Mode::BatchEach && sh.samples.is_empty() {
            sh.sample(json!({"layer": "database", "mode": mode.name(), "history": hist_text(ops), "images": recd.images.len(), "first_image": recd.images.first().map(|i| i.how.clone())}));
        }
        let _ = std::fs::remove_dir_all(&work);
        sh
    });
    for sh in shards {
        rep.merge(sh);
    }
    rep
}

/// Replays one database-layer case.
pub fn replay(case: &J, slow_base: &Path, fast_base: &Path) -> Vec<Violation> {
    let ops = hist_parse(&case["history"]);
    let mode = Mode::parse(case["mode"].as_str().unwrap_or("")).unwrap_or(Mode::Sync);
    let how = case["image"].as_str().unwrap_or("").to_string();
    let refs = reference(&ops);
    let mut out = vec![];
    for all_bits in [Some(true)] {
        let recd = record(&slow_base.join("replay-rec"), mode, &ops, &refs, all_bits);
        if how.starts_with("none") {
            if let Some((_, d)) = &recd.diverged {
                out.push(Violation::new(&[("layer", "database"), ("kind", "lost-after-clean-reopen"), ("mode", mode.name())], case.clone(), d.clone()));
            }
            return out;
        }
        // instants are numbered deterministically, except for timer-driven syncs in `batch` mode: match on the text after the instant number
        let strip = |s: &str| s.split_once(") ").map(|x| x.1.to_string()).unwrap_or_else(|| s.to_string());
        for im in recd.images.iter().filter(|i| i.how == how || (strip(&i.how) == strip(&how) && i.floor == case["floor"].as_u64().unwrap_or(0) as usize)) {
            out.extend(eval_image(&fast_base.join("replay-img"), mode, &ops, &refs, im).violations);
            break;
        }
    }
    out
}
