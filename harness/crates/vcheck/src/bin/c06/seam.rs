//! The `WalManager` + `WalRecovery` seam: record histories in, recovered record list out.
//!
//! Shared by C05 (clean shutdown: recovered list == what the recovery documentation
//! promises, under tiny `max_log_size` values, checkpoints and rotations anywhere) and
//! C06 (crash images / bit flips of the same histories).
//!
//! Reference ("DOC" semantics), literally from the rustdoc of `wal/mod.rs`,
//! `WalRecovery::recover` and `WalManager::checkpoint`:
//!   * "Returns only records that were part of committed transactions" / "No committed
//!     data is lost": a data record is returned iff a `TxCommit` follows it before any
//!     `TxAbort`;
//!   * "If checkpoint metadata exists, only replays files from the checkpoint sequence
//!     onwards": files whose sequence is below the checkpoint's log sequence are skipped.
//! The pinned code additionally drops the pending (not yet committed) records when it
//! meets a `Checkpoint` marker ("CODE" semantics); that is not documented and is only
//! used to *name* the mechanism of a mismatch, never to excuse it.
#![allow(dead_code)]

use super::{Image, Instant, Recorder, frame_part, frame_part_of_byte, frames, is_log_file, is_tmp_file, read_image, write_image};
use grafeo_adapters::storage::wal::{DurabilityMode, WalConfig, WalManager, WalRecord, WalRecovery};
use grafeo_common::types::{EpochId, NodeId, TxId};
use std::cell::Cell;
use std::collections::BTreeMap;
use std::path::Path;

// ---------------------------------------------------------------------------
// allocation probe (largest single request on the current thread)
// ---------------------------------------------------------------------------

pub mod allocprobe {
    use std::alloc::{GlobalAlloc, Layout, System};
    use std::cell::Cell;
    use std::sync::atomic::{AtomicUsize, Ordering};

    thread_local! { static PEAK: Cell<usize> = const { Cell::new(0) }; }
    /// When non-zero, a request larger than this is refused (returns null => the process aborts), as on a host without that much memory.
    pub static CAP: AtomicUsize = AtomicUsize::new(0);

    pub struct Counting;
    unsafe impl GlobalAlloc for Counting {
        unsafe fn alloc(&self, l: Layout) -> *mut u8 {
            note(l.size());
            if refuse(l.size()) { std::ptr::null_mut() } else { unsafe { System.alloc(l) } }
        }
        unsafe fn alloc_zeroed(&self, l: Layout) -> *mut u8 {
            note(l.size());
            if refuse(l.size()) { std::ptr::null_mut() } else { unsafe { System.alloc_zeroed(l) } }
        }
        unsafe fn dealloc(&self, p: *mut u8, l: Layout) {
            unsafe { System.dealloc(p, l) }
        }
        unsafe fn realloc(&self, p: *mut u8, l: Layout, n: usize) -> *mut u8 {
            note(n);
            if refuse(n) { std::ptr::null_mut() } else { unsafe { System.realloc(p, l, n) } }
        }
    }
    #[inline]
    fn refuse(n: usize) -> bool {
        let c = CAP.load(Ordering::Relaxed);
        c != 0 && n > c
    }
    #[inline]
    fn note(n: usize) {
        let _ = PEAK.try_with(|p| {
            if n > p.get() {
                p.set(n)
            }
        });
    }
    pub fn reset() {
        PEAK.with(|p| p.set(0));
    }
    pub fn peak() -> usize {
        PEAK.with(|p| p.get())
    }
}

// ---------------------------------------------------------------------------
// configuration and alphabet
// ---------------------------------------------------------------------------

#[derive(Clone, Copy, Debug, PartialEq, Eq, Hash)]
pub enum SDur {
    Sync,
    BatchEach,
    NoSync,
}
impl SDur {
    pub const ALL: [SDur; 3] = [SDur::Sync, SDur::BatchEach, SDur::NoSync];
    pub fn name(self) -> &'static str {
        match self {
            SDur::Sync => "sync",
            SDur::BatchEach => "batch-each-record",
            SDur::NoSync => "nosync",
        }
    }
    pub fn parse(s: &str) -> Option<SDur> {
        SDur::ALL.iter().copied().find(|d| d.name() == s)
    }
    fn mode(self) -> DurabilityMode {
        match self {
            SDur::Sync => DurabilityMode::Sync,
            SDur::BatchEach => DurabilityMode::Batch { max_delay_ms: 3_600_000, max_records: 1 },
            SDur::NoSync => DurabilityMode::NoSync,
        }
    }
}

/// Size on disk of one data record of the seam alphabet (u32 length + 5 payload bytes + u32 crc).
pub const DATA_RECORD_BYTES: u64 = 13;
/// `max_log_size` values: 1 byte (rotate after every record), one record, two records, the default 64 MiB.
pub const LOG_SIZES: [u64; 4] = [1, DATA_RECORD_BYTES, 2 * DATA_RECORD_BYTES, 64 * 1024 * 1024];

#[derive(Clone, Copy, Debug, PartialEq, Eq, Hash)]
pub enum SOp {
    /// log the next data record (`CreateNode { id: <running number>, labels: ["L"] }`)
    Data,
    Commit,
    Abort,
    Checkpoint,
    Rotate,
    Sync,
    /// drop the manager and open a new one on the same directory
    Reopen,
}
impl SOp {
    pub const ALL: [SOp; 7] = [SOp::Data, SOp::Commit, SOp::Abort, SOp::Checkpoint, SOp::Rotate, SOp::Sync, SOp::Reopen];
    pub fn ch(self) -> char {
        match self {
            SOp::Data => 'd',
            SOp::Commit => 'c',
            SOp::Abort => 'a',
            SOp::Checkpoint => 'k',
            SOp::Rotate => 'r',
            SOp::Sync => 's',
            SOp::Reopen => 'o',
        }
    }
    pub fn from_ch(c: char) -> Option<SOp> {
        SOp::ALL.iter().copied().find(|o| o.ch() == c)
    }
}
pub fn shist_text(h: &[SOp]) -> String {
    h.iter().map(|o| o.ch()).collect()
}
pub fn shist_parse(s: &str) -> Vec<SOp> {
    s.chars().filter_map(SOp::from_ch).collect()
}

/// One record as logged: what it was and which log file (sequence) received it.
#[derive(Clone, Debug)]
pub struct Logged {
    pub kind: RK,
    pub file_seq: u64,
}
#[derive(Clone, Copy, Debug, PartialEq, Eq)]
pub enum RK {
    Data(u64),
    Commit,
    Abort,
    Checkpoint,
}

fn data_record(i: u64) -> WalRecord {
    WalRecord::CreateNode { id: NodeId::new(i), labels: vec!["L".to_string()] }
}
fn seq_of(p: &Path) -> u64 {
    p.file_stem().and_then(|s| s.to_str()).and_then(|s| s.strip_prefix("wal_")).and_then(|s| s.parse().ok()).unwrap_or(0)
}

/// Result of running a seam history on the real `WalManager`.
pub struct SeamRun {
    pub logged: Vec<Logged>,
    /// after each operation: number of logged records so far
    pub logged_after_op: Vec<usize>,
    /// sequence of the active file when the last completed checkpoint returned (None = no checkpoint)
    pub checkpoint_seq: Option<u64>,
    /// an operation of the manager returned Err (never expected)
    pub errors: Vec<String>,
    /// (instants, records started at the last wal.sync seen by each instant) when recording
    pub instants: Vec<(Instant, usize, usize)>,
}

fn open_wal(dir: &Path, dur: SDur, max_log_size: u64) -> Result<WalManager, String> {
    WalManager::with_config(dir, WalConfig { durability: dur.mode(), max_log_size, compression: false }).map_err(|e| e.to_string())
}

thread_local! { static STARTED: Cell<usize> = const { Cell::new(0) }; }

/// Runs `hist` on a fresh directory.  With `record`, a snapshot is taken at every io event and
/// at every operation boundary; each instant carries (records started at the last sync, records started now).
pub fn run_seam(dir: &Path, dur: SDur, max_log_size: u64, hist: &[SOp], record: bool) -> SeamRun {
    let _ = std::fs::remove_dir_all(dir);
    let mut run = SeamRun { logged: vec![], logged_after_op: vec![], checkpoint_seq: None, errors: vec![], instants: vec![] };
    if record {
        Recorder::start(dir);
    }
    let mut wal = match open_wal(dir, dur, max_log_size) {
        Ok(w) => Some(w),
        Err(e) => {
            run.errors.push(format!("open: {e}"));
            None
        }
    };
    if record {
        Recorder::with(|r| r.snapshot("op-boundary"));
    }
    let mut next_data = 0u64;
    // floor bookkeeping: instants are annotated afterwards from `started_at_instant`
    let mut started_at: Vec<usize> = vec![]; // per instant index: records started when the instant was taken
    // records covered by a sync() / checkpoint() call that returned Ok (a promise, whether or not an fsync was observed)
    let promised = Cell::new(0usize);
    let mut promised_at: Vec<usize> = vec![];
    let mut note_instants = |run: &SeamRun, started_at: &mut Vec<usize>| {
        if record {
            let n = Recorder::with(|r| r.instants.len());
            while started_at.len() < n {
                started_at.push(run.logged.len());
                promised_at.push(promised.get());
            }
        }
    };
    note_instants(&run, &mut started_at);
    for (i, op) in hist.iter().enumerate() {
        if record {
            Recorder::with(|r| r.op_index = i);
        }
        let Some(w) = wal.as_ref() else { break };
        let active = seq_of(&w.path());
        let mut after_ok = false;
        let log = |run: &mut SeamRun, kind: RK, rec: WalRecord| {
            run.logged.push(Logged { kind, file_seq: active });
            if let Err(e) = w.log(&rec) {
                run.errors.push(format!("log: {e}"));
            }
        };
        match op {
            SOp::Data => {
                log(&mut run, RK::Data(next_data), data_record(next_data));
                next_data += 1;
            }
            SOp::Commit => log(&mut run, RK::Commit, WalRecord::TxCommit { tx_id: TxId::new(1) }),
            SOp::Abort => log(&mut run, RK::Abort, WalRecord::TxAbort { tx_id: TxId::new(1) }),
            SOp::Checkpoint => {
                run.logged.push(Logged { kind: RK::Checkpoint, file_seq: active });
                match w.checkpoint(TxId::new(1), EpochId::new(1)) {
                    Ok(()) => {
                        run.checkpoint_seq = Some(seq_of(&w.path()));
                        after_ok = true;
                    }
                    Err(e) => run.errors.push(format!("checkpoint: {e}")),
                }
            }
            SOp::Rotate => {
                if let Err(e) = w.rotate() {
                    run.errors.push(format!("rotate: {e}"));
                }
            }
            SOp::Sync => {
                match w.sync() {
                    Ok(()) => after_ok = true,
                    Err(e) => run.errors.push(format!("sync: {e}")),
                }
            }
            SOp::Reopen => {
                wal = None; // drop flushes the buffered writer
                match open_wal(dir, dur, max_log_size) {
                    Ok(w2) => wal = Some(w2),
                    Err(e) => run.errors.push(format!("reopen: {e}")),
                }
            }
        }
        // instants produced by io events during this op saw the record already started
        note_instants(&run, &mut started_at);
        if after_ok {
            promised.set(run.logged.len());
        }
        if record {
            Recorder::with(|r| r.snapshot("op-boundary"));
        }
        note_instants(&run, &mut started_at);
        run.logged_after_op.push(run.logged.len());
    }
    drop(wal);
    if record {
        let rec = Recorder::stop().expect("recorder");
        // records started at the last wal.sync seen by each instant
        let mut synced = 0usize;
        let mut last_syncs = 0u64;
        for (idx, ins) in rec.instants.into_iter().enumerate() {
            let started = started_at.get(idx).copied().unwrap_or(run.logged.len());
            if ins.syncs > last_syncs {
                last_syncs = ins.syncs;
                synced = started;
            }
            run.instants.push((ins, synced.max(promised_at.get(idx).copied().unwrap_or(0)), started));
        }
    }
    run
}

#[derive(Clone, Copy, PartialEq, Eq, Debug)]
pub enum Sem {
    Doc,
    /// the pinned code: a Checkpoint marker clears the pending records
    Code,
}

/// Data records (by number) the recovery must return for the prefix `logged[..k]`,
/// skipping files below `min_seq`.
pub fn expected(logged: &[Logged], k: usize, min_seq: u64, sem: Sem) -> Vec<u64> {
    let mut pending: Vec<u64> = vec![];
    let mut out = vec![];
    for l in &logged[..k.min(logged.len())] {
        if l.file_seq < min_seq {
            continue;
        }
        match l.kind {
            RK::Data(i) => pending.push(i),
            RK::Commit => out.append(&mut pending),
            RK::Abort => pending.clear(),
            RK::Checkpoint => {
                if sem == Sem::Code {
                    pending.clear()
                }
            }
        }
    }
    out
}

/// Outcome of `WalRecovery::recover` on a directory.
pub struct Recovered {
    pub result: Result<Vec<WalRecord>, String>,
    pub panic: Option<String>,
    pub peak_alloc: usize,
}
pub fn recover_dir(dir: &Path) -> Recovered {
    allocprobe::reset();
    let r = vcore::catch(|| WalRecovery::new(dir).recover());
    let peak = allocprobe::peak();
    match r {
        Ok(Ok(v)) => Recovered { result: Ok(v), panic: None, peak_alloc: peak },
        Ok(Err(e)) => Recovered { result: Err(e.to_string()), panic: None, peak_alloc: peak },
        Err(p) => Recovered { result: Err("panic".into()), panic: Some(p), peak_alloc: peak },
    }
}

/// Splits a recovered list into data-record numbers and "garbage" (records that were never logged).
pub fn data_numbers(recs: &[WalRecord], issued_data: u64) -> (Vec<u64>, Vec<String>) {
    let mut data = vec![];
    let mut garbage = vec![];
    for r in recs {
        match r {
            WalRecord::CreateNode { id, labels } if labels.len() == 1 && labels[0] == "L" && id.as_u64() < issued_data => data.push(id.as_u64()),
            WalRecord::TxCommit { tx_id } | WalRecord::TxAbort { tx_id } | WalRecord::Checkpoint { tx_id } if tx_id.as_u64() == 1 => {}
            other => garbage.push(format!("{other:?}")),
        }
    }
    (data, garbage)
}

pub fn checkpoint_seq_on_disk(dir: &Path) -> Option<u64> {
    WalRecovery::new(dir).checkpoint().map(|c| c.log_sequence)
}

// ---------------------------------------------------------------------------
// crash images of a recorded run
// ---------------------------------------------------------------------------

#[derive(Clone, Debug)]
pub struct CrashImage {
    pub image: Image,
    /// records that must survive (started before the last sync visible at that instant)
    pub floor: usize,
    /// records issued when the image could arise
    pub issued: usize,
    /// "torn-length" | "torn-payload" | "torn-checksum" | "record-boundary" | "bit-flip-length" | ...
    pub point: String,
    /// "active" (highest sequence) | "older" : which log file was damaged
    pub file_role: &'static str,
    /// "plain" | "tmp-present" | "tmp-torn" | "tmp-absent" | "rotated-present" | "rotated-absent"
    pub dir_state: &'static str,
    /// description sufficient to rebuild the image from a replay: (instant index, file, length | bit)
    pub how: String,
}

fn newest_log(img: &Image) -> Option<String> {
    img.keys().filter(|k| is_log_file(k)).max().cloned()
}

/// All torn-tail images of the recorded instants `from_instant..`: for every instant, for every log
/// file, every length from its durable length to its current length (the other files as they are),
/// and the checkpoint-temp / rotated-file presence variants at the instants where they exist.
/// (Callers enumerate every history prefix, so `from_instant` is the first instant of the last operation.)
pub fn torn_images(instants: &[(Instant, usize, usize)], from_instant: usize) -> Vec<CrashImage> {
    let mut out = vec![];
    let mut seen = std::collections::HashSet::new();
    // longest content ever seen per log file: the framing used to classify a crash point
    let mut full: BTreeMap<String, Vec<u8>> = BTreeMap::new();
    for (ins, _, _) in instants {
        for (f, b) in ins.image.iter().filter(|(k, _)| is_log_file(k)) {
            if full.get(f).map(|x| x.len()).unwrap_or(0) <= b.len() {
                full.insert(f.clone(), b.clone());
            }
        }
    }
    for (idx, (ins, floor, issued)) in instants.iter().enumerate().skip(from_instant) {
        let newest = newest_log(&ins.image);
        let mut push = |image: Image, point: String, file_role: &'static str, dir_state: &'static str, how: String, out: &mut Vec<CrashImage>| {
            let h = (super::image_hash(&image), *floor);
            if seen.insert(h) {
                out.push(CrashImage { image, floor: *floor, issued: *issued, point, file_role, dir_state, how });
            }
        };
        let base_state: &'static str = if ins.image.keys().any(|k| is_tmp_file(k)) {
            "tmp-present"
        } else if ins.tag == "wal.rotate.created" {
            "rotated-present"
        } else {
            "plain"
        };
        for (f, bytes) in ins.image.iter().filter(|(k, _)| is_log_file(k)) {
            let dur = (ins.durable.get(f).copied().unwrap_or(0) as usize).min(bytes.len());
            let fr = frames(&full[f]);
            let role = if Some(f) == newest.as_ref() { "active" } else { "older" };
            for len in dur..=bytes.len() {
                let mut img = ins.image.clone();
                img.get_mut(f).unwrap().truncate(len);
                let part = frame_part(&fr, len);
                let point = if part == "boundary" { "record-boundary".to_string() } else { format!("torn-{part}") };
                push(img, point, role, base_state, format!("instant {idx} truncate {f} to {len}"), &mut out);
            }
        }
        // presence / absence variants
        if let Some(tmp) = ins.image.keys().find(|k| is_tmp_file(k)).cloned() {
            let tlen = ins.image[&tmp].len();
            let mut without = ins.image.clone();
            without.remove(&tmp);
            push(without, "record-boundary".into(), "active", "tmp-absent", format!("instant {idx} without {tmp}"), &mut out);
            for l in 0..tlen {
                let mut torn = ins.image.clone();
                torn.get_mut(&tmp).unwrap().truncate(l);
                push(torn, "record-boundary".into(), "active", "tmp-torn", format!("instant {idx} truncate {tmp} to {l}"), &mut out);
            }
        }
        if ins.tag == "wal.rotate.created"
            && let Some(n) = newest.clone()
            && ins.image.get(&n).map(|b| b.is_empty()).unwrap_or(false)
        {
            let mut without = ins.image.clone();
            without.remove(&n);
            push(without, "record-boundary".into(), "active", "rotated-absent", format!("instant {idx} without {n}"), &mut out);
        }
    }
    out
}

/// Single-bit corruptions of every log file of `img`: `bits` lists the bit indexes flipped per byte
/// (`None` = the rotating choice `offset % 8`).
pub fn bit_flip_images(img: &Image, all_bits: bool, floor_zero_issued: usize) -> Vec<CrashImage> {
    let mut out = vec![];
    let newest = newest_log(img);
    for (f, bytes) in img.iter().filter(|(k, _)| is_log_file(k)) {
        let fr = frames(bytes);
        let role = if Some(f) == newest.as_ref() { "active" } else { "older" };
        for off in 0..bytes.len() {
            let bits: Vec<u8> = if all_bits { (0..8).collect() } else { vec![(off % 8) as u8] };
            for b in bits {
                let mut im = img.clone();
                im.get_mut(f).unwrap()[off] ^= 1 << b;
                out.push(CrashImage {
                    image: im,
                    floor: 0,
                    issued: floor_zero_issued,
                    point: format!("bit-flip-{}", frame_part_of_byte(&fr, off)),
                    file_role: role,
                    dir_state: "plain",
                    how: format!("flip {f} byte {off} bit {b}"),
                });
            }
        }
    }
    out
}

/// Verdict of the seam oracle for one recovered list.
#[derive(Debug, Clone, PartialEq, Eq)]
pub enum SeamVerdict {
    Ok,
    /// explained by the undocumented "checkpoint marker clears pending records" rule
    LostBeforeCheckpoint,
    BelowFloor { also_checkpoint_rule: bool },
    NotAPrefix,
}

pub fn judge(logged: &[Logged], floor: usize, issued: usize, min_seq: u64, got: &[u64]) -> SeamVerdict {
    let issued = issued.min(logged.len());
    let floor = floor.min(issued);
    let hit = |lo: usize, hi: usize, sem: Sem| (lo..=hi).any(|k| expected(logged, k, min_seq, sem) == got);
    if hit(floor, issued, Sem::Doc) {
        SeamVerdict::Ok
    } else if hit(floor, issued, Sem::Code) {
        SeamVerdict::LostBeforeCheckpoint
    } else if floor > 0 && hit(0, floor - 1, Sem::Doc) {
        SeamVerdict::BelowFloor { also_checkpoint_rule: false }
    } else if floor > 0 && hit(0, floor - 1, Sem::Code) {
        SeamVerdict::BelowFloor { also_checkpoint_rule: true }
    } else {
        SeamVerdict::NotAPrefix
    }
}

/// Every history over `alphabet` of length 1..=depth.
pub fn seam_histories(alphabet: &[SOp], depth: usize) -> Vec<Vec<SOp>> {
    let mut out = vec![];
    for d in 1..=depth {
        for s in vcore::sequences(alphabet.len(), d) {
            out.push(s.into_iter().map(|i| alphabet[i]).collect());
        }
    }
    out
}

pub fn final_image(dir: &Path) -> Image {
    read_image(dir)
}
pub fn materialize(dir: &Path, img: &Image) {
    write_image(dir, img);
}
pub type FileMap = BTreeMap<String, Vec<u8>>;

// ---------------------------------------------------------------------------
// AdaptiveFlusher: "graceful shutdown with final flush guarantee" (flusher.rs)
// ---------------------------------------------------------------------------

/// Logs `n` records through an Adaptive-mode manager with a flusher whose interval never elapses,
/// then shuts the flusher down (`explicit`: `shutdown()`, else Drop).  Returns
/// (bytes in the log file, largest length reported durable by a wal.sync event, number of sync events).
pub fn flusher_final_flush(dir: &Path, n: u64, explicit: bool) -> Result<(u64, u64, usize), String> {
    use grafeo_adapters::storage::wal::AdaptiveFlusher;
    use std::sync::Arc;
    let _ = std::fs::remove_dir_all(dir);
    let wal = Arc::new(
        WalManager::with_config(dir, WalConfig { durability: DurabilityMode::Adaptive { target_interval_ms: 3_600_000 }, max_log_size: 64 * 1024 * 1024, compression: false })
            .map_err(|e| e.to_string())?,
    );
    super::cross_start(dir);
    let mut flusher = AdaptiveFlusher::new(Arc::clone(&wal), 3_600_000);
    for i in 0..n {
        wal.log(&data_record(i)).map_err(|e| e.to_string())?;
    }
    wal.log(&WalRecord::TxCommit { tx_id: TxId::new(1) }).map_err(|e| e.to_string())?;
    if explicit {
        flusher.shutdown()?;
    }
    drop(flusher);
    let events = super::cross_stop();
    let len = std::fs::metadata(wal.path()).map(|m| m.len()).unwrap_or(0);
    let syncs: Vec<&(String, u64, u64)> = events.iter().filter(|e| e.0 == "wal.sync").collect();
    Ok((len, syncs.iter().map(|e| e.1).max().unwrap_or(0), syncs.len()))
}
